"""Frozen oracle tables (DESIGN.md Appendix B/G).  Data only; reviewed once; each with its citation.

Holes are written <a>, <b>, <c> (operands in source order), <w> (width of the node's own type), <src> etc.
beta(x) = x if x is bool-sorted else NON_ZERO(x).
"""

# --- G.1 operators: C11 6.5.3.3, 6.5.5-6.5.15; RzIL builders from rz_il_opbuilder_begin.h -----------------------
# key: (enum class, operator spelling) -> {guard-valuation: term}
BINARY_ARITH = {  # ArithmeticType
    "+": "ADD(<a>, <b>)",
    "-": "SUB(<a>, <b>)",
    "*": "MUL(<a>, <b>)",
    "/": {True: "SDIV(<a>, <b>)", False: "DIV(<a>, <b>)"},  # keyed by the signedness of the (common) operand type, C11 6.5.5
    "%": {True: "SMOD(<a>, <b>)", False: "MOD(<a>, <b>)"},
}
BITOPS = {  # BitOperationType ; value may depend on signedness of the LEFT operand (C11 6.5.7p5 + QEMU convention)
    "&": "LOGAND(<a>, <b>)",
    "|": "LOGOR(<a>, <b>)",
    "^": "LOGXOR(<a>, <b>)",
    "~": "LOGNOT(<a>)",
    "-": "NEG(<a>)",
    "<<": "SHIFTL0(<a>, <b>)",
    ">>": {True: "SHIFTRA(<a>, <b>)", False: "SHIFTR0(<a>, <b>)"},  # keyed by "left operand signed"
}
COMPARE = {  # CompareOpType ; {S|U} by signedness of the (common) operand type, C11 6.5.8/6.5.9
    "<": "{p}LT(<a>, <b>)",
    ">": "{p}GT(<a>, <b>)",
    "<=": "{p}LE(<a>, <b>)",
    ">=": "{p}GE(<a>, <b>)",
    "==": "EQ(<a>, <b>)",
    "!=": "INV(EQ(<a>, <b>))",
}
BOOLEAN = {  # BooleanOpType, C11 6.5.3.3p5, 6.5.13, 6.5.14
    "&&": "AND({ba}, {bb})",
    "||": "OR({ba}, {bb})",
    "!": "INV({ba})",
}
TERNARY = "ITE({bc}, <b>, <c>)"  # C11 6.5.15

# --- G.3 conversions: C11 6.3.1.2, 6.3.1.3 ------------------------------------------------------------------------
# CAST(width of target, fill, source); fill = MSB(source) iff the SOURCE type is signed, independent of the target sign
CAST = {
    # (target_signed, source_signed) -> term
    (True, True): "CAST(<w>, MSB(<src>), <src>)",
    (False, True): "CAST(<w>, MSB(<src>), <src>)",
    (True, False): "CAST(<w>, IL_FALSE, <src>)",
    (False, False): "CAST(<w>, IL_FALSE, <src>)",
}

# --- G.7 compound assignment: C11 6.5.16.2 -----------------------------------------------------------------------
COMPOUND = {
    "+=": ("ArithmeticOp", "+"),
    "-=": ("ArithmeticOp", "-"),
    "*=": ("ArithmeticOp", "*"),
    "/=": ("ArithmeticOp", "/"),
    "%=": ("ArithmeticOp", "%"),
    ">>=": ("BitOp", ">>"),
    "<<=": ("BitOp", "<<"),
    "&=": ("BitOp", "&"),
    "^=": ("BitOp", "^"),
    "|=": ("BitOp", "|"),
}

# --- G.6 operands: QEMU target/hexagon/hex_common.py, Rizin hexagon.h, Hexagon PRM --------------------------------
REG_WIDTH = {"R": 32, "C": 32, "M": 32, "N": 32, "P": 8, "V": 1024, "Q": 128}
REG_CLASS = {
    "R": "HEX_REG_CLASS_INT_REGS",
    "N": "HEX_REG_CLASS_INT_REGS",
    "P": "HEX_REG_CLASS_PRED_REGS",
    "V": "HEX_REG_CLASS_HVX_VR",
    "Q": "HEX_REG_CLASS_HVX_QR",
    "G": "HEX_REG_CLASS_GUEST_REGS",
    "S": "HEX_REG_CLASS_SYS_REGS",
    "M": "HEX_REG_CLASS_MOD_REGS",
    "C": "HEX_REG_CLASS_CTR_REGS",
}
REG_CLASS_PAIR = {
    "R": "HEX_REG_CLASS_DOUBLE_REGS",
    "V": "HEX_REG_CLASS_HVX_WR",
    "C": "HEX_REG_CLASS_CTR_REGS64",
    "G": "HEX_REG_CLASS_GUEST_REGS64",
    "S": "HEX_REG_CLASS_SYS_REGS64",
}
ACCESS_LETTERS = {
    "SRC_REG": set("stuvw"),
    "DEST_REG": set("de"),
    "SRC_DEST_REG": set("xyz"),
    "SRC_REG_PAIR": {"ss", "tt", "uu", "vv"},
    "DEST_REG_PAIR": {"dd"},
    "SRC_DEST_REG_PAIR": {"xx", "yy"},
}
IMM_LETTERS = set("rRsSuUmn")
IMM_SIGNED = set("rRsS")
ALIAS_64 = {"upcycle", "pktcount", "utimer"}

# --- G.5 attributes -------------------------------------------------------------------------------------------------
ATTR_STRINGS = {
    "is_conditional": "HEX_IL_INSN_ATTR_COND",
    "uses_new": "HEX_IL_INSN_ATTR_NEW",
    "writes_mem": "HEX_IL_INSN_ATTR_MEM_WRITE",
    "reads_mem": "HEX_IL_INSN_ATTR_MEM_READ",
    "branches": "HEX_IL_INSN_ATTR_BRANCH",
    "writes_predicate": "HEX_IL_INSN_ATTR_WPRED",
}

# --- G.8 RzIL sorts (rz_il_opbuilder_begin.h, rz_il_validate.c) ----------------------------------------------------
# bv = bitvector; result, args
SORTS = {
    "ADD": ("bv", ["bv", "bv"], "eqw"), "SUB": ("bv", ["bv", "bv"], "eqw"), "MUL": ("bv", ["bv", "bv"], "eqw"),
    "DIV": ("bv", ["bv", "bv"], "eqw"), "MOD": ("bv", ["bv", "bv"], "eqw"), "SDIV": ("bv", ["bv", "bv"], "eqw"), "SMOD": ("bv", ["bv", "bv"], "eqw"),
    "LOGAND": ("bv", ["bv", "bv"], "eqw"), "LOGOR": ("bv", ["bv", "bv"], "eqw"), "LOGXOR": ("bv", ["bv", "bv"], "eqw"),
    "LOGNOT": ("bv", ["bv"], None), "NEG": ("bv", ["bv"], None),
    "SHIFTL0": ("bv", ["bv", "bv"], None), "SHIFTR0": ("bv", ["bv", "bv"], None), "SHIFTRA": ("bv", ["bv", "bv"], None),
    "EQ": ("bool", ["bv", "bv"], "eqw"),
    "SLT": ("bool", ["bv", "bv"], "eqw"), "SGT": ("bool", ["bv", "bv"], "eqw"), "SLE": ("bool", ["bv", "bv"], "eqw"), "SGE": ("bool", ["bv", "bv"], "eqw"),
    "ULT": ("bool", ["bv", "bv"], "eqw"), "UGT": ("bool", ["bv", "bv"], "eqw"), "ULE": ("bool", ["bv", "bv"], "eqw"), "UGE": ("bool", ["bv", "bv"], "eqw"),
    "INV": ("bool", ["bool"], None), "AND": ("bool", ["bool", "bool"], None), "OR": ("bool", ["bool", "bool"], None),
    "NON_ZERO": ("bool", ["bv"], None), "MSB": ("bool", ["bv"], None),
    "CAST": ("bv", ["int", "bool", "bv"], None),
    "ITE": ("same", ["bool", "any", "any"], "eqarms"),
}


# ---------------------------------------------------------------------------------------------------------------------
# C11 integer evaluation of constant expressions (oracle for the compile-time folders, written from the standard:
# 6.3.1.1 promotions, 6.3.1.3 conversions, 6.3.1.8 usual arithmetic conversions, 6.5.5/6.5.6/6.5.8/6.5.9)
def c_promote(t):
    """t = (signed, width) -> promoted type."""
    s, w = t
    return (True, 32) if w < 32 else (s, w)


def c_common(ta, tb):
    ta, tb = c_promote(ta), c_promote(tb)
    if ta == tb:
        return ta
    (sa, wa), (sb, wb) = ta, tb
    if sa == sb:
        return (sa, max(wa, wb))
    (su, wu), (ss, ws) = (ta, tb) if not sa else (tb, ta)  # unsigned one, signed one
    if wu >= ws:
        return (False, wu)
    return (True, ws)  # the signed type can represent all values of the narrower unsigned type


def c_convert(v, t):
    s, w = t
    v &= (1 << w) - 1
    if s and v >> (w - 1):
        v -= 1 << w
    return v


def c_fold(op, a, ta, b, tb):
    """-> ('value', v, type) | ('bool', truth) | ('reject',) for `a op b` on integer constants a:ta, b:tb."""
    t = c_common(ta, tb)
    x, y = c_convert(a, t), c_convert(b, t)
    if op in ("<", ">", "<=", ">=", "==", "!="):
        return ("bool", {"<": x < y, ">": x > y, "<=": x <= y, ">=": x >= y, "==": x == y, "!=": x != y}[op])
    if op == "/":
        if y == 0 or x % y != 0:
            return ("reject",)
        return ("value", c_convert(x // y, t), t)
    if op == "%":
        # C11 6.5.5p6: the quotient truncates toward zero, the remainder has the sign of the dividend
        if y == 0:
            return ("reject",)
        q = abs(x) // abs(y) * (1 if (x < 0) == (y < 0) else -1)
        return ("value", c_convert(x - q * y, t), t)
    v = {"+": x + y, "-": x - y, "*": x * y}[op]
    return ("value", c_convert(v, t), t)


FOLD_OPERANDS = [  # (value, (signed, width)) : values around the width boundaries, both signs
    (0, (True, 32)), (1, (True, 32)), (-1, (True, 32)), (5, (True, 32)), (-7, (True, 32)), (0x7FFFFFFF, (True, 32)), (-0x80000000, (True, 32)),
    (1, (False, 32)), (0xFFFFFFFF, (False, 32)), (0x80000000, (False, 32)), (6, (False, 32)),
    (3, (True, 64)), (-7, (True, 64)), (0x7FFFFFFFFFFFFFFF, (True, 64)), (0x100000000, (True, 64)),
    (2, (False, 64)), (0xFFFFFFFFFFFFFFFF, (False, 64)),
    (-1, (False, 32)),  # what the unary folder leaves for -1U : value not yet reduced, type unsigned
]
FOLD_OPERANDS_QUICK = [FOLD_OPERANDS[i] for i in (1, 2, 4, 5, 6, 7, 8, 12, 16)]


# ---------------------------------------------------------------------------------------------------------------------
# Signatures of the QEMU bit helpers the macro table maps to IL macros (qemu/include/qemu/bitops.h, bswap.h): the IL
# macro of the same name takes and yields bitvectors of exactly these widths.
QEMU_BIT_HELPERS = {
    "bswap16": ("uint16_t", ["uint16_t"]), "bswap32": ("uint32_t", ["uint32_t"]), "bswap64": ("uint64_t", ["uint64_t"]),
    "extract32": ("uint32_t", ["uint32_t", "int32_t", "int32_t"]), "extract64": ("uint64_t", ["uint64_t", "int32_t", "int32_t"]),
    "sextract64": ("int64_t", ["uint64_t", "int32_t", "int32_t"]),
    "deposit32": ("uint32_t", ["uint32_t", "int32_t", "int32_t", "uint32_t"]), "deposit64": ("uint64_t", ["uint64_t", "int32_t", "int32_t", "uint64_t"]),
}


# C11 6.4.1 keywords (plus __func__, 6.4.2.2)
C11_KEYWORDS = set("""auto break case char const continue default do double else enum extern float for goto if inline int long
register restrict return short signed sizeof static struct switch typedef union unsigned void volatile while _Alignas _Alignof
_Atomic _Bool _Complex _Generic _Imaginary _Noreturn _Static_assert _Thread_local __func__""".split())


# register alias names of the Hexagon plugin (rizin: HexRegAlias) made of capitals and digits; used as probe words only
ALIAS_PROBES = ("SA0", "LC0", "SA1", "LC1", "USR", "PC", "UGP", "GP", "CS0", "CS1", "UPCYCLELO", "UPCYCLEHI", "FRAMELIMIT", "FRAMEKEY", "PKTCOUNTLO", "PKTCOUNTHI",
                "UTIMERLO", "UTIMERHI", "M0", "M1", "LR", "SP", "FP")


# plugin macros whose parameters are plugin objects (packet, instruction, operand slot, enum) handed through unconverted: the C type each
# parameter starts with (rizin: librz/arch/isa/hexagon/hexagon_il.h).  A value type here would make the compiler pass the register VALUE
# where the plugin expects the operand slot.
PLUGIN_OBJECT_PARAMS = {
    "get_corresponding_CS": ["HexPkt", "HexOp"],
    "HEX_GET_INSN_RMODE": ["HexInsn"],
    "HEX_SETROUND": ["HexInsn", "RzFloatRMode"],
    "REGFIELD": ["HexRegFieldProperty", "HexRegField"],
}
