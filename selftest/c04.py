VT = "rzilcompiler/Transformer/ValueType.py"


def M(name, rule, old, new, file=VT):
    return {"name": name, "kind": "M", "rule": rule, "edits": [{"file": file, "old": old, "new": new}]}


def T(name, old, new, file=VT):
    return {"name": name, "kind": "T", "edits": [{"file": file, "old": old, "new": new}]}


CATALOGUE = [
    M("lt-to-gt", "R04.1", "if va.bit_width < vb.bit_width:", "if va.bit_width > vb.bit_width:"),
    M("ge-to-gt-mixed", "R04.1", "if unsigned.bit_width >= signed.bit_width:", "if unsigned.bit_width > signed.bit_width:"),
    M("remove-deepcopy", "R04.2", "    va = deepcopy(a)\n    vb = deepcopy(b)\n", "    va = a\n    vb = b\n"),
    T("swap-return-same-sig", "return (signed, unsigned) if a_is_signed else (unsigned, signed)", "return (unsigned, signed) if a_is_signed else (signed, unsigned)"),
    M("signed-false-dropped", "R04.1", "        signed.bit_width = unsigned.bit_width\n        signed.signed = False\n", "        signed.bit_width = unsigned.bit_width\n"),
    M("promo-threshold-16", "R04.3", "if pure_type.bit_width >= 32:", "if pure_type.bit_width >= 16:"),
    M("promo-gt", "R04.3", "if pure_type.bit_width >= 32:", "if pure_type.bit_width > 32:"),
    M("promo-unsigned", "R04.3", "    return ValueType(True, 32)\n\n\ndef wrap_to_type", "    return ValueType(False, 32)\n\n\ndef wrap_to_type"),
    M("eq-ignores-sign", "R04.4", "basics_match = self.bit_width == other.bit_width and self.signed == other.signed", "basics_match = self.bit_width == other.bit_width"),
    M("early-return-on-rank", "R04.1", "if sign_match and rank_match:", "if rank_match:"),
    T("max-on-copies", "        if va.bit_width < vb.bit_width:\n            va.bit_width = vb.bit_width\n        else:\n            vb.bit_width = va.bit_width\n        return va, vb",
      "        w = max(va.bit_width, vb.bit_width)\n        va.bit_width = w\n        vb.bit_width = w\n        return va, vb"),
    T("rename-locals", "    a_is_signed = va.signed\n    unsigned = vb if a_is_signed else va\n    signed = va if a_is_signed else vb\n", "    a_is_signed = va.signed\n    unsigned, signed = (vb, va) if a_is_signed else (va, vb)\n"),
    T("promo-lt-form", "    if pure_type.bit_width >= 32:\n        return pure_type\n    return ValueType(True, 32)", "    if pure_type.bit_width < 32:\n        return ValueType(True, 32)\n    return pure_type"),
]
