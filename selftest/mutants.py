"""Hand-written mutants (DESIGN.md Appendix F): each breaks one clause of a property while the package still imports.
Entry: (property, name, expected rule or None, file, old, new)."""
T = "rzilcompiler/Transformer/RZILTransformer.py"
VT = "rzilcompiler/Transformer/ValueType.py"
HX = "rzilcompiler/HexagonExtensions.py"
PR = "rzilcompiler/Parser.py"
PP = "rzilcompiler/Preprocessor/Hexagon/PreprocessorHexagon.py"
CP = "rzilcompiler/Compiler.py"
D = "rzilcompiler/Transformer/"
GR = "Resources/Hexagon/grammar.lark"

MUTANTS = [
    # ---- C02
    ("C02", "swap-shiftra-shiftr0", "R02.1", D + "Pures/BitOp.py", "                return f\"SHIFTRA({self.ops[0].il_read()}, {self.ops[1].il_read()})\"\n            else:\n                return f\"SHIFTR0(", "                return f\"SHIFTR0({self.ops[0].il_read()}, {self.ops[1].il_read()})\"\n            else:\n                return f\"SHIFTRA("),
    ("C02", "shift-sign-of-right-operand", "R02.1", D + "Pures/BitOp.py", "            if self.ops[0].value_type.signed:\n                # QEMU", "            if self.ops[1].value_type.signed:\n                # QEMU"),
    ("C02", "compare-prefix-inverted", "R02.1", D + "Pures/CompareOp.py", "            \"S\"\n            if (self.ops[0].value_type.signed or self.ops[1].value_type.signed)\n            else \"U\"", "            \"U\"\n            if (self.ops[0].value_type.signed or self.ops[1].value_type.signed)\n            else \"S\""),
    ("C02", "sub-operands-swapped", "R02.1", D + "Pures/ArithmeticOp.py", "        return f\"{code}{self.ops[0].il_read()}, {self.ops[1].il_read()})\"", "        return f\"{code}{self.ops[1].il_read()}, {self.ops[0].il_read()})\""),
    ("C02", "drop-promotion-additive", "R02.3", T, "        op_type = ArithmeticType(items[1])\n        name = f\"op_{op_type.name}\"\n        a = self.promotion_cast(a)\n        b = self.promotion_cast(b)\n        a, b = self.cast_operands(a=a, b=b, immutable_a=False)\n        return self.add_op(ArithmeticOp(name, a, b, op_type))", "        op_type = ArithmeticType(items[1])\n        name = f\"op_{op_type.name}\"\n        a, b = self.cast_operands(a=a, b=b, immutable_a=False)\n        return self.add_op(ArithmeticOp(name, a, b, op_type))"),
    ("C02", "and_expr-passes-or", "R02.3", T, "        return self.bit_operations(items, BitOperationType.AND)", "        return self.bit_operations(items, BitOperationType.OR)"),
    ("C02", "enum-lshift-rshift-swapped", None, D + "Pures/BitOp.py", "    RSHIFT = \">>\"\n    LSHIFT = \"<<\"", "    RSHIFT = \"<<\"\n    LSHIFT = \">>\""),
    ("C02", "ne-without-inv", "R02.1", D + "Pures/CompareOp.py", "            code = f\"INV(EQ({self.ops[0].il_read()}, {self.ops[1].il_read()}))\"", "            code = f\"EQ({self.ops[0].il_read()}, {self.ops[1].il_read()})\""),
    ("C02", "booleanop-no-nonzero", "R02.1", D + "Pures/BooleanOp.py", "            else f\"NON_ZERO({self.ops[1].il_read()})\"", "            else self.ops[1].il_read()"),
    ("C02", "ternary-arms-swapped", "R02.1", D + "Pures/Ternary.py", "        return f\"ITE({cond}, {self.ops[1].il_read()}, {self.ops[2].il_read()})\"", "        return f\"ITE({cond}, {self.ops[2].il_read()}, {self.ops[1].il_read()})\""),
    ("C02", "shift-common-type", "R02.3", T, "        elif a and b:\n            # Shifts: the result has the promoted type of the left operand (C11 6.5.7).\n            a = self.promotion_cast(a)", "        elif a and b:\n            a, b = self.cast_operands(a=a, b=b, immutable_a=False)"),
    # ---- C03
    ("C03", "fill-by-target-only", "R03.1", D + "Pures/Cast.py", "        if self.value_type.signed and self.ops[0].value_type.signed:", "        if self.value_type.signed:"),
    ("C03", "cast-width-from-source", "R03.1", D + "Pures/Cast.py", "        return f\"CAST({self.value_type.bit_width}, {fill_bit}, {self.ops[0].il_read()})\"", "        return f\"CAST({self.ops[0].value_type.bit_width}, {fill_bit}, {self.ops[0].il_read()})\""),
    ("C03", "bool-cast-constants-swapped", "R03.2", T, "            true = Number(\"true\", 1, target_type)\n            true.inlined = True\n            false = Number(\"false\", 0, target_type)", "            true = Number(\"true\", 0, target_type)\n            true.inlined = True\n            false = Number(\"false\", 1, target_type)"),
    ("C03", "mem_store-no-conversion", "R03.3", T, "        if operation_value_type != data.value_type:\n            # STOREW determines from the data type how many bytes are written.\n            # Cast the data type to the mem store type\n            data = self.init_a_cast(operation_value_type, data)", "        pass"),
    ("C03", "jump-target-16", "R03.3", T, "            ta = self.init_a_cast(ValueType(False, 32), ta)", "            ta = self.init_a_cast(ValueType(False, 16), ta)"),
    ("C03", "signed-unsigned-reader-swapped", "R03.4", D + "Hybrids/SubRoutine.py", "        tmp = \"SIGNED(\" if self.value_type.signed else \"UNSIGNED(\"", "        tmp = \"UNSIGNED(\" if self.value_type.signed else \"SIGNED(\""),
    ("C03", "return-widen-32", "R03.3", T, "            if src.value_type.bit_width != 64:\n                src = self.init_a_cast(ValueType(False, 64), src)", "            if src.value_type.bit_width != 64:\n                src = self.init_a_cast(ValueType(False, 32), src)"),
    ("C03", "init_declarator-mutable", "R03.3", T, "        dest, src = self.cast_operands(a=dest, b=src, immutable_a=True)\n        return self.chk_hybrid_dep(self.add_op(Assignment(name, op_type, dest, src)))", "        dest, src = self.cast_operands(a=dest, b=src, immutable_a=False)\n        return self.chk_hybrid_dep(self.add_op(Assignment(name, op_type, dest, src)))"),
    ("C03", "cast_operands-immutable-ignored", "R03.5", T, "        if immutable_a:\n            return a, self.init_a_cast(a.value_type, b)", "        if immutable_a and False:\n            return a, self.init_a_cast(a.value_type, b)"),
    # ---- C05
    ("C05", "branch-arms-swapped-template", "R05.1", D + "Effects/Branch.py", "f\"BRANCH({cond}, {self.then.effect_var()}, {self.otherwise.effect_var()})\"", "f\"BRANCH({cond}, {self.otherwise.effect_var()}, {self.then.effect_var()})\""),
    ("C05", "selection-arms-swapped-callback", "R05.1", T, "                self.add_op(Branch(name, cond, then_seq, else_seq))", "                self.add_op(Branch(name, cond, else_seq, then_seq))"),
    ("C05", "for-step-before-body", "R05.1", T, "self.take_pending_effects(flatten_list(items[4]))\n                    + flatten_list([items[3]]),", "flatten_list([items[3]])\n                    + self.take_pending_effects(flatten_list(items[4])),"),
    ("C05", "for-init-inside", "R05.1", T, "self.add_op(Sequence(f\"seq\", flatten_list([items[1]]) + [loop]))", "self.add_op(Sequence(f\"seq\", [loop] + flatten_list([items[1]])))"),
    ("C05", "seqn-count-plus-one", "R05.2", D + "Effects/Sequence.py", "f'SEQN({len(self.effects)}, ", "f'SEQN({len(self.effects) + 1}, "),
    ("C05", "seqn-reversed", "R05.2", D + "Effects/Sequence.py", "\", \".join([e.effect_var() for e in self.effects])", "\", \".join([e.effect_var() for e in reversed(self.effects)])"),
    ("C05", "sub-assign-add", "R05.4", T, "                    f\"op_SUB\",\n                    self.promotion_cast(assign.dest),\n                    self.promotion_cast(assign.src),\n                    ArithmeticType.SUB,", "                    f\"op_SUB\",\n                    self.promotion_cast(assign.dest),\n                    self.promotion_cast(assign.src),\n                    ArithmeticType.ADD,"),
    ("C05", "top-level-reversed", "R05.3", T, "for op in self.imm_set_effect_list + left_hybrids + flatten_list(items)", "for op in self.imm_set_effect_list + left_hybrids + list(reversed(flatten_list(items)))"),
    ("C05", "setl-src-dest-swapped", "R05.5", D + "Effects/Assignment.py", "            return f\"SETL({self.dest.vm_id()}, {read})\"", "            return f\"SETL({read}, {self.dest.vm_id()})\""),
    ("C05", "chained-outer-first", "R05.6", T, "self.add_op(Sequence(\"seq\", [items[2], assignment]))", "self.add_op(Sequence(\"seq\", [assignment, items[2]]))"),
    ("C15", "for-step-list-not-flattened", "R15.1", T, "                    + flatten_list([items[3]]),", "                    + [items[3]],"),
    ("C15", "for-init-list-not-flattened", "R15.1", T, "flatten_list([items[1]]) + [loop]", "[items[1], loop]"),
    ("C09", "fold-result-not-wrapped", "R09.2", T, "        result = wrap_to_type(result, a_type)\n        self.il_ops_holder.rm_op_by_name(a.get_name())\n        self.il_ops_holder.rm_op_by_name(b.get_name())", "        self.il_ops_holder.rm_op_by_name(a.get_name())\n        self.il_ops_holder.rm_op_by_name(b.get_name())"),
    ("C09", "compare-raw-values", "R09.2", T, "        val_a = wrap_to_type(a.get_val(), common_type)\n        val_b = wrap_to_type(b.get_val(), common_type)", "        val_a = a.get_val()\n        val_b = b.get_val()"),
    ("C09", "fold-floor-division-inexact", "R09.2", T, "                if val_b == 0 or val_a % val_b != 0:", "                if val_b == 0:"),
    # ---- C06
    ("C06", "postfix-exec-then-set", "R06.1", D + "Hybrids/PostfixIncDec.py", "        self.seq_order = HybridSeqOrder.SET_VAL_THEN_EXEC", "        self.seq_order = HybridSeqOrder.EXEC_THEN_SET_VAL"),
    ("C06", "resolve-orders-swapped", "R06.1", T, "            h_seq = [set_tmp, hybrid]\n        elif hybrid.seq_order == HybridSeqOrder.EXEC_THEN_SET_VAL:\n            h_seq = [hybrid, set_tmp]", "            h_seq = [hybrid, set_tmp]\n        elif hybrid.seq_order == HybridSeqOrder.EXEC_THEN_SET_VAL:\n            h_seq = [set_tmp, hybrid]"),
    ("C06", "default-order-seq-then-hyb", "R06.2", T, "self, effect: Effect, order: HybridSeqOrder = HybridSeqOrder.HYB_THEN_SEQ", "self, effect: Effect, order: HybridSeqOrder = HybridSeqOrder.SEQ_THEN_HYB"),
    ("C06", "then-arm-guarded-as-else", "R06.5", T, "                Branch(\"branch\", cond=items[0], then=hybrid.stmt, otherwise=Empty(\"\"))", "                Branch(\"branch\", cond=items[0], then=Empty(\"\"), otherwise=hybrid.stmt)"),
    ("C06", "mem_store-no-flush", "R06.2", T, "        return self.chk_hybrid_dep(\n            self.add_op(MemStore(f\"ms_{data.get_name()}\", va, data))\n        )", "        return self.add_op(MemStore(f\"ms_{data.get_name()}\", va, data))"),
    ("C06", "counter-not-incremented", "R06.6", T, "        self.il_ops_holder.hybrid_op_count += 1\n", ""),
    ("C06", "inc-becomes-dec", "R06.1", D + "Hybrids/PostfixIncDec.py", "        elif self.op_type == HybridType.INC:\n            return f\"INC(", "        elif self.op_type == HybridType.INC:\n            return f\"DEC("),
    # ---- C07
    ("C07", "pred-width-32", "R07.1", VT, "    elif reg_type == \"P\":\n        size = 8", "    elif reg_type == \"P\":\n        size = 32"),
    ("C07", "no-pair-doubling", "R07.1", VT, "    if \"PAIR\" in reg_access:\n        size *= 2", "    if \"PAIR\" in reg_access:\n        size *= 1"),
    ("C07", "ctr-mod-class-swapped", "R07.3", D + "Pures/Register.py", "            case \"M\":\n                reg_class += \"MOD_REGS\"\n            case \"C\":\n                reg_class += \"CTR_REGS\"", "            case \"M\":\n                reg_class += \"CTR_REGS\"\n            case \"C\":\n                reg_class += \"MOD_REGS\""),
    ("C07", "new_reg-passes-false", "R07.2", T, "        return self.add_op(self.ext.hex_reg(items, True))", "        return self.add_op(self.ext.hex_reg(items, False))"),
    ("C07", "imm-sign-regex", "R07.5", VT, "    if re.search(r\"[rRsS]\", imm_char):", "    if re.search(r\"[rR]\", imm_char):"),
    ("C07", "load-sign-test", None, T, "        vt = ValueType(items[1] == \"s\", items[2])\n        mem_acc_type", "        vt = ValueType(items[1] == \"u\", items[2])\n        mem_acc_type"),
    ("C07", "storew-args-swapped", "R07.6", D + "Effects/MemStore.py", "        return f\"STOREW({self.va.il_read()}, {self.data_var.il_read()})\"", "        return f\"STOREW({self.data_var.il_read()}, {self.va.il_read()})\""),
    ("C07", "jump-flag-false", "R07.6", D + "Effects/Jump.py", "SETL(\"jump_flag\", IL_TRUE)", "SETL(\"jump_flag\", IL_FALSE)"),
    ("C07", "all-aliases-64", "R07.7", HX, "        else:\n            size = 32\n        v_type = ValueType(False, size)", "        else:\n            size = 64\n        v_type = ValueType(False, size)"),
    ("C07", "reg-num-max", "R07.3", D + "Pures/Register.py", "            num = min(num, int(n)) if num else int(n)", "            num = max(num, int(n)) if num else int(n)"),
    ("C07", "read_reg-new-flag-const", "R07.4", D + "Pures/Register.py", "        return f\"READ_REG(pkt, {self.get_op_var()}, {str(self.is_new).lower()})\"", "        return f\"READ_REG(pkt, {self.get_op_var()}, false)\""),
    # ---- C08
    ("C08", "pure-arg-by-op-var", "R08.2", D + "Hybrids/SubRoutine.py", "            # Normal pure.\n            code += arg.il_read()", "            # Normal pure.\n            code += arg.get_name()"),
    ("C08", "reader-other-name", "R08.3", D + "Hybrids/SubRoutine.py", "        return f'{tmp}, VARL(\"ret_val\"))'\n\n\nclass SubRoutineCall", "        return f'{tmp}, VARL(\"retval\"))'\n\n\nclass SubRoutineCall"),
    ("C08", "call-prefix-differs", "R08.4", D + "Hybrids/SubRoutine.py", "        code = f\"{hexagon_c_call_prefix.lower() + self.sub_routine.get_name()}(\"", "        code = f\"{hexagon_c_call_prefix + self.sub_routine.get_name()}(\""),
    ("C08", "prologue-misses-pkt", "R08.6", D + "Hybrids/SubRoutine.py", "        if re.search(r\"\\Wpkt\\W\", code):", "        if re.search(r\"\\Wpkt->\", code):"),
    ("C08", "params-reversed", "R08.7", CP, "        return SubRoutine(name, ret_type, params, body)", "        return SubRoutine(name, ret_type, list(reversed(params)), body)"),
    ("C08", "uint-as-signed", "R08.7", VT, "    is_signed = False if type_match[\"sign\"] == \"u\" else True", "    is_signed = True"),
    # ---- C09
    ("C09", "u-suffix-64", "R09.1", VT, "    c_64bit_postfix = [\"LL\", \"ULL\"]", "    c_64bit_postfix = [\"LL\", \"ULL\", \"U\"]"),
    ("C09", "fold-minus-as-plus", "R09.2", T, "            case \"-\":\n                result = val_a - val_b", "            case \"-\":\n                result = val_a + val_b"),
    ("C09", "fold-lt-as-le", "R09.2", T, "            case \"<\":\n                res = val_a < val_b", "            case \"<\":\n                res = val_a <= val_b"),
    ("C09", "conditional-arms-swapped", "R09.2", T, "        if cond.get_val():\n            self.il_ops_holder.rm_op_by_name(items[2].get_name())\n            return items[1]\n        self.il_ops_holder.rm_op_by_name(items[1].get_name())\n        return items[2]", "        if cond.get_val():\n            self.il_ops_holder.rm_op_by_name(items[2].get_name())\n            return items[2]\n        self.il_ops_holder.rm_op_by_name(items[1].get_name())\n        return items[1]"),
    ("C09", "sizeof-floor", "R09.4", D + "Pures/Sizeof.py", "        self.size = ceil(op.value_type.bit_width / 8)", "        self.size = op.value_type.bit_width // 8"),
    ("C09", "decimal-base-16", "R09.5", D + "helper_hexagon.py", "    elif token.type == \"DEC_NUMBER\":\n        return 10", "    elif token.type == \"DEC_NUMBER\":\n        return 16"),
    ("C09", "render-sign-swapped", "R09.5", D + "Pures/LetVar.py", "f\"{'SN' if self.value_type.signed else 'UN'}(", "f\"{'UN' if self.value_type.signed else 'SN'}("),
    # ---- C10
    ("C10", "branch-no-nonzero", "R10.5", D + "Effects/Branch.py", "            cond = f\"NON_ZERO({self.cond.il_read()})\"", "            cond = self.cond.il_read()"),
    ("C10", "compare-without-bool-flag", "R10.1", D + "Pures/CompareOp.py", "self, name, [a, b], ValueType(False, 1, VTGroup.PURE | VTGroup.BOOL)", "self, name, [a, b], ValueType(False, 1, VTGroup.PURE)"),
    ("C10", "no-bool-branch-in-init_a_cast", "R10.4", T, "        if (\n            pure.value_type.group & VTGroup.BOOL\n            and not target_type.group & VTGroup.BOOL\n        ):", "        if False:"),
    ("C10", "number-not-inlined", "R10.6", T, "        self.inlined_pure_classes = (Number, Sizeof, Cast, Bool)", "        self.inlined_pure_classes = (Sizeof, Cast, Bool)"),
    ("C10", "booleanop-typed-as-operand", "R10.1", D + "Pures/BooleanOp.py", "        v_type = ValueType(False, 1, VTGroup.PURE | VTGroup.BOOL)", "        v_type = a.value_type"),
    # ---- C11
    ("C11", "no-id-suffix", "R11.2", T, "            op.set_name(f\"{op.get_name()}_{num_id}\")", "            op.set_name(f\"{op.get_name()}\")"),
    ("C11", "counter-not-incremented", "R11.2", D + "ILOpsHolder.py", "        cnt = self.op_count\n        self.op_count += 1\n        return cnt", "        cnt = self.op_count\n        return cnt"),
    ("C11", "stmt-blocks-before-read", "R11.3", T, "        if self.code_format in [CodeFormat.EXEC_CLASSES, CodeFormat.READ_STATEMENTS]:\n            res = self.emit_read_block(holder, res)\n", "        if self.code_format == CodeFormat.READ_STATEMENTS:\n            res = self.emit_stmt_blocks(holder, res)\n        if self.code_format in [CodeFormat.EXEC_CLASSES, CodeFormat.READ_STATEMENTS]:\n            res = self.emit_read_block(holder, res)\n"),
    ("C11", "unsorted-dependencies", "R11.3", T, "            statements.append(sorted(effect.get_exec_op_list(), key=lambda x: x.num_id))", "            statements.append(list(effect.get_exec_op_list()))"),
    ("C11", "getter-without-part", "R11.4", CP, "            name = f\"hex_il_op_{insn_name.lower()}_part{part}\"", "            name = f\"hex_il_op_{insn_name.lower()}\""),
    ("C11", "effect-init-missing-semicolon", "R11.1", D + "Effects/Effect.py", "        return f\"RzILOpEffect *{self.effect_var()} = {self.il_write()};\"", "        return f\"RzILOpEffect *{self.effect_var()} = {self.il_write()}\""),
    ("C11", "unbalanced-loadw", "R11.1", D + "Pures/MemLoad.py", "        return f\"LOADW({self.acc_type.val_type.bit_width}, {self.va.il_read()})\"", "        return f\"LOADW({self.acc_type.val_type.bit_width}, {self.va.il_read()}\""),
    # ---- C12
    ("C12", "globalvar-reads-lt-2", "R12.1", D + "Pures/GlobalVar.py", "        if self.reads < 1:  # First use of this variable", "        if self.reads < 2:  # First use of this variable"),
    ("C12", "pureexec-reads-ge-1", "R12.1", D + "Pures/PureExec.py", "        if self.reads > 1:\n            return f\"DUP({self.pure_var()})\"", "        if self.reads >= 1:\n            return f\"DUP({self.pure_var()})\""),
    ("C12", "parameter-no-increment", "R12.1", D + "Pures/Parameter.py", "        self.reads += 1\n        if self.reads <= 1 or not self.value_type.group & VTGroup.PURE:", "        if self.reads <= 1 or not self.value_type.group & VTGroup.PURE:"),
    ("C12", "no-init-counter", "R12.2", D + "Pures/PureExec.py", "        self.init_counter += 1\n", ""),
    ("C12", "il_read-in-str", "R12.4", D + "Pures/Cast.py", "        return f\"(({self.value_type}) {self.ops[0]})\"", "        return f\"(({self.value_type}) {self.ops[0].il_read()})\""),
    ("C12", "read-block-drops-init", "R12.3", T, "            read_op = op.il_init_var()\n            if not read_op:\n                continue\n            res += read_op + \"\\n\"", "            read_op = op.il_init_var()\n            if not read_op:\n                continue\n            res += \"\\n\""),
    # ---- C13
    ("C13", "reset-forgets-writes_mem", "R13.1", HX, "        self.is_conditional = False\n        self.reads_mem = False\n        self.writes_mem = False\n", "        self.is_conditional = False\n        self.reads_mem = False\n"),
    ("C13", "mem_load-passes-mem_store", "R13.3", T, "        self.ext.set_token_meta_data(\"mem_load\")", "        self.ext.set_token_meta_data(\"mem_store\")"),
    ("C13", "meta-strings-swapped", "R13.4", HX, "            flags.append(\"HEX_IL_INSN_ATTR_MEM_WRITE\")\n        if self.reads_mem:\n            flags.append(\"HEX_IL_INSN_ATTR_MEM_READ\")", "            flags.append(\"HEX_IL_INSN_ATTR_MEM_READ\")\n        if self.reads_mem:\n            flags.append(\"HEX_IL_INSN_ATTR_MEM_WRITE\")"),
    ("C13", "pred-range-3", "R13.2", HX, "        if num in range(4) and num not in self.preds_written:", "        if num in range(3) and num not in self.preds_written:"),
    ("C13", "preds-class-level-again", "R13.1", HX, "        self.missing_fcns = dict()\n        self.preds_written = list()\n", "        self.missing_fcns = dict()\n"),
    ("C13", "reset-hoisted-out-of-loop", "R13.5", CP, "            for pt, text in zip(parsed_insns.asts, parsed_insns.behaviors):\n                self.transformer.reset()\n", "            self.transformer.reset()\n            for pt, text in zip(parsed_insns.asts, parsed_insns.behaviors):\n"),
    ("C13", "noped-reports-meta", "R13.4", CP, "                    meta.append(self.transformer.ext.get_noped_meta())", "                    meta.append(self.transformer.ext.get_meta())"),
    # ---- C14
    ("C14", "undo-compile_c_stmt-fix", "R14.2", CP, "        try:\n            return self.transformer.transform(ast)\n        finally:\n            self.transformer.reset()", "        result = self.transformer.transform(ast)\n        self.transformer.reset()\n        return result"),
    ("C14", "remove-finally", "R14.2", CP, "        except Exception as e:\n            raise e\n        finally:\n            self.transformer.reset()", "        except Exception as e:\n            raise e"),
    ("C14", "reset-forgets-imm-list", "R14.1", T, "        self.imm_set_effect_list.clear()\n        self.il_ops_holder.clear()", "        self.il_ops_holder.clear()"),
    ("C14", "new-class-level-list", "R14.3", T, "class RZILTransformer(Transformer):\n    \"\"\"", "class RZILTransformer(Transformer):\n    seen_identifiers = list()\n    \"\"\""),
    ("C14", "unary-minus-in-place-again", "R14.4", T, "            case \"-\":\n                result = -val_a\n                a_type = promoted_type(a.value_type)\n", "            case \"-\":\n                result = -val_a\n                a_type = promoted_type(a.value_type)\n                a_type.signed = True\n"),
    ("C14", "clear-forgets-write_ops", "R14.1", D + "ILOpsHolder.py", "        self.exec_ops.clear()\n        self.write_ops.clear()\n", "        self.exec_ops.clear()\n"),
    # ---- C15
    ("C15", "while-returns-none", "R15.2", T, "        else:\n            raise NotImplementedError(f\"{items[0]} loop not supported.\")", "        else:\n            return None"),
    ("C15", "switch-becomes-empty", "R15.2", T, "        else:\n            raise NotImplementedError(f'\"{items[0]}\" branch not implemented.')", "        else:\n            return Empty(\"switch\")"),
    ("C15", "unknown-call-becomes-nop", "R15.3", HX, "            raise NotImplementedError(f\"No value type for function {fcn_name} defined.\")", "            return ValueType(False, 32, VTGroup.VOID)"),
    ("C15", "break-passed-upwards-again", "R15.2", T, "        if items[0] in [\"goto\", \"continue\", \"break\", \"return\"]:", "        if items[0] in [\"goto\", \"return\"]:"),
    ("C15", "labels-dropped-again", None, T, "    def labeled_stmt(self, items):\n        raise NotImplementedError(", "    def labeled_stmt_unused(self, items):\n        raise NotImplementedError("),
    ("C15", "prefix-inc-as-postfix", "R15.2", T, "        else:\n            raise NotImplementedError(f\"Unary expression {items[0]} not handler.\")", "        else:\n            return items[1]"),
    # ---- C16
    ("C16", "write-block-skips-hybrids", "R16.2", T, "            if isinstance(op, Hybrid):\n                hybrid_init = op.il_init_var()\n                if not hybrid_init:\n                    continue\n                res += hybrid_init + \"\\n\"\n                continue", "            if isinstance(op, Hybrid):\n                continue"),
    ("C16", "exec-block-prints-hybrids", "R16.2", T, "        for op in holder.exec_ops.values():\n            if isinstance(op, Hybrid):\n                continue\n", "        for op in holder.exec_ops.values():\n"),
    ("C16", "il_write-reads-layout", "R16.1", D + "Effects/Sequence.py", "        if len(self.effects) == 1:\n            return self.effects[0].effect_var()", "        if len(self.effects) == 1 and getattr(self, \"code_format\", None) is None:\n            return self.effects[0].effect_var()"),
    # ---- C17
    ("C17", "swap-shift-additive-levels", "R17.1", GR, "?additive_expr: multiplicative_expr\n\t| additive_expr ADD_OP multiplicative_expr\n\t| additive_expr SUB_OP multiplicative_expr\n\n?shift_expr: additive_expr\n\t| shift_expr LEFT_OP additive_expr\n\t| shift_expr RIGHT_OP additive_expr\n\n?relational_expr: shift_expr\n\t| relational_expr LT_OP shift_expr\n\t| relational_expr GT_OP shift_expr\n\t| relational_expr LE_OP shift_expr\n\t| relational_expr GE_OP shift_expr",
     "?shift_expr: multiplicative_expr\n\t| shift_expr LEFT_OP multiplicative_expr\n\t| shift_expr RIGHT_OP multiplicative_expr\n\n?additive_expr: shift_expr\n\t| additive_expr ADD_OP shift_expr\n\t| additive_expr SUB_OP shift_expr\n\n?relational_expr: additive_expr\n\t| relational_expr LT_OP additive_expr\n\t| relational_expr GT_OP additive_expr\n\t| relational_expr LE_OP additive_expr\n\t| relational_expr GE_OP additive_expr"),
    ("C17", "right-recursive-additive", "R17.1", GR, "\t| additive_expr SUB_OP multiplicative_expr", "\t| multiplicative_expr SUB_OP additive_expr"),
    ("C17", "identifier-first-in-op", "R17.3", GR, "?op: _reg_variant\n    | imm \"iV\"\n    | number\n    | identifier", "?op: identifier\n    | _reg_variant\n    | imm \"iV\"\n    | number"),
    ("C17", "identifier-priority-20", "R17.3", GR, "IDENTIFIER.0: /[A-Za-z_]+\\w*/", "IDENTIFIER.20: /[A-Za-z_]+\\w*/"),
    ("C17", "unit-alternative-last", "R17.3", GR, "?additive_expr: multiplicative_expr\n\t| additive_expr ADD_OP multiplicative_expr\n\t| additive_expr SUB_OP multiplicative_expr", "?additive_expr: additive_expr ADD_OP multiplicative_expr\n\t| additive_expr SUB_OP multiplicative_expr\n\t| multiplicative_expr"),
    ("C17", "ptr-pattern-weakened", "R17.2", GR, "PTR: /[^&]&[^&]/", "PTR: /&/"),
    # ---- C18
    ("C18", "catch-only-lark-errors", "R18.3", PR, "    except Exception as e:\n        pinsn = ParsedInsn(name, [], behaviors, ParserException(e))", "    except ValueError as e:\n        pinsn = ParsedInsn(name, [], behaviors, ParserException(e))"),
    ("C18", "keep-partial-trees", "R18.3", PR, "        pinsn = ParsedInsn(name, [], behaviors, ParserException(e))", "        pinsn = ParsedInsn(name, asts, behaviors, ParserException(e))"),
    ("C18", "global-parser-cache", "R18.1", PR, "def parse_single(bundle: InsnParsingBundle) -> dict[str:ParsedInsn]:\n    name = bundle.name", "_PARSERS = dict()\n\n\ndef parse_single(bundle: InsnParsingBundle) -> dict[str:ParsedInsn]:\n    _PARSERS.setdefault(\"n\", 0)\n    name = bundle.name"),
    ("C18", "consume-after-with", "R18.2", PR, "        with Pool() as pool:\n            for res in tqdm(\n                pool.imap(parse_single, args), total=len(args), desc=\"Parse shortcode\"\n            ):\n                result.update(res)\n        return result", "        with Pool() as pool:\n            it = pool.imap(parse_single, args)\n        for res in tqdm(it, total=len(args), desc=\"Parse shortcode\"):\n            result.update(res)\n        return result"),
    # ---- C19
    ("C19", "name-star", "R19.1", PP, "insn\\((\\w+), (.+)\\)$", "insn\\((\\w*), (.+)\\)$"),
    ("C19", "drop-end-anchor", "R19.1", PP, "match = re.match(rf\"insn\\((\\w+), (.+)\\)$\", line, re.ASCII)", "match = re.match(rf\"insn\\((\\w+), (.+)\\)\", line, re.ASCII)"),
    ("C19", "loader-skips-bad-lines", "R19.3", PP, "                insn_name, insn_beh = self.split_resolved_shortcode(line)\n", "                try:\n                    insn_name, insn_beh = self.split_resolved_shortcode(line)\n                except ValueError:\n                    continue\n"),
    ("C19", "uncaptured-prefix-again", "R19.2", PP, "            r\"\\{(.*)__COMPOUND_PART1__(\\{.+})__COMPOUND_PART1__(.*)}$\", insn_beh\n        )\n        beh_p1 = match.group(2)\n        if match.group(1).strip():\n            # Statements before the first marker belong to the first part.\n            beh_p1 = \"{\" + match.group(1) + beh_p1 + \"}\"\n        beh_p2 = \"{\" + match.group(3) + \"}\"", "            r\"\\{.*__COMPOUND_PART1__(\\{.+})__COMPOUND_PART1__(.*)}$\", insn_beh\n        )\n        beh_p1 = match.group(1)\n        beh_p2 = \"{\" + match.group(2) + \"}\""),
    ("C19", "search-instead-of-match", "R19.1", PP, "match = re.match(rf\"insn\\((\\w+), (.+)\\)$\", line, re.ASCII)", "match = re.search(rf\"insn\\((\\w+), (.+)\\)$\", line, re.ASCII)"),
    # ---- C20
    ("C20", "swap-tmp-resolved", "R20.1", PP, "            str(Conf.get_path(InputFile.HEXAGON_PP_SHORTCODE_RESOLVED_TMP_H)),\n            \"-o\",\n            str(Conf.get_path(InputFile.HEXAGON_PP_SHORTCODE_RESOLVED_H)),", "            str(Conf.get_path(InputFile.HEXAGON_PP_SHORTCODE_RESOLVED_H)),\n            \"-o\",\n            str(Conf.get_path(InputFile.HEXAGON_PP_SHORTCODE_RESOLVED_TMP_H)),"),
    ("C20", "different-name-regex-for-patches", "R20.2", PP, "            match = re.search(r\"^#define\\s+([\\w_]*).*\", line)", "            match = re.search(r\"^#define\\s+([\\w_]*)\\(.*\", line)"),
    ("C20", "rebuild-without-group3", "R20.3", PP, "            tmp = m.group(1) + m.group(2) + m.group(3)", "            tmp = m.group(1) + m.group(2)"),
    ("C20", "steps-reordered", "R20.1", PP, "        self.preprocess_macros()\n        self.preprocess_shortcode()", "        self.preprocess_shortcode()\n        self.preprocess_macros()"),
]
