"""C10 - emitted effects are well-sorted under RzIL typing (typing lemma by cases over the node classes)."""
from __future__ import annotations

import ast

from oracles import tables as O
from sa.absint import AObj, EnumV, FlagV, Interp, Opaque, Sym, Tok, to_text
from sa.cbmodel import Runner
from sa.pyindex import get_index
from sa.report import PROP_ASSUMPTIONS, PROP_EXPLANATION, rule
from sa.symex import U, call_name, call_tail, paths_of
from sa.template import normalise, parse_term

from .c02 import ctor, lab, members_by_value, run_il_exec
from .c05 import origin
from .common import fn_where, interval_compare, mk_pure, mk_vt, outcome_text

PROP_EXPLANATION["C10"] = (
    "A typing lemma by cases over the IR node classes: assuming every operand has the sort its declared type says (bool iff "
    "the BOOL flag, else a bitvector of the type's width), the emission template of each class is sort-checked against the RzIL "
    "builder signatures and its result sort must be the one the node declares. The premises the lemma needs at construction "
    "sites (equal operand widths for equal-width opcodes, no BOOL flag on converted types, one boolness predicate) are checked "
    "where the nodes are built. This covers every path, not only the one taken."
)
PROP_ASSUMPTIONS["C10"] = ["RzIL builder sorts as in rz_il_opbuilder_begin.h / rz_il_validate.c (oracles/tables.py SORTS)"]


class SortError(Exception):
    pass


def sort_of(term, holes):
    """term: parsed (head, args|None). holes: '<x.il_read()>' -> sort. Sorts: 'bool' | ('bv', width-name) | 'int'"""
    head, args = term
    if args is None:
        h = head.strip()
        if h in holes:
            return holes[h]
        if h in ("IL_TRUE", "IL_FALSE"):
            return "bool"
        if h.startswith("<") and h.endswith(">"):
            return ("int", h)  # a width hole such as <W>
        if h.isdigit():
            return ("int", h)
        raise SortError(f"unknown atom {h}")
    sig = O.SORTS.get(head)
    if sig is None:
        raise SortError(f"unknown builder {head}")
    res, argsorts, constraint = sig
    if len(args) != len(argsorts):
        raise SortError(f"{head}: arity {len(args)} != {len(argsorts)}")
    got = [sort_of(a, holes) for a in args]
    for g, want in zip(got, argsorts):
        if want == "bool" and g != "bool":
            raise SortError(f"{head}: expected bool argument, got {g}")
        if want == "bv" and not (isinstance(g, tuple) and g[0] == "bv"):
            raise SortError(f"{head}: expected bitvector argument, got {g}")
        if want == "int" and not (isinstance(g, tuple) and g[0] == "int"):
            raise SortError(f"{head}: expected a width, got {g}")
    if constraint == "eqw" and got[0] != got[1]:
        raise SortError(f"{head}: operand widths differ: {got[0]} vs {got[1]}")
    if constraint == "eqarms" and got[1] != got[2]:
        raise SortError(f"{head}: arms differ: {got[1]} vs {got[2]}")
    if res == "same":
        return got[1]
    if res == "bool":
        return "bool"
    if head == "CAST":
        return ("bv", got[0][1].strip("<>"))
    return got[0]


def declared_sort(vt):
    g = vt.fields.get("group")
    if isinstance(g, FlagV) and "BOOL" in g.members:
        return "bool"
    return ("bv", to_text(vt.fields.get("_bit_width")).strip("<>"))


def opnd(label, signed, width, is_bool=False):
    t = mk_vt("t" + label, signed if not is_bool else False, 1 if is_bool else Sym(width), ("PURE", "BOOL") if is_bool else ("PURE",))
    return mk_pure(label, t, fields={"inlined": False, "ops": [], "lets": []})


@rule("R10.1", "C10", "per-class typing lemma: each operator node's emitted term is well-sorted and has the sort its declared type announces", min_instances=40)
def r10_1(ctx):
    from .c09 import literal_rendering

    literal_rendering(ctx)  # SN / UN carry the width of the literal's type
    idx = get_index(ctx.env)
    n = 0

    def check(key, cls, ctor_args, holes_of, where_cls=None):
        nonlocal n
        def once(interp):
            args, hs = ctor_args()
            obj = interp.construct(cls, args, {})
            box["holes"] = hs
            box["obj"] = obj
            fi = idx.func(f"{cls}.il_exec")
            return interp.call_function(fi, [], self_obj=obj)
        box = {}
        outs = Interp(idx, sym_compare=interval_compare(), may_subclass=True).explore(once)
        fi = idx.func(f"{cls}.il_exec")
        for o in outs:
            if o.kind == "raise":
                ctx.check(key, False, "well-sorted term", f"RAISE {o.value}", fn_where(idx, fi))
                continue
            text = normalise(outcome_text(o))
            try:
                s = sort_of(parse_term(text), box["holes"])
                decl = declared_sort(box["obj"].fields["value_type"])
                ok = s == decl
                obs = f"{text} : {s}; node declares {decl}"
            except SortError as e:
                ok, obs = False, f"{text} : ill-sorted ({e})"
            ctx.check(key, ok, "well-sorted, result sort = declared sort", obs, fn_where(idx, fi))
            n += 1

    am = members_by_value(idx, "ArithmeticType")
    for op in am:
        def mk(op=op):
            a, b = opnd("a", True, "W"), opnd("b", True, "W")
            return ["n", a, b, am[op]], {"<a.il_read()>": ("bv", "W"), "<b.il_read()>": ("bv", "W")}
        check(f"ArithmeticOp[{op}] (operands of one type, by R10.3)", "ArithmeticOp", mk, None)
    bm = members_by_value(idx, "BitOperationType")
    for op in ("&", "|", "^"):
        def mk(op=op):
            a, b = opnd("a", False, "W"), opnd("b", False, "W")
            return ["n", a, b, bm[op]], {"<a.il_read()>": ("bv", "W"), "<b.il_read()>": ("bv", "W")}
        check(f"BitOp[{op}]", "BitOp", mk, None)
    for op in ("<<", ">>"):
        for sa in (True, False):
            def mk(op=op, sa=sa):
                a, b = opnd("a", sa, "Wa"), opnd("b", False, "Wb")
                return ["n", a, b, bm[op]], {"<a.il_read()>": ("bv", "Wa"), "<b.il_read()>": ("bv", "Wb")}
            check(f"BitOp[{op}, left {'s' if sa else 'u'}] (shift amount of any width)", "BitOp", mk, None)
    for op in ("~", "-"):
        def mk(op=op):
            a = opnd("a", True, "W")
            return ["n", a, None, bm[op]], {"<a.il_read()>": ("bv", "W")}
        check(f"BitOp[unary {op}]", "BitOp", mk, None)
    cm = members_by_value(idx, "CompareOpType")
    for op in cm:
        for s_ in (True, False):
            def mk(op=op, s_=s_):
                a, b = opnd("a", s_, "W"), opnd("b", s_, "W")
                return ["n", a, b, cm[op]], {"<a.il_read()>": ("bv", "W"), "<b.il_read()>": ("bv", "W")}
            check(f"CompareOp[{op},{'s' if s_ else 'u'}]", "CompareOp", mk, None)
    om = members_by_value(idx, "BooleanOpType")
    for op in ("&&", "||"):
        for ba in (True, False):
            for bb in (True, False):
                def mk(op=op, ba=ba, bb=bb):
                    a, b = opnd("a", True, "Wa", ba), opnd("b", False, "Wb", bb)
                    return ["n", a, b, om[op]], {"<a.il_read()>": "bool" if ba else ("bv", "Wa"), "<b.il_read()>": "bool" if bb else ("bv", "Wb")}
                check(f"BooleanOp[{op}, a {'bool' if ba else 'bv'}, b {'bool' if bb else 'bv'}]", "BooleanOp", mk, None)
    for ba in (True, False):
        def mk(ba=ba):
            a = opnd("a", True, "Wa", ba)
            return ["n", a, None, om["!"]], {"<a.il_read()>": "bool" if ba else ("bv", "Wa")}
        check(f"BooleanOp[!, a {'bool' if ba else 'bv'}]", "BooleanOp", mk, None)
    for bc in (True, False):
        for arms_bool in (True, False):
            def mk(bc=bc, arms_bool=arms_bool):
                c = opnd("c", True, "Wc", bc)
                t, e = opnd("t", True, "W", arms_bool), opnd("e", True, "W", arms_bool)
                arm = "bool" if arms_bool else ("bv", "W")
                return ["n", c, t, e], {"<c.il_read()>": "bool" if bc else ("bv", "Wc"), "<t.il_read()>": arm, "<e.il_read()>": arm}
            check(f"Ternary[cond {'bool' if bc else 'bv'}, arms {'bool' if arms_bool else 'bv'}] (arms of one type, by R10.3)", "Ternary", mk, None)
    for ts in (True, False):
        for ss in (True, False):
            def mk(ts=ts, ss=ss):
                src = opnd("src", ss, "Ws")
                return ["n", mk_vt("T", ts, Sym("Wt")), src], {"<src.il_read()>": ("bv", "Ws")}
            check(f"Cast[target {'s' if ts else 'u'}, source {'s' if ss else 'u'}] (source is a bitvector, by R10.4)", "Cast", mk, None)
    ctx.need(n >= 40, f"only {n} templates sort-checked")


def bool_node_classes_declare_bool(ctx):
    """nodes whose template yields an IL bool are typed BOOL, nodes that yield a bitvector are not (valuation of the constructors)"""
    idx = get_index(ctx.env)
    cmp_t = members_by_value(idx, "CompareOpType")
    bool_t = members_by_value(idx, "BooleanOpType")
    ar_t = members_by_value(idx, "ArithmeticType")
    bit_t = members_by_value(idx, "BitOperationType")
    a = lambda: mk_pure("a", mk_vt("ta", True, 32))
    b = lambda: mk_pure("b", mk_vt("tb", True, 32))
    specs = [
        ("CompareOp", lambda: ["n", a(), b(), cmp_t["<"]], True),
        ("BooleanOp", lambda: ["n", a(), b(), bool_t["&&"]], True),
        ("Bool", lambda: ["n", True], True),
        ("ArithmeticOp", lambda: ["n", a(), b(), ar_t["+"]], False),
        ("BitOp", lambda: ["n", a(), b(), bit_t["&"]], False),
    ]
    for cls, mk, exp in specs:
        fi = idx.resolve_method(cls, "__init__")
        ctx.need(fi is not None, f"{cls}.__init__ not found")
        box = {}

        def once(i, cls=cls, mk=mk):
            o = AObj(cls, {}, label="node")
            box["o"] = o
            i.call_function(fi, mk(), self_obj=o)
            return o.fields.get("value_type")
        try:
            outs = Interp(idx).explore(once)
        except Exception as e:  # constructor shape changed: decide from what can be seen
            outs = []
            ctx.need(False, f"{cls}.__init__ could not be evaluated: {type(e).__name__}: {e}")
        got = set()
        for o in outs:
            vt = o.value if o.kind == "return" else None
            if isinstance(vt, AObj) and "group" in vt.fields:
                got.add("BOOL" in vt.fields["group"].members)
            else:
                got.add(None)
        ctx.check(f"{cls} is typed {'BOOL' if exp else 'as a bitvector'}", got == {exp}, str(exp), str(sorted(map(str, got))), fn_where(idx, fi), nontrivial=exp)


def truth_test_width_independence(ctx):
    """every site that turns a scalar into a truth value tests the WHOLE value: NON_ZERO(<read>) for every width and signedness
    (?: condition, if condition, for condition, both operands of && / ||, operand of !)"""
    idx = get_index(ctx.env)
    bt = members_by_value(idx, "BooleanOpType")
    for width in (8, 16, 32, 64):
        for signed in (False, True):
            vt = lambda n: mk_vt(n, signed, width, ("PURE",))
            sites = [
                ("Ternary", "il_exec", lambda: {"ops": [mk_pure("c", vt("tc")), mk_pure("b", mk_vt("tb", True, 32)), mk_pure("d", mk_vt("td", True, 32))]}, ["c"]),
                ("Branch", "il_write", lambda: {"cond": mk_pure("c", vt("tc")), "then": mk_pure("t", cls="Effect"), "otherwise": mk_pure("e", cls="Effect")}, ["c"]),
                ("ForLoop", "il_write", lambda: {"control": mk_pure("c", vt("tc")), "compound": mk_pure("body", cls="Effect")}, ["c"]),
            ]
            for spelled, m in sorted(bt.items()):
                n_ops = 1 if spelled == "!" else 2
                sites.append(("BooleanOp", "il_exec", (lambda m=m, n_ops=n_ops: {"op_type": m, "ops": [mk_pure(x, vt("t" + x)) for x in ("c", "d")[:n_ops]]}), ["c", "d"][:n_ops]))
            for cls, method, mk, names in sites:
                fi, outs = run_il_exec(idx, cls, mk, method=method)
                obs = sorted({normalise(outcome_text(o)) for o in outs})
                ok = bool(obs) and all(o.count(f"<{x}.il_read()>") == o.count(f"NON_ZERO(<{x}.il_read()>)") >= 1 for o in obs for x in names)
                ctx.check(f"{cls}.{method}{'' if cls != 'BooleanOp' else '[' + str(mk()['op_type']) + ']'}: truth test of a {'s' if signed else 'u'}{width} operand", ok,
                          "NON_ZERO(<read>) of the unconverted operand", " | ".join(obs)[:110], fn_where(idx, fi), nontrivial=(width != 32))


@rule("R10.2", "C10", "one boolness predicate: every NON_ZERO site and the bool->int conversion decide by the BOOL flag of the operand's type; node classes that emit bools declare BOOL", min_instances=8)
def r10_2(ctx):
    idx = get_index(ctx.env)
    # valuation of every site that has to turn a bitvector condition into a bool: the operand's BOOL flag (and nothing else:
    # not its class, not other flags) decides between the raw read and NON_ZERO(read)
    bool_flags = [("PURE", "BOOL"), ("PURE", "BOOL", "CONST"), ("PURE", "BOOL", "HYBRID_LVAR")]
    bv_flags = [("PURE",), ("PURE", "CONST"), ("PURE", "HYBRID_LVAR")]
    classes = ("Pure", "CompareOp", "LocalVar", "Number", "Register")
    sites = [
        ("Ternary", "il_exec", lambda c: {"ops": [c, mk_pure("b", mk_vt("tb", True, 32)), mk_pure("d", mk_vt("td", True, 32))]}, 1),
        ("Branch", "il_write", lambda c: {"cond": c, "then": mk_pure("t", cls="Effect"), "otherwise": mk_pure("e", cls="Effect")}, 1),
        ("ForLoop", "il_write", lambda c: {"control": c, "compound": mk_pure("body", cls="Effect")}, 1),
    ]
    for cls, method, mk, _ in sites:
        for flags, is_bool in [(f, True) for f in bool_flags] + [(f, False) for f in bv_flags]:
            for ocls in classes:
                fi, outs = run_il_exec(idx, cls, lambda: mk(mk_pure("c", mk_vt("tc", False, 1 if is_bool else 32, flags), cls=ocls)), method=method)
                obs = sorted({normalise(outcome_text(o)) for o in outs})
                wrapped = [("NON_ZERO(<c.il_read()>)" in o) for o in obs]
                raw = [("<c.il_read()>" in o and "NON_ZERO(<c.il_read()>)" not in o) for o in obs]
                ok = bool(obs) and (all(raw) if is_bool else all(wrapped))
                ctx.check(f"{cls}.{method}: condition of class {ocls} with flags {'|'.join(flags)}", ok, "raw read" if is_bool else "NON_ZERO(read)", " | ".join(obs)[:100], fn_where(idx, fi), nontrivial=(ocls == "Pure"))
    # BooleanOp: each operand on its own
    for fa, fb_ in ((("PURE", "BOOL"), ("PURE",)), (("PURE",), ("PURE", "BOOL")), (("PURE",), ("PURE",)), (("PURE", "BOOL"), ("PURE", "BOOL"))):
        bt = members_by_value(idx, "BooleanOpType")
        for opname in ("&&", "||"):
            fi, outs = run_il_exec(idx, "BooleanOp", lambda: {"op_type": bt[opname], "ops": [mk_pure("a", mk_vt("ta", False, 32, fa)), mk_pure("b", mk_vt("tb", False, 32, fb_))]})
            obs = sorted({normalise(outcome_text(o)) for o in outs})
            def part(x, flags):
                return f"<{x}.il_read()>" if "BOOL" in flags else f"NON_ZERO(<{x}.il_read()>)"
            ok = bool(obs) and all(part("a", fa) in o and part("b", fb_) in o and (("BOOL" in fa) or f"NON_ZERO(<a.il_read()>)" in o) for o in obs)
            ok = ok and all((("BOOL" not in fa) or "NON_ZERO(<a.il_read()>)" not in o) and (("BOOL" not in fb_) or "NON_ZERO(<b.il_read()>)" not in o) for o in obs)
            ctx.check(f"BooleanOp.il_exec[{opname}; a {'bool' if 'BOOL' in fa else 'bv'}, b {'bool' if 'BOOL' in fb_ else 'bv'}]", ok, f"{part('a', fa)} {opname} {part('b', fb_)}", " | ".join(obs)[:120], fn_where(idx, fi))
    truth_test_width_independence(ctx)
    from .c03 import r03_2

    r03_2(ctx)  # init_a_cast: a bool source is converted by ITE(src, 1, 0), decided by the BOOL flags of source and target
    bool_node_classes_declare_bool(ctx)
    fb = idx.func("Bool.il_read")
    outs = Interp(idx).explore(lambda i: i.call_function(fb, [], self_obj=AObj("Bool", {"value": True}, label="self")))
    ctx.check("Bool literal emits an IL bool", [o.value for o in outs] == ["IL_TRUE"], "IL_TRUE", str([outcome_text(o) for o in outs]), fn_where(idx, fb))


EQW_SPECS = [
    ("+", "additive_expr", "ADD_OP"), ("-", "additive_expr", "SUB_OP"), ("*", "multiplicative_expr", "MUL_OP"), ("/", "multiplicative_expr", "DIV_OP"), ("%", "multiplicative_expr", "MOD_OP"),
    ("&", "and_expr", "BIT_AND_OP"), ("|", "inclusive_or_expr", "BIT_OR_OP"), ("^", "exclusive_or_expr", "BIT_XOR_OP"),
    ("<", "relational_expr", "LT_OP"), (">", "relational_expr", "GT_OP"), ("<=", "relational_expr", "LE_OP"), (">=", "relational_expr", "GE_OP"), ("==", "equality_expr", "EQ_OP"), ("!=", "equality_expr", "NE_OP"),
]


def common_pair(a, b):
    """both operands are the two halves of one common-type conversion"""
    return a.endswith(".0") and b.endswith(".1") and a[:-2] == b[:-2] and a.startswith("Common(")


@rule("R10.3", "C10", "equal-width premise: both operands of every equal-width opcode (and both ?: arms) come out of one common-type conversion", min_instances=20)
def r10_3(ctx):
    idx = get_index(ctx.env)
    for op, cb, tokt in EQW_SPECS:
        r = Runner(idx)
        r.fold = False
        fi, outs = r.run(cb, lambda: [r.pure("items[0]", vt=mk_vt("t0", True, 32)), Tok(tokt, op), r.pure("items[2]", vt=mk_vt("t2", False, 8))])
        good = [o for o in outs if o.kind != "raise"]
        ctx.need(good, f"{cb}[{op}] has no translating path")
        for o in good:
            v = o.value
            a, b = lab(ctor(v, "a")), lab(ctor(v, "b"))
            ctx.check(f"{cb}[{op}] operand widths", common_pair(a, b) and origin(a) == "items[0]" and origin(b) == "items[2]", "a, b = Common(x, y).0/.1", f"a={a}, b={b}", fn_where(idx, fi))
    am = members_by_value(idx, "AssignmentType")
    for op in ("+=", "-=", "*=", "/=", "%=", "&=", "|=", "^="):
        r = Runner(idx)
        fi, outs = r.run("assignment_expr", lambda: [r.pure("items[0]", vt=mk_vt("t0", True, 8)), Tok("ASSIGN_OP", op), r.pure("items[2]", vt=mk_vt("t2", False, 32))])
        good = [o for o in outs if o.kind != "raise"]
        ctx.need(good, f"assignment_expr[{op}] has no translating path")
        for o in good:
            nodes = [e[2] for e in o.events if e[0] == "node" and e[1] in ("ArithmeticOp", "BitOp")]
            ctx.need(nodes, f"assignment_expr[{op}]: operator node not found")
            a, b = lab(ctor(nodes[-1], "a")), lab(ctor(nodes[-1], "b"))
            # either one common-type conversion, or: source converted to the target type and both promoted (equal types stay equal)
            same_type = (a, b) in (("items[0]", "Conv(type(items[0]),items[2])"), ("Promo(items[0])", "Promo(Conv(type(items[0]),items[2]))"))
            ctx.check(f"assignment_expr[{op}] operand widths", common_pair(a, b) or same_type, "operands of one type", f"a={a}, b={b}", fn_where(idx, fi))
    r = Runner(idx)
    r.fold = False
    fi, outs = r.run("conditional_expr", lambda: [r.pure("items[0]"), r.pure("items[1]", vt=mk_vt("t1", True, 32)), r.pure("items[2]", vt=mk_vt("t2", False, 8))])
    for o in [o for o in outs if o.kind != "raise"]:
        v = o.value
        t, e = lab(ctor(v, "then_p")), lab(ctor(v, "else_p"))
        ctx.check("?: arm widths", common_pair(t, e), "then, else = Common(x, y).0/.1", f"then={t}, else={e}", fn_where(idx, fi))
    from .c04 import r04_1

    r04_1(ctx)  # Common(x, y) really yields one (sign, width) for both halves
    from .c02 import r02_3

    r02_3(ctx)  # and bool operands are promoted to integers first (Promo turns an IL bool into ITE(b, 1, 0))


@rule("R10.4", "C10", "converted types are integer types: the common type never carries the BOOL flag; a bool source is converted by ITE, never by CAST", min_instances=6)
def r10_4(ctx):
    idx = get_index(ctx.env)
    fi = idx.func("c11_cast")
    for a_bool, b_bool in ((True, False), (False, True)):
        for sb in (True, False):
            def once(i):
                a = mk_vt("a", False, 1, ("PURE", "BOOL")) if a_bool else mk_vt("a", sb, 32)
                b = mk_vt("b", False, 1, ("PURE", "BOOL")) if b_bool else mk_vt("b", sb, 32)
                return i.call_function(fi, [a, b])
            outs = Interp(idx).explore(once)
            flags = set()
            for o in outs:
                if o.kind == "return":
                    for x in o.value:
                        flags.add(tuple(sorted(x.fields["group"].members)))
            ctx.check(f"c11_cast[{'bool' if a_bool else ('s32' if sb else 'u32')}, {'bool' if b_bool else ('s32' if sb else 'u32')}] flags", flags == {("PURE",)}, "('PURE',) on both results", str(sorted(flags)), fn_where(idx, fi))
    # the promoted type of a narrow operand is a plain integer type as well: a truth value (1 bit, BOOL) or a narrow integer that is
    # promoted must come out without the BOOL flag (the flag decides ITE vs CAST and NON_ZERO vs raw read everywhere else)
    fp = idx.func("promoted_type")
    for desc, mk in (("1 bit BOOL", lambda: mk_vt("a", False, 1, ("PURE", "BOOL"))), ("8 bit BOOL", lambda: mk_vt("a", False, 8, ("PURE", "BOOL"))), ("8 bit BOOL|CONST", lambda: mk_vt("a", False, 8, ("PURE", "BOOL", "CONST"))),
                     ("16 bit integer", lambda: mk_vt("a", True, 16, ("PURE",)))):
        outs = Interp(idx).explore(lambda i, mk=mk: i.call_function(fp, [mk()]))
        got = sorted({(tuple(sorted(o.value.fields["group"].members)), o.value.fields.get("_signed"), o.value.fields.get("_bit_width")) if o.kind == "return" and isinstance(o.value, AObj) else ("?",) for o in outs})
        ok = bool(got) and all(len(g) == 3 and "BOOL" not in g[0] and g[1] is True and g[2] == 32 for g in got)
        ctx.check(f"promoted_type[{desc}] is a plain signed 32 bit integer type", ok, "signed, 32 bit, no BOOL flag", str(got)[:120], fn_where(idx, fp))
    from .c03 import r03_2

    r03_2(ctx)


@rule("R10.5", "C10", "effect shapes: SEQN count = number of arguments; BRANCH has condition and two effects; conditions are bools; Empty is EMPTY()", min_instances=8)
def r10_5(ctx):
    from .c05 import r05_2

    r05_2(ctx)
    idx = get_index(ctx.env)
    for cls, m, fields, exp in (
        ("Branch", "il_write", lambda b: {"cond": opnd("c", True, "W", b), "then": mk_pure("t", cls="Effect"), "otherwise": mk_pure("e", cls="Effect")}, "BRANCH({c}, <t.effect_var()>, <e.effect_var()>)"),
        ("ForLoop", "il_write", lambda b: {"control": opnd("c", True, "W", b), "compound": mk_pure("body", cls="Effect")}, "REPEAT({c}, <body.effect_var()>)"),
    ):
        for b in (True, False):
            fi, outs = run_il_exec(idx, cls, lambda: fields(b), method=m)
            obs = " | ".join(sorted({normalise(outcome_text(o)) for o in outs}))
            e = exp.format(c="<c.il_read()>" if b else "NON_ZERO(<c.il_read()>)")
            ctx.check(f"{cls}.{m}[cond {'bool' if b else 'bv'}]", obs == e, e, obs, fn_where(idx, fi))


@rule("R10.6", "C10", "LET scoping: VARLP is only produced for a let-bound literal whose LET wraps the same consumer; every literal class is inlined by default", min_instances=3)
def r10_6(ctx):
    idx = get_index(ctx.env)
    producers = {"VARLP(": set(), "LET(": set()}
    for fi in idx.funcs.values():
        src = U(fi.node)
        for k in producers:
            if k in src:
                producers[k].add(fi.qual)
    ctx.check("producers of VARLP", producers["VARLP("] == {"LetVar.il_read"}, "{'LetVar.il_read'}", str(sorted(producers["VARLP("])), "rzilcompiler/Transformer/Pures/LetVar.py")
    ctx.check("producers of LET", producers["LET("] == {"LetVar:resolve_lets"}, "{'resolve_lets'}", str(sorted(producers["LET("])), "rzilcompiler/Transformer/Pures/LetVar.py")
    init = idx.func("RZILTransformer.__init__")
    inl = [U(n.value) for n in ast.walk(init.node) if isinstance(n, ast.Assign) and U(n.targets[0]) == "self.inlined_pure_classes"]
    letvars = set(idx.subclasses("LetVar", strict=True))
    ctx.check("every literal class is inlined by default (no free VARLP)", bool(inl) and all(c in inl[0] for c in letvars), f"{sorted(letvars)} all inlined", str(inl), fn_where(idx, init))
    fi = idx.func("PureExec.il_init_var")
    ctx.check("non-inlined literals: the consumer's initialiser is wrapped by resolve_lets", "resolve_lets(self.ops, self)" in U(fi.node), "resolve_lets(self.ops, self)", "missing", fn_where(idx, fi))
    fr = idx.func("resolve_lets")
    outs = Interp(idx).explore(lambda i: i.call_function(fr, [[AObj("Number", {"inlined": False, "reads": 0, "name": "c", "isa_name": None}, label="c")], AObj("PureExec", {}, label="consumer", opaque=True)]))
    obs = {normalise(outcome_text(o)) for o in outs}
    ctx.check("resolve_lets wraps the consumer: LET(name, value, consumer)", obs == {'LET("c", c, <consumer.il_exec()>)'}, 'LET("c", c, <consumer.il_exec()>)', str(sorted(obs)), fn_where(idx, fr))


@rule("R10.7", "C10", "one width per local: postfix ++/-- keep the operand's own type; ret_val is 64 bit; jump_target 32 bit; immediates 32 bit", min_instances=5)
def r10_7(ctx):
    idx = get_index(ctx.env)
    fi = idx.func("PostfixIncDec.__init__")
    box = {}
    def once(i):
        t = mk_vt("tx", False, 8)
        box["t"] = t
        ht = members_by_value(idx, "HybridType")
        return i.construct("PostfixIncDec", ["n", mk_pure("x", t, cls="LocalVar"), t, ht["++"]], {})
    outs = Interp(idx).explore(once)
    ok = all(o.kind == "return" and o.value.fields.get("value_type") is box["t"] for o in outs)
    ctx.check("PostfixIncDec keeps the type it is given", ok, "value_type is the operand's type object", "re-typed" if not ok else "same object", fn_where(idx, fi))
    r = Runner(idx)
    ht = members_by_value(idx, "HybridType")
    box2 = {}
    def items():
        t = mk_vt("tx", False, 8)
        box2["t"] = t
        return [r.pure("items[0]", vt=t, cls="LocalVar"), Tok("INC_OP", "++")]
    f2, outs = r.run("postfix_expr", items)
    for o in [o for o in outs if o.kind != "raise"]:
        nodes = [e[2] for e in o.events if e[0] == "node" and e[1] == "PostfixIncDec"]
        ok = len(nodes) == 1 and ctor(nodes[0], "value_type") is box2["t"] and lab(ctor(nodes[0], "operand")) == "items[0]"
        ctx.check("postfix_expr types x++ with x's own type", ok, "PostfixIncDec(name, items[0], items[0].value_type, INC)", lab(nodes[0])[:80] if nodes else "no node", fn_where(idx, f2))
    f3, outs = run_il_exec(idx, "PostfixIncDec", lambda: {"op_type": ht["++"], "ops": [mk_pure("x")], "value_type": mk_vt("t", False, Sym("W"))})
    obs = {normalise(outcome_text(o)) for o in outs}
    ctx.check("INC/DEC width argument = width of the variable", obs == {"INC(<x.il_read()>, <W>)"}, "INC(<x.il_read()>, <W>)", str(sorted(obs)), fn_where(idx, f3))
    from .c03 import r03_3

    r03_3(ctx)  # assignment / store / register write / return / jump widths


def hybrid_temp_type_checks(ctx):
    """the temporary of a value-producing operation is typed like the operation's value (a bool stays a bool: its readers
    decide NON_ZERO / ITE-vs-CAST by the BOOL flag)"""
    idx = get_index(ctx.env)
    for name, signed, width, groups in (("int", True, 32, ("PURE",)), ("wide unsigned", False, 64, ("PURE",)), ("narrow", True, 8, ("PURE",)), ("bool", False, 1, ("PURE", "BOOL"))):
        r = Runner(idx, keep_real=("resolve_hybrid",))
        def rh_args():
            seq = EnumV("HybridSeqOrder", "EXEC_THEN_SET_VAL", None)
            return [AObj("Hybrid", {"value_type": mk_vt("th", signed, width, groups), "seq_order": seq, "references_set": set()}, label="hybrid", opaque=True)]
        fi, outs = r.run("resolve_hybrid", rh_args, args_list=True)
        good = [o for o in outs if o.kind != "raise"]
        ctx.need(good, "resolve_hybrid has no non-raising path")
        for o in good:
            tmps = [e[2] for e in o.events if e[0] == "node" and e[1] == "LocalVar"]
            sig = None
            if len(tmps) == 1:
                t = ctor(tmps[0], "value_type")
                if isinstance(t, AObj) and isinstance(t.fields.get("group"), FlagV):
                    sig = (t.fields.get("_signed"), t.fields.get("_bit_width"), "BOOL" in t.fields["group"].members)
            exp = (signed, width, "BOOL" in groups)
            ctx.check(f"resolve_hybrid temporary type [{name} value]", sig == exp, f"(signed, width, bool) = {exp}", str(sig), fn_where(idx, fi))
            ret = o.value
            same = isinstance(ret, AObj) and tmps and ret is tmps[0]
            ctx.check(f"resolve_hybrid returns that temporary [{name} value]", bool(same), "the LocalVar h_tmpN", lab(ret)[:60], fn_where(idx, fi), nontrivial=False)


def temporary_constructor_keeps_the_type(ctx):
    """the variable that holds an operation's value is constructed with exactly the type it is given (LocalVar.__init__ evaluated for every
    width / sign, with and without an owning operation): resolve_hybrid relies on `type(temporary) == type(operation)` - with another type
    the conversion it applies hands back a Cast instead of the operation, and the operation's own effect drops out of its sequence"""
    idx = get_index(ctx.env)
    fi = idx.resolve_method("LocalVar", "__init__")
    ctx.need(fi is not None, "LocalVar.__init__ not found")
    for owner in (True, False):
        for signed in (True, False):
            for w in (1, 8, 16, 32, 64):
                groups = ("PURE", "HYBRID_LVAR") if owner else ("PURE",)
                box = {}

                def once(i, signed=signed, w=w, groups=groups, owner=owner):
                    t = mk_vt("t", signed, w, groups)
                    box["t"] = t
                    o = AObj("LocalVar", {}, label="v")
                    kw = {"hybrid_owner": AObj("Hybrid", {}, label="owner", opaque=True)} if owner else {}
                    i.call_function(fi, ["h_tmp0", t], kw, self_obj=o)
                    return o.fields.get("value_type")
                outs = Interp(idx).explore(once)
                got = sorted({((o.value.fields.get("_signed"), o.value.fields.get("_bit_width")) if o.kind == "return" and isinstance(o.value, AObj) else ("RAISE",)) for o in outs}, key=str)
                ctx.check(f"LocalVar({'temporary of an operation' if owner else 'plain'}, {'s' if signed else 'u'}{w}) has the type it was given", got == [(signed, w)], str((signed, w)), str(got), fn_where(idx, fi), nontrivial=(w < 32))


def floating_types_use_floating_operators(ctx):
    """writer / reader agreement on what marks a floating value: the type object `float` / `double` denote (get_value_type_by_c_type) is
    recognised as floating by every operator template that chooses between the bitvector and the float form of an operation"""
    from .c02 import members_by_value, run_il_exec

    idx = get_index(ctx.env)
    ft = idx.func("get_value_type_by_c_type")
    for tname in ("float", "double"):
        box = {}

        def mk(tname=tname):
            outs = Interp(idx).explore(lambda i: i.call_function(ft, [tname]))
            vals = [o.value for o in outs if o.kind == "return" and isinstance(o.value, AObj)]
            return vals[0] if len(vals) == 1 else None
        probe = mk()
        ctx.check(f"C type {tname} denotes one type object", probe is not None, "a ValueType", "no / several results", fn_where(idx, ft))
        if probe is None:
            continue
        for cls, enum, field, members in (("CompareOp", "CompareOpType", "op_type", ("LT", "GT", "LE", "GE", "EQ")), ("ArithmeticOp", "ArithmeticType", "arith_type", ("ADD", "SUB", "MUL", "DIV"))):
            tab = idx.enum_table(enum)
            for m in members:
                if m not in tab:
                    continue
                def fields(m=m, field=field, enum=enum, tab=tab):
                    a = mk_pure("a", mk())
                    b = mk_pure("b", mk())
                    return {field: EnumV(enum, m, tab[m]), "ops": [a, b], "value_type": mk()}
                fi, outs = run_il_exec(idx, cls, fields)
                got = sorted({outcome_text(o).split("(")[0] for o in outs})
                ctx.check(f"{cls} {m} on two {tname} operands is the floating operation", bool(got) and all(g.startswith("F") for g in got), f"F{m}...(...)", str(got), fn_where(idx, fi))
        # != : the comparison is the floating one, the negation around it is the boolean INV (there is no float variant of INV)
        tab = idx.enum_table("CompareOpType")
        if "NE" in tab:
            fi, outs = run_il_exec(idx, "CompareOp", lambda: {"op_type": EnumV("CompareOpType", "NE", tab["NE"]), "ops": [mk_pure("a", mk()), mk_pure("b", mk())], "value_type": mk()})
            got = sorted({normalise(outcome_text(o)) for o in outs})
            ctx.check(f"CompareOp NE on two {tname} operands", got == ["INV(FEQ(<a.il_read()>, <b.il_read()>))"], "INV(FEQ(a, b))", str(got), fn_where(idx, fi))


@rule("R10.8", "C10", "temporaries and registers keep their sort: h_tmpN carries sign, width and boolness of the operation's value; register operands get their architectural width", min_instances=45)
def r10_8(ctx):
    from .c08 import r08_3

    r08_3(ctx)  # the value handed back by a call is read with sign and width of the declared return type (also 8 / 16 bit)
    from .c07 import r07_3
    from .c08 import r08_6

    r07_3(ctx)  # the operand declaration names the register class of the operand's width (pairs incl. Rn:0)
    r08_6(ctx, namespacing=False)  # locals of the bundled routines are disjoint: one IL variable never gets values of two widths
    idx = get_index(ctx.env)
    hybrid_temp_type_checks(ctx)
    temporary_constructor_keeps_the_type(ctx)
    floating_types_use_floating_operators(ctx)
    from .c08 import r08_5

    r08_5(ctx)  # a routine body's temporaries are not the caller's: one IL variable never holds values of two widths
    # --- register operand widths (table shared with C07)
    from .c07 import r07_1, r07_7, r07_8

    r07_1(ctx)
    r07_7(ctx)
    r07_8(ctx)
    # --- the declared type of an operator node is the type of the term it emits (shift: the left operand's)
    from .c02 import r02_4

    r02_4(ctx)
    # --- resource lint: the parameter / return types the macro table announces for QEMU's bit helpers are their real ones
    import json

    mp = ctx.env.repo / "Resources" / "Hexagon" / "qemu_rzil_macros.json"
    ctx.need(mp.is_file(), "anchor missing: Resources/Hexagon/qemu_rzil_macros.json")
    macros = json.loads(mp.read_text()).get("macros", {})
    for name, (ret, params) in sorted(O.QEMU_BIT_HELPERS.items()):
        m = macros.get(name)
        if m is None:
            ctx.note(f"macro table has no entry for {name}")
            continue
        ctx.check(f"macro table entry {name}", m.get("return_type") == ret and m.get("params") == params, f"{ret} {name}({', '.join(params)})",
                  f"{m.get('return_type')} {name}({', '.join(m.get('params', []))})", "Resources/Hexagon/qemu_rzil_macros.json")


@rule("R10.9", "C10", "a truth value never reaches a bitvector position as it is: every operand of an arithmetic, bit, shift or comparison node has gone through a promotion or conversion (which turn an IL bool into ITE(b, 1, 0))", min_instances=20)
def r10_9(ctx):
    from sa.larkmodel import get_grammar, transformer_callbacks
    from .c02 import NODE_BY_OPERATOR, binary_productions

    idx = get_index(ctx.env)
    gm = get_grammar(ctx.env)
    cbs = transformer_callbacks(idx)
    boolt = lambda n: mk_vt(n, False, 1, ("PURE", "BOOL"))

    def converted(h):
        return h.startswith(("Promo(", "Common(", "Conv("))

    prods = [p for p in binary_productions(gm) if NODE_BY_OPERATOR.get(p[0], ("",))[0] in ("ArithmeticOp", "BitOp", "CompareOp") and p[1] in cbs]
    ctx.need(len(prods) >= 16, f"only {len(prods)} bitvector-operand productions derived from the grammar")
    for lit, cb, term in prods:
        r = Runner(idx)
        r.fold = False
        fi, outs = r.run(cb, lambda: [r.pure("items[0]", vt=boolt("t0"), cls="CompareOp"), Tok(term, lit), r.pure("items[2]", vt=boolt("t2"), cls="CompareOp")])
        good = [o for o in outs if o.kind != "raise"]
        ctx.need(good, f"{cb}[{lit}] has no translating path for truth-valued operands")
        for o in good:
            v = o.value
            a, b = lab(ctor(v, "a")), lab(ctor(v, "b"))
            ctx.check(f"{cb}[{lit}] with two truth-valued operands", converted(a) and converted(b), "both operands promoted / converted", f"a={a}, b={b}", fn_where(idx, fi))
    for lit in ("~", "-"):
        r = Runner(idx)
        r.fold = False
        fi, outs = r.run("unary_expr", lambda: [Tok("UNARY_OP", lit), r.pure("items[1]", vt=boolt("t1"), cls="CompareOp")])
        good = [o for o in outs if o.kind != "raise"]
        ctx.need(good, f"unary_expr[{lit}] has no translating path for a truth-valued operand")
        for o in good:
            a = lab(ctor(o.value, "a"))
            ctx.check(f"unary_expr[{lit}] with a truth-valued operand", converted(a), "operand promoted", f"a={a}", fn_where(idx, fi))
    # compound assignment: the operator node of `x op= <truth value>`
    for op in ("+=", "-=", "*=", "&=", "|=", "^=", "<<=", ">>=", "%=", "/="):
        r = Runner(idx)
        fi, outs = r.run("assignment_expr", lambda: [r.pure("items[0]", vt=mk_vt("t0", True, 32), cls="LocalVar"), Tok("ASSIGN_OP", op), r.pure("items[2]", vt=boolt("t2"), cls="CompareOp")])
        good = [o for o in outs if o.kind != "raise"]
        ctx.need(good, f"assignment_expr[{op}] has no translating path for a truth-valued source")
        for o in good:
            nodes = [e[2] for e in o.events if e[0] == "node" and e[1] in ("ArithmeticOp", "BitOp")]
            ctx.need(nodes, f"assignment_expr[{op}]: operator node not found")
            b = lab(ctor(nodes[-1], "b"))
            ctx.check(f"assignment_expr[{op}] with a truth-valued source", converted(b), "source promoted / converted", f"b={b}", fn_where(idx, fi))


@rule("R10.10", "C10", "operand-kind independence: the sort-relevant conversions (promotion, common type, bool to integer) are applied to every kind of operand alike", min_instances=20)
def r10_10(ctx):
    from .c02 import callback_operand_kind_independence

    callback_operand_kind_independence(ctx)


@rule("R10.11", "C10", "a folded constant has the sort of its run-time twin: the folders' results are integers of the promoted / common type (a folded `+(2 > 1)` is an int, not a one-bit bitvector flagged bool)", min_instances=20)
def r10_11(ctx):
    from .c09 import r09_2

    r09_2(ctx)
