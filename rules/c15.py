"""C15 - nothing in the source is silently dropped: translate it or raise."""
from __future__ import annotations

import ast
import re

from sa.absint import AObj, Interp, Opaque, Tok, to_text
from sa.cbmodel import Runner
from sa.kinds import KindEngine, short
from sa.larkmodel import get_grammar, transformer_callbacks
from sa.pyindex import get_index
from sa.report import PROP_ASSUMPTIONS, PROP_EXPLANATION, rule
from sa.symex import U, call_name, paths_of

from .common import fn_where, mk_vt, outcome_text

PROP_EXPLANATION["C15"] = (
    "Transformer.transform is interpreted abstractly over the grammar: every rule gets the set of kinds (Effect, Pure, pending "
    "hybrid value, Token, raw Tree, list, ...) its value can have, computed as a fixpoint by abstractly running each callback on "
    "representatives of its children's kinds. A silent drop is (D1) an effect-carrying child that is not part of a callback's "
    "result on a non-raising path, or (D2) a raw Tree / control keyword reaching a discard site (the top-level Effect filter or "
    "a Sequence's effect list). Constructs the compiler does not translate must have only raising outcomes."
)
PROP_ASSUMPTIONS["C15"] = ["IR node constructors are summarised (their constructor-time checks can only turn more inputs into rejections)"]


def get_engine(env):
    def build():
        idx = get_index(env)
        gm = get_grammar(env)
        ke = KindEngine(idx, gm, max_combos=48 if env.tier == "thorough" else 28)
        ke.solve()
        return ke

    return env.get("kinds", build)


@rule("R15.1", "C15", "production coverage: no effect-carrying child is dropped inside a callback; no raw Tree / control keyword reaches a discard site", min_instances=60)
def r15_1(ctx):
    idx = get_index(ctx.env)
    gm = get_grammar(ctx.env)
    ke = get_engine(ctx.env)
    for e in ke.errors:
        ctx.need(False, f"kind engine: {e}")
    cbs = transformer_callbacks(idx)
    reach = gm.reachable("fbody")
    ctx.need(len(reach) >= 90, f"only {len(reach)} grammar rules reachable from fbody")
    found = {k: f for k, f in ke.findings.items()
             if not (f.kind == "D2" and ("pending hybrid value" in k))  # order of hoisted hybrids is C06's subject (R06.3)
             and not (f.kind == "D2" and "raw Tree(" in k and not any(f"raw Tree({t})" in k for t in ("labeled_stmt", "expr")))}
    n = 0
    for rname in sorted(reach):
        for alt in gm.rules[rname]:
            sh = gm.shape(alt, cbs)
            key = f"{rname}#{alt.order}"
            if sh[0] in ("call",) or sh[0].startswith("inline-or-call"):
                mine = [f for k, f in found.items() if f.kind == "D1" and k.startswith(f"{alt.callback}[{rname}#{alt.order}:")]
                res = ke.alt_results.get(key, set())
                verdict = "raises on every child kind" if (not res and key in ke.raised_alts) else ("not reached" if not res else "translates: " + ", ".join(sorted({short(d) for d in res}))[:90])
                if mine:
                    for f in mine:
                        ctx.check(f.key, False, "every effect-carrying child is part of the result, or the callback raises", f"{f.observed} (child kinds: {sorted(getattr(f, 'kinds', []))})", f.where)
                else:
                    ctx.check(f"{key}: {alt.skeleton()} -> {alt.callback}", True, "no effect-carrying child dropped", verdict, gm.where(rname), nontrivial=bool(res))
                n += 1
            elif sh[0] == "tree":
                ctx.check(f"{key}: {alt.skeleton()} (no callback: raw Tree)", True, "raw Tree must be consumed or rejected downstream (checked at the discard sites)", "raw Tree", gm.where(rname), nontrivial=False)
    for k, f in sorted(found.items()):
        if f.kind == "D2":
            ctx.check(f.key, False, "only Effects (or values without content) reach a discard site", f.observed, f.where)
    ctx.need(n >= 80, f"only {n} callback alternatives analysed")
    # discard sites are where the model says they are
    fe = idx.func("RZILTransformer.emit_final_seq_return")
    filt = [U(n) for n in ast.walk(fe.node) if isinstance(n, ast.ListComp)]
    ctx.check("top-level filter keeps exactly the Effects of the flattened items", any("isinstance(op, Effect)" in t and "flatten_list(items)" in t for t in filt), "[op for op in ... + flatten_list(items) if isinstance(op, Effect)]", str(filt)[:160], fn_where(idx, fe))


# constructs that must be rejected: (description, callback, items builder)
def reject_specs(r):
    P = lambda l: r.pure(l, vt=mk_vt("t" + l, True, 32))
    E = lambda l: r.pure(l, cls="Effect")
    return [
        ("while loop", "iteration_stmt", [Tok("WHILE", "while"), P("c"), E("body")]),
        ("do-while loop", "iteration_stmt", [Tok("DO", "do"), E("body"), Tok("WHILE", "while"), P("c")]),
        ("switch", "selection_stmt", [Tok("SWITCH", "switch"), P("c"), E("body")]),
        ("break", "jump_stmt", [Tok("BREAK", "break")]),
        ("continue", "jump_stmt", [Tok("CONTINUE", "continue")]),
        ("goto", "jump_stmt", [Tok("GOTO", "goto"), Tok("IDENTIFIER", "l")]),
        ("return without a value (the lowering of return does not leave the routine: it would be a silent no-op)", "jump_stmt", [Tok("RETURN", "return")]),
        ("label", "labeled_stmt", [Tok("IDENTIFIER", "l"), E("s")]),
        ("case label", "labeled_stmt", [Tok("CASE", "case"), P("c"), E("s")]),
        ("default label", "labeled_stmt", [Tok("DEFAULT", "default"), E("s")]),
        ("comma expression", "expr", [E("a"), E("b")]),
        ("prefix ++", "unary_expr", [Tok("INC_OP", "++"), P("x")]),
        ("prefix --", "unary_expr", [Tok("DEC_OP", "--"), P("x")]),
        ("pointer dereference", "unary_expr", [Tok("UNARY_OP", "*"), P("x")]),
        ("address-of", "unary_expr", [Tok("UNARY_OP", " &x"), P("x")]),
        ("sizeof(type)", "unary_expr", [Tok("SIZEOF", "sizeof"), mk_vt("T", True, 32)]),
        ("_Alignof", "unary_expr", [Tok("ALIGNOF", "_Alignof"), mk_vt("T", True, 32)]),
        ("array subscript", "postfix_expr", [P("a"), P("i")]),
        ("member access", "postfix_expr", [P("a"), Tok("IDENTIFIER", "m")]),
        ("pointer member access", "postfix_expr", [P("a"), Tok("PTR_OP", "->"), Tok("IDENTIFIER", "m")]),
    ]


@rule("R15.2", "C15", "constructs the compiler does not translate raise on every path (while/do/switch, break/continue/goto, labels, comma, pointer/array/member access, prefix ++/--, sizeof(type))", min_instances=19)
def r15_2(ctx):
    idx = get_index(ctx.env)
    gm = get_grammar(ctx.env)
    cbs = transformer_callbacks(idx)
    r0 = Runner(idx)
    n = len(reject_specs(r0))
    for k in range(n):
        r = Runner(idx)
        r.fold = False
        desc, cb, _ = reject_specs(r)[k]
        if cb not in cbs:
            ctx.check(f"{desc} is rejected", False, "raises", f"no callback `{cb}`: the production yields a raw Tree that nothing rejects", "rzilcompiler/Transformer/RZILTransformer.py")
            continue
        fi, outs = r.run(cb, lambda r=r, k=k: reject_specs(r)[k][2])
        obs = sorted({("raises " + str(o.value)) if o.kind == "raise" else ("returns " + (o.value.cls if isinstance(o.value, AObj) else type(o.value).__name__)) for o in outs})
        ctx.check(f"{desc} is rejected", all(o.kind == "raise" for o in outs) and outs, "raises", "; ".join(obs), fn_where(idx, fi))
    # a call that yields no value (void) in a value position: its effect could never be sequenced (the consumer is a value), so
    # it has to be rejected - by the type accessors, which the conversion helpers read
    def void_call(r, label):
        return AObj("SubRoutineCall", {"value_type": mk_vt("tvoid", False, 32, ("VOID",)), "name": label, "ops": [], "effect_ops": []}, label=label, opaque=True)

    void_specs = [
        ("source of an assignment", "assignment_expr", lambda r: [r.pure("items[0]", vt=mk_vt("t0", True, 32), cls="LocalVar"), Tok("ASSIGN_OP", "="), void_call(r, "items[2]")]),
        ("operand of +", "additive_expr", lambda r: [r.pure("items[0]", vt=mk_vt("t0", True, 32)), Tok("ADD_OP", "+"), void_call(r, "items[2]")]),
        ("then-arm of ?:", "conditional_expr", lambda r: [r.pure("items[0]"), void_call(r, "items[1]"), r.pure("items[2]", vt=mk_vt("t2", True, 32))]),
        ("both arms of ?:", "conditional_expr", lambda r: [r.pure("items[0]"), void_call(r, "items[1]"), void_call(r, "items[2]")]),
        ("operand of a cast", "cast_expr", lambda r: [mk_vt("T", True, 64), void_call(r, "items[1]")]),
    ]
    for desc, cb, mk in void_specs:
        r = Runner(idx, keep_real=("cast_operands", "promotion_cast", "init_a_cast"))
        r.fold = False
        fi, outs = r.run(cb, lambda r=r, mk=mk: mk(r))
        obs = sorted({("raises " + str(o.value)[:30]) if o.kind == "raise" else ("returns " + (o.value.cls if isinstance(o.value, AObj) else type(o.value).__name__)) for o in outs})
        ctx.check(f"a void call as {desc} is rejected", bool(outs) and all(o.kind == "raise" for o in outs), "raises", "; ".join(obs), fn_where(idx, fi))
    # the LAST item of a statement-expression without a value (a void call, an assignment) is a statement of the block: it must be
    # handed up with the statements before it, not taken for the block's value (which is never sequenced)
    from .c02 import lab as _lab
    from .c05 import eff as _eff

    for desc, last in (("a void call", lambda r: void_call(r, "items[1]")), ("an assignment", lambda r: _eff(r, "items[1]"))):
        r = Runner(idx)
        fi, outs = r.run("gcc_extended_expr", lambda r=r, last=last: [_eff(r, "items[0]"), last(r)])
        obs = []
        ok = bool(outs)
        for o in outs:
            if o.kind == "raise":
                obs.append("raises")  # rejected: not silent
                continue
            v = o.value
            members = [_lab(x) for x in v] if isinstance(v, list) else [_lab(v)]
            obs.append(str(members)[:80])
            ok = ok and isinstance(v, list) and members == ["items[0]", "items[1]"]
        ctx.check(f"statement-expression whose last item is {desc}", ok, "[items[0], items[1]] handed up as statements (or an exception)", " | ".join(sorted(set(obs))), fn_where(idx, fi))
    # the productions of these constructs reach those callbacks (not inlined away, not raw trees)
    for rname, first in (("labeled_stmt", None), ("jump_stmt", None), ("iteration_stmt", None)):
        shapes = {gm.shape(a, cbs)[0] for a in gm.rules[rname]}
        ctx.check(f"production {rname} always reaches its callback", shapes == {"call"}, "call", str(sorted(shapes)), gm.where(rname))
    comma = [a for a in gm.rules["expr"] if any(s[0] == "COMMA" for s in a.symbols)]
    ctx.check("comma production reaches the expr callback", len(comma) == 1 and gm.shape(comma[0], cbs) == ("call", "expr"), "('call', 'expr')", str([gm.shape(a, cbs) for a in comma]), gm.where("expr"))
    # raising branches really raise (an exception that is only constructed is not a rejection)
    bare = []
    for fi in idx.funcs.values():
        for n_ in ast.walk(fi.node):
            if isinstance(n_, ast.Expr) and isinstance(n_.value, ast.Call) and isinstance(n_.value.func, ast.Name) and n_.value.func.id.endswith(("Error", "Exception")):
                bare.append(f"{fi.qual}:{n_.lineno}")
    ctx.note(f"exception constructed but not raised (observation, no input reaches it today): {bare}")


@rule("R15.3", "C15", "unknown functions / unknown type trees are rejected by the extension, explicit drop decisions are exactly fatal() and MEM_STORE0", min_instances=6)
def r15_3(ctx):
    idx = get_index(ctx.env)
    ext = "HexagonTransformerExtension"
    fi = idx.func(f"{ext}.get_val_type_by_fcn")
    known = {"get_npc", "STORE_SLOT_CANCELLED", "WRITE_REG"}
    for name in sorted(known) + ["some_unknown_function", "memcpy", "printf"]:
        outs = Interp(idx).explore(lambda i, name=name: i.call_function(fi, [name], self_obj=AObj(ext, {"missing_fcns": {}}, label="ext")))
        exp = "returns" if name in known else "raises"
        obs = {"raises" if o.kind == "raise" else "returns" for o in outs}
        ctx.check(f"get_val_type_by_fcn[{name}]", obs == {exp}, exp, str(sorted(obs)), fn_where(idx, fi))
    f2 = idx.func("get_fcn_param_types")
    outs = Interp(idx).explore(lambda i: i.call_function(f2, ["some_unknown_function"]))
    ctx.check("get_fcn_param_types[unknown] raises", all(o.kind == "raise" for o in outs), "raises", str([outcome_text(o)[:30] for o in outs]), fn_where(idx, f2))
    # c_call consults the extension before building the call
    cc = idx.func("RZILTransformer.c_call")
    names = [call_name(n) for n in ast.walk(cc.node) if isinstance(n, ast.Call)]
    ctx.check("c_call asks the extension for the callee's type (unknown callees raise there)", "self.ext.get_val_type_by_fcn" in names, "self.ext.get_val_type_by_fcn(prefix)", str([n for n in names if n]), fn_where(idx, cc))
    # type trees
    f3 = idx.func(f"{ext}.get_value_type_by_resource_type")
    for data, exp in (("c_int_type", "returns"), ("c_size_type", "returns"), ("struct_or_union_specifier", "raises"), ("enum_specifier", "raises"), ("atomic_type_specifier", "raises")):
        def once(i, data=data):
            tree = AObj("Tree", {"data": data, "children": [Tok("SIGN_TYPE_INT", "int"), Tok("BIT_WIDTH", "32")] if data == "c_int_type" else [Tok("BIT_WIDTH", "4"), Tok("SIGN_TYPE", "s")]}, label="tree")
            return i.call_function(f3, [[tree]], self_obj=AObj(ext, {}, label="ext"))
        outs = Interp(idx).explore(once)
        obs = {"raises" if o.kind == "raise" else "returns" for o in outs}
        ctx.check(f"type tree {data}", obs == {exp}, exp, str(sorted(obs)), fn_where(idx, f3))
    for tokname in ("VOID", "CHAR", "SHORT", "LONG", "FLOAT", "DOUBLE", "SIGNED", "BOOL"):
        lit = {"VOID": "void", "CHAR": "char", "SHORT": "short", "LONG": "long", "FLOAT": "float", "DOUBLE": "double", "SIGNED": "signed", "BOOL": "_Bool"}[tokname]
        outs = Interp(idx).explore(lambda i, lit=lit, tokname=tokname: i.call_function(f3, [[Tok(tokname, lit)]], self_obj=AObj(ext, {}, label="ext")))
        obs = {"raises" if o.kind == "raise" else "returns" for o in outs}
        ctx.check(f"type keyword {lit}", obs == {"raises"}, "raises (not a supported shortcode type)", str(sorted(obs)), fn_where(idx, f3), nontrivial=False)
    # explicit translation decisions in sub_routine
    # (evaluated, not read off the text: exactly `fatal` and `MEM_STORE0` are dropped, every other callee is translated or rejected)
    from sa.cbmodel import Runner

    got = {}
    for nm in ("fatal", "MEM_STORE0", "fatal_error", "fatality", "MEM_STORE1", "MEM_STORE", "g_assert_not_reached", "abort", "nop", "f"):
        r = Runner(idx)
        r.summarised = r.summarised | {"c_call"}
        r.s_c_call = lambda interp, args, kwargs: AObj("Call", {}, label="LEGACY_CALL", opaque=True)
        sr, outs = r.run("sub_routine", lambda nm=nm: [nm, r.pure("items[1]")], self_over=lambda: {"sub_routines": {}})
        kinds = set()
        for o in outs:
            v = o.value
            kinds.add("raise" if o.kind == "raise" else "dropped" if isinstance(v, AObj) and v.cls in ("Empty", "NOP") else "translated")
        got[nm] = "/".join(sorted(kinds))
    dropped = sorted(k for k, v in got.items() if v == "dropped")
    ctx.check("names mapped to a no-op on purpose", dropped == ["MEM_STORE0", "fatal"] and all(v in ("dropped", "translated", "raise") for v in got.values()), "['MEM_STORE0', 'fatal'] dropped, everything else handed on",
              str(got), fn_where(idx, sr))


@rule("R15.4", "C15", "sequence builders lose nothing: Sequence keeps every effect, the top level sequences every statement, flushed sequences are the ones used", min_instances=10)
def r15_4(ctx):
    from .c05 import r05_2, r05_3
    from .c06 import r06_7

    r05_2(ctx)
    r05_3(ctx)
    r06_7(ctx)


@rule("R15.7", "C15", "what is sequenced is emitted: BRANCH and REPEAT reference every effect they were built from, whatever the condition is", min_instances=30)
def r15_7(ctx):
    from .c05 import branch_emits_both_arms, sequence_emits_every_member

    branch_emits_both_arms(ctx)
    sequence_emits_every_member(ctx)  # ... and SEQN every member of the sequence, however long it is
    from .c10 import temporary_constructor_keeps_the_type

    temporary_constructor_keeps_the_type(ctx)  # ... and the pending pair of an operation holds the operation itself (not a conversion of its value, which a sequence drops)


@rule("R15.5", "C15", "a node is never replaced by an unrelated operand of the same name (its statements would vanish from the instruction)", min_instances=6)
def r15_5(ctx):
    from .c11 import name_collision_checks

    name_collision_checks(ctx)


# inlined alternatives whose filtered tokens carry meaning, reviewed: (origin, skeleton) -> (dominating rule whose value every
# consumer rejects, reason).  Everything listed here is C syntax the transformer has no translation for.
def _flat(v):
    if isinstance(v, (list, tuple)):
        for x in v:
            yield from _flat(x)
    else:
        yield v


INLINE_REVIEWED = {
    ("struct_declaration", ". SEMICOLON"): ("struct_or_union_specifier", "member declaration inside a struct/union type"),
    ("struct_declarator", "COLON ."): ("struct_or_union_specifier", "anonymous bit-field inside a struct/union type"),
    ("pointer", "MUL_OP ."): ("pointer", "pointer declarator"),
    ("direct_abstract_declarator", "LSQB . RSQB"): ("abstract_declarator", "array type in a type name"),
    ("direct_abstract_declarator", ". LSQB RSQB"): ("abstract_declarator", "array type in a type name"),
    ("direct_abstract_declarator", ". LSQB MUL_OP RSQB"): ("abstract_declarator", "array type in a type name"),
    ("direct_abstract_declarator", "LPAR . RPAR"): ("abstract_declarator", "grouping / function type in a type name"),
    ("direct_abstract_declarator", ". LPAR RPAR"): ("abstract_declarator", "function type in a type name"),
    ("designation", ". EQUAL"): ("initializer_list", "designated initialiser"),
    ("designator", "LSQB . RSQB"): ("initializer_list", "designated initialiser"),
    ("designator", "DOT IDENTIFIER"): ("initializer_list", "designated initialiser"),
}
# skeletons that only group or terminate their single child
MEANING_FREE = {
    ("primary_expr", "LPAR . RPAR"): "parenthesised expression",
    ("direct_declarator", "LPAR . RPAR"): "parenthesised declarator",
    ("declaration", ". SEMICOLON"): "declaration without declarator (declares nothing)",
    ("stmt", ". SEMICOLON"): "statement terminator",
    ("expr_stmt", ". SEMICOLON"): "statement terminator",
    ("compound_stmt", "LBRACE . RBRACE"): "block braces",
    ("compound_stmt", "LBRACE . RBRACE SEMICOLON"): "block braces",
    ("initializer", "LBRACE . RBRACE"): "braces around a scalar initialiser",
    ("initializer", "LBRACE . COMMA RBRACE"): "braces around a scalar initialiser",
    ("op", ". IV"): "operand spelling suffix of an immediate",
}


@rule("R15.6", "C15", "inlining loses no syntax: an alternative Lark inlines (?rule, one kept child, no alias) either only groups/terminates its child or sits below a construct every consumer rejects", min_instances=20)
def r15_6(ctx):
    idx = get_index(ctx.env)
    gm = get_grammar(ctx.env)
    cbs = transformer_callbacks(idx)

    def reach_without(block):
        seen, work = set(), ["fbody"]
        while work:
            r = work.pop()
            if r in seen or r not in gm.rules or r in block:
                continue
            seen.add(r)
            for a in gm.rules[r]:
                for n, t, _ in a.symbols:
                    if not t:
                        work.append(n)
        return seen

    full = reach_without(set())
    n = 0
    used_doms = set()
    for rname in sorted(full):
        for a in gm.rules[rname]:
            sh = gm.shape(a, cbs)
            toks = [nm for nm, t, f in a.symbols if t and f]
            if not sh[0].startswith("inline") or not toks:
                continue
            n += 1
            key = (rname, a.skeleton())
            lits = [gm.literal(t) or t for t in toks]
            if key in MEANING_FREE:
                ctx.check(f"inlined {rname}: {a.skeleton()}", True, MEANING_FREE[key], "grouping / terminator only", gm.where(rname), nontrivial=False)
                continue
            if key in INLINE_REVIEWED:
                dom, why = INLINE_REVIEWED[key]
                below = dom == rname or rname not in reach_without({dom})
                used_doms.add(dom)
                ctx.check(f"inlined {rname}: {a.skeleton()}", below, f"only reachable below `{dom}` ({why}), which every consumer rejects", "reachable without passing " + dom if not below else "ok", gm.where(rname))
                continue
            ctx.check(f"inlined {rname}: {a.skeleton()}", False, "alternative keeps its syntax (alias + callback, or more than one kept child)",
                      f"Lark replaces this alternative by its only child: the tokens {lits} vanish and nothing can reject or translate the construct", gm.where(rname))
    ctx.need(n >= 20, f"only {n} inlined alternatives with filtered tokens found")
    # the constructs named as dominators are rejected by every callback that receives them
    def tree(r, data):
        return AObj("Tree", {"data": data, "children": []}, label=f"Tree({data})", origin="tree")

    rejecting = [
        ("pointer declarator in a declaration", "declaration", lambda r: [mk_vt("T", True, 32), tree(r, "declarator")]),
        ("pointer declarator with initialiser", "init_declarator", lambda r: [tree(r, "declarator"), r.pure("items[1]", vt=mk_vt("t1", True, 32))]),
        ("initialiser list as initialiser", "init_declarator", lambda r: [Tok("IDENTIFIER", "a"), tree(r, "initializer_list")]),
        ("type name with an abstract declarator in a cast", "cast_expr", lambda r: [tree(r, "type_name"), r.pure("items[1]", vt=mk_vt("t1", True, 32))]),
        ("sizeof(type name)", "unary_expr", lambda r: [Tok("SIZEOF", "sizeof"), tree(r, "type_name")]),
        ("_Alignof(type name)", "unary_expr", lambda r: [Tok("ALIGNOF", "_Alignof"), tree(r, "type_name")]),
        ("compound literal", "postfix_expr", lambda r: [tree(r, "type_name"), tree(r, "initializer_list")]),
    ]
    # the callback the aliased alternatives are routed to (read from the grammar, whatever it is called)
    alias_cbs = set()
    for rname, skel in (("postfix_expr", ". LPAR RPAR"), ("direct_declarator", ". LSQB RSQB"), ("direct_declarator", ". LSQB MUL_OP RSQB"), ("direct_declarator", ". LPAR RPAR")):
        for a in gm.rules.get(rname, []):
            if a.skeleton() == skel and a.alias:
                alias_cbs.add(str(a.alias))
    for cb in sorted(alias_cbs):
        rejecting.append((f"call without arguments / array or function declarator (callback {cb})", cb, lambda r: [r.pure("items[0]", vt=mk_vt("t0", True, 32))]))
    for desc, cb, mk in rejecting:
        if cb not in cbs:
            ctx.check(f"{desc} is rejected", False, "raises", f"no callback `{cb}`", "rzilcompiler/Transformer/RZILTransformer.py")
            continue
        r = Runner(idx)
        r.fold = False
        fi, outs = r.run(cb, lambda r=r, mk=mk: mk(r))
        obs = sorted({("raises " + str(o.value)[:50]) if o.kind == "raise" else ("returns " + (o.value.cls if isinstance(o.value, AObj) else type(o.value).__name__)) for o in outs})
        ctx.check(f"{desc} is rejected", bool(outs) and all(o.kind == "raise" for o in outs), "raises on every path", "; ".join(obs), fn_where(idx, fi))
    # struct/union/enum specifiers: the type_specifier callback hands its child to the extension, which rejects unknown trees
    r = Runner(idx)
    fi, outs = r.run("type_specifier", lambda: [tree(r, "struct_or_union_specifier")])
    fwd = [e for o in outs for e in o.events if e[0] == "call" and e[1] == "ext.get_value_type_by_resource_type" and any(isinstance(x, AObj) and x.cls == "Tree" for x in _flat(e[2]))]
    ctx.check("type_specifier forwards its child to the extension's type table", bool(fwd) and len(fwd) >= len(outs), "ext.get_value_type_by_resource_type(items)", f"{len(fwd)} forwarding calls on {len(outs)} paths", fn_where(idx, fi))
    fx = idx.func("HexagonTransformerExtension.get_value_type_by_resource_type")
    for data in ("struct_or_union_specifier", "enum_specifier", "atomic_type_specifier"):
        outs = Interp(idx).explore(lambda i, data=data: i.call_function(fx, [[AObj("Tree", {"data": data, "children": []}, label=f"Tree({data})")]], self_obj=AObj("HexagonTransformerExtension", {}, label="ext")))
        ctx.check(f"type tree {data} is rejected by the extension", bool(outs) and all(o.kind == "raise" for o in outs), "raises", str([outcome_text(o)[:40] for o in outs]), fn_where(idx, fx))
    # the aliased alternatives are really kept apart from their child
    for rname, skel in (("postfix_expr", ". LPAR RPAR"), ("direct_declarator", ". LSQB RSQB"), ("direct_declarator", ". LSQB MUL_OP RSQB"), ("direct_declarator", ". LPAR RPAR")):
        alts = [a for a in gm.rules.get(rname, []) if a.skeleton() == skel]
        ctx.need(len(alts) == 1, f"alternative {rname}: {skel} not found")
        sh = gm.shape(alts[0], cbs)
        ctx.check(f"{rname}: {skel} reaches a rejecting callback", sh[0] == "call", "('call', <callback>)", str(sh), gm.where(rname))


@rule("R15.8", "C15", "a macro without a value (return type void) is invoked for what it does: its invocation must become an effect of the behaviour or be rejected - a value-only node disappears in statement position", min_instances=2)
def r15_8(ctx):
    idx = get_index(ctx.env)
    effectful = set(idx.subclasses("Effect")) | set(idx.subclasses("Hybrid"))
    for ret, groups in (("void", ("VOID",)), ("an integer", ("PURE",))):
        r = Runner(idx)

        def over():
            macro = AObj("Macro", {"name": "M", "qemu_name": "M", "return_type": mk_vt("tret", False, 32, groups), "param_types": [mk_vt("tp", False, 32)], "rzil_macro": "M"}, label="macro")
            return {"macros": {"M": macro}}

        fi, outs = r.run("macro_expr", lambda: ["M", r.pure("items[1]", vt=mk_vt("t1", False, 32))], self_over=over)
        ctx.need(outs, "macro_expr: no path")
        obs = []
        ok = True
        for o in outs:
            v = o.value
            if o.kind == "raise":
                obs.append("raises")
                continue
            cls = v.cls if isinstance(v, AObj) else type(v).__name__
            obs.append(cls)
            if ret == "void":
                ok = ok and cls in effectful
            else:
                ok = ok and cls == "MacroInvocation"
        ctx.check(f"macro_expr for a macro returning {ret}", ok, "an effect / hybrid node, or an exception" if ret == "void" else "MacroInvocation (a value)", " | ".join(sorted(set(obs))),
                  fn_where(idx, fi))
    # resource side: which bundled macros are void, and is any of them used as a statement of a bundled behaviour
    import json

    mp = ctx.env.repo / "Resources" / "Hexagon" / "qemu_rzil_macros.json"
    ctx.need(mp.is_file(), "anchor missing: Resources/Hexagon/qemu_rzil_macros.json")
    macros = json.loads(mp.read_text()).get("macros", {})
    voids = sorted(k for k, v in macros.items() if str(v.get("return_type")) == "void")
    ctx.check("bundled macro table read", len(macros) >= 20, ">= 20 macros", f"{len(macros)} macros, void: {voids}", "Resources/Hexagon/qemu_rzil_macros.json", nontrivial=False)


@rule("R15.9", "C15", "what is returned for an instruction is compiled from the trees handed in: no path returns a stored result; constant folders discard an operand only when nothing hangs on it (a temporary of `i++` / a call carries a pending effect)", min_instances=8)
def r15_9(ctx):
    from .c09 import r09_3
    from .c13 import r13_5

    r13_5(ctx)
    from .c06 import r06_8

    r06_8(ctx)  # every call / x++ in the text is an operation of its own: none is merged with a pending one that "looks the same"
    from .c09 import constant_condition_selection
    from .c17 import text_reaches_parser_unmodified

    constant_condition_selection(ctx)  # the arm C evaluates is the arm that is kept (with its side effects)
    text_reaches_parser_unmodified(ctx)
    # the arm a constant ?: condition does not select is rightly not evaluated (C11 6.5.15p4): its removal is no loss here
    r09_3(ctx, skip=("simplify_conditional_expr",))


@rule("R15.10", "C15", "the lexer drops nothing but white space: every %ignore terminal matches white-space characters only", min_instances=1)
def r15_10(ctx):
    from .c17 import maximal_munch_checks

    maximal_munch_checks(ctx)  # ... and it does not split ++ / -- into signs (the increment would vanish into a folded unary plus)
    gm = get_grammar(ctx.env)
    ctx.need(gm.ignore, "the grammar ignores no terminal at all (white space would be significant)")
    probes = ["{ RdV = 1; /* a */ RsV = 2; /* b */ RtV = 3; }", "RdV = 1; // note\nRsV = 2;", "a /* x */ b", "#if 0\nx = 1;\n#endif", "x = \"a b\";", " \t\n", "a\\\nb", "/**/", "//", "x;;y"]
    for name in sorted(gm.ignore):
        t = gm.terminals.get(name)
        ctx.need(t is not None, f"ignored terminal {name} not found")
        if t["kind"] == "str":
            swallowed = [t["value"]] if t["value"].strip() else []
        else:
            fl = 0
            for f in t["flags"]:
                fl |= {"i": re.I, "m": re.M, "s": re.S, "x": re.X}.get(f, 0)
            try:
                rx_ = re.compile(t["value"], fl)
            except re.error as e:
                ctx.need(False, f"ignored terminal {name} does not compile: {e}")
            swallowed = []
            for text in probes:
                for pos in range(len(text)):
                    m = rx_.match(text, pos)
                    if m and m.group(0).strip():
                        swallowed.append(m.group(0)[:40])
        ctx.check(f"%ignore {name}", not swallowed, "matches white space only", f"swallows {sorted(set(swallowed))[:3]}: code between two comments (or after `//`) would vanish without an exception" if swallowed else "white space only",
                  gm.where(name) if name in gm.text else gm.where("IDENTIFIER"))


@rule("R15.11", "C15", "an instruction is replaced by a NOP only when its (normalised) name IS on the no-op list - not when it merely begins like a listed name", min_instances=8)
def r15_11(ctx):
    from .c13 import r13_4

    r13_4(ctx)


@rule("R15.12", "C15", "a declaration with several declarators (`T a = 1, b = 2;`) is rejected, or every declarator's initialisation is part of what the callback hands on", min_instances=1)
def r15_12(ctx):
    from .c03 import declaration_with_several_declarators

    declaration_with_several_declarators(ctx)


@rule("R15.13", "C15", "nothing of a compound body is dropped when it is split into its parts (the text in front of the first marker belongs to the first part whatever it ends with)", min_instances=5)
def r15_13(ctx):
    from .c19 import compound_split_valuation

    compound_split_valuation(ctx)
