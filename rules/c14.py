"""C14 - compilation results do not depend on history or on earlier failures."""
from __future__ import annotations

import ast

from sa.larkmodel import get_grammar, transformer_callbacks
from sa.absint import AObj, Interp
from sa.pyindex import get_index, is_mutable_literal
from sa.report import PROP_ASSUMPTIONS, PROP_EXPLANATION, rule
from sa.stateflow import effects_of, summarise
from sa.symex import U, call_name, call_tail, paths_of

from .common import fn_where

PROP_EXPLANATION["C14"] = (
    "An inductive state argument: W = attributes of the long-lived objects (transformer, ops holder, extension) written by "
    "code reachable from any grammar callback, R = attributes restored by reset(); every attribute in W \\ R must be benign by a "
    "use analysis of its reads (flows only into generated names / its own update). Every public entry point that runs the shared "
    "transformer must leave it reset on every exit including exceptional ones (typestate over paths with exception edges). "
    "Class-level mutable containers and in-place stores to possibly shared type objects are inventoried against a reviewed table."
)
S = ("RZILTransformer", "ILOpsHolder", "HexagonTransformerExtension")


def callback_roots(ctx):
    idx = get_index(ctx.env)
    gm = get_grammar(ctx.env)
    cbs = transformer_callbacks(idx)
    names = {a.callback for alts in gm.rules.values() for a in alts if gm.shape(a, cbs)[0] == "call" or gm.shape(a, cbs)[0].startswith("inline-or-call")}
    return [idx.func(f"RZILTransformer.{n}") for n in sorted(names)]


def parent_map(fn):
    pm = {}
    for n in ast.walk(fn):
        for c in ast.iter_child_nodes(n):
            pm[c] = n
    return pm


def own_update_stmt(s, attr):
    """statement that only updates `<recv>.<attr>` (item store / augmented item store / rebind)."""
    if isinstance(s, (ast.Assign, ast.AugAssign)):
        tgts = s.targets if isinstance(s, ast.Assign) else [s.target]
        for t in tgts:
            base = t.value if isinstance(t, ast.Subscript) else t
            if not (isinstance(base, ast.Attribute) and base.attr == attr):
                return False
        return True
    return False


def local_flow_benign(fn, name, depth=0):
    """every use of local `name` is a generated-name f-string, an ordering key (set_num_id/set_name) or a return."""
    pm = parent_map(fn)
    returns = False
    for n in ast.walk(fn):
        if isinstance(n, ast.Name) and n.id == name and isinstance(n.ctx, ast.Load):
            p = pm.get(n)
            if isinstance(p, ast.FormattedValue):
                continue
            if isinstance(p, ast.Call) and call_tail(p) in ("set_num_id", "set_name"):
                continue
            if isinstance(p, ast.Return):
                returns = True
                continue
            return False, returns
    return True, returns


def read_is_benign(idx, eff, reach, depth=0):
    """classification of one read of a surviving attribute (see DESIGN R14.1)."""
    fn = eff.fn.node
    pm = parent_map(fn)
    n = eff.node
    p = pm.get(n)
    # (a) generated identifier
    q = p
    while q is not None and not isinstance(q, ast.stmt):
        if isinstance(q, ast.FormattedValue):
            return True, "builds a generated name"
        if isinstance(q, ast.Call) and ((isinstance(q.func, ast.Name) and q.func.id in ("str", "repr", "hex")) or (isinstance(q.func, ast.Attribute) and q.func.attr == "format")):
            return True, "builds a generated name"  # str(<counter>) / "...{}".format(<counter>): the value only ends up in text
        q = pm.get(q)
    # (b) own update
    stmt = n
    while stmt is not None and not isinstance(stmt, ast.stmt):
        stmt = pm.get(stmt)
    if stmt is not None and own_update_stmt(stmt, eff.attr):
        return True, "own update"
    # (c) controls only its own update
    if isinstance(stmt, ast.If):
        inside_test = any(x is n for x in ast.walk(stmt.test))
        if inside_test and all(own_update_stmt(s, eff.attr) for s in stmt.body + stmt.orelse):
            return True, "guards only its own update"
    # (d) getter: value copied to a local that is returned / used as ordering key
    if isinstance(stmt, ast.Assign) and len(stmt.targets) == 1 and isinstance(stmt.targets[0], ast.Name) and stmt.value is n:
        ok, returns = local_flow_benign(fn, stmt.targets[0].id)
        if ok and not returns:
            return True, "ordering key / generated name"
        if ok and returns and depth < 2:
            # every call site of this getter in reachable code must use the value benignly
            for fi in reach.values():
                for c in ast.walk(fi.node):
                    if isinstance(c, ast.Call) and call_tail(c) == eff.fn.name:
                        pm2 = parent_map(fi.node)
                        par = pm2.get(c)
                        if isinstance(par, ast.Assign) and len(par.targets) == 1 and isinstance(par.targets[0], ast.Name):
                            ok2, ret2 = local_flow_benign(fi.node, par.targets[0].id)
                            if not ok2 or ret2:
                                return False, f"value returned by {eff.fn.qual} is used in {fi.qual}"
                        elif isinstance(par, ast.Return) and depth < 1:
                            continue
                        elif isinstance(par, ast.FormattedValue) or (isinstance(par, ast.Call) and call_tail(par) in ("set_num_id", "set_name")):
                            continue
                        else:
                            return False, f"value returned by {eff.fn.qual} is used in {fi.qual}"
            return True, "getter whose value only orders / names"
    if isinstance(stmt, ast.Return) and stmt.value is n:
        return False, "returned to callers"
    return False, f"read in `{U(stmt)[:60] if stmt is not None else '?'}`"


@rule("R14.1", "C14", "reset completeness over all long-lived objects: attributes written during a transform and not restored by reset() are only used for generated names / their own update", min_instances=12)
def r14_1(ctx):
    idx = get_index(ctx.env)
    roots = callback_roots(ctx)
    ctx.need(len(roots) >= 40, f"only {len(roots)} grammar callbacks found")
    reach = idx.reachable(roots)
    tab = summarise(idx, reach.values())
    W = {k for k, v in tab.items() if k[0] in S and ("rebind" in v or "mutate" in v)}
    rr = idx.reachable([idx.func("RZILTransformer.reset")])
    ctx.need(len(rr) <= 12, f"reset() reaches {len(rr)} functions - call graph resolution changed")
    rt = summarise(idx, rr.values())
    R = {k for k, v in rt.items() if k[0] in S and ("rebind" in v or any(e.how.split(" via ")[0] == ".clear()" for e in v.get("mutate", [])))}
    ctx.need(len(W) >= 12, f"write set unexpectedly small: {sorted(W)}")
    for k in sorted(W):
        cls, attr = k
        writers = sorted({e.fn.qual for kind in ("rebind", "mutate") for e in tab[k].get(kind, [])})
        if k in R:
            ctx.check(f"{cls}.{attr} restored by reset()", True, "in reset set", f"written by {writers[:3]}", "rzilcompiler/Transformer/RZILTransformer.py", nontrivial=True)
            continue
        bad = []
        for e in tab[k].get("read", []):
            ok, why = read_is_benign(idx, e, reach)
            if not ok:
                bad.append(f"{e.fn.qual}: {why}")
        ctx.check(f"{cls}.{attr} survives reset()", not bad, "only benign uses (generated names, own update)", "; ".join(sorted(set(bad))[:4]) or "benign uses only",
                  fn_where(idx, tab[k].get("mutate", tab[k].get("rebind"))[0].fn))
    # the reset set itself must be reached from reset(): ext flags, holder containers, imm_set_effect_list
    ctx.check("reset() restores the three state holders", {c for c, _ in R} == set(S), str(sorted(S)), str(sorted({c for c, _ in R})), fn_where(idx, idx.func("RZILTransformer.reset")))


def reset_is_unconditional(ctx):
    """every path through RZILTransformer.reset() performs all resets (no early return, no condition)"""
    idx = get_index(ctx.env)
    fr = idx.func("RZILTransformer.reset")
    ps = [p for p in paths_of(fr.node) if p.outcome in ("return", "fallthrough", "end") or p.outcome not in ("raise",)]
    ctx.need(ps, "reset(): no path found")
    # what the unconditional path of today's reset() calls is the obligation of every path
    all_calls = [[call_name(e.node) for e in p.events if e.kind == "call"] for p in ps]
    union = sorted({c for cs in all_calls for c in cs if c})
    ctx.need(len(union) >= 3, f"reset() performs only {union}")
    for c in union:
        missing = [p.guard_text()[:60] or "(unconditional path)" for p, cs in zip(ps, all_calls) if c not in cs]
        ctx.check(f"every path through reset() calls {c}", not missing, "called on every path", f"skipped on the path under {missing[:2]}", fn_where(idx, fr))
    must = {"self.ext.reset_flags", "self.il_ops_holder.clear"}
    ctx.check("reset() resets the attribute flags and the operand holder", must <= set(union) or any("ILOpsHolder" in (c or "") for c in union) and "self.ext.reset_flags" in union,
              "ext.reset_flags() and a cleared (or fresh) holder", str(union), fn_where(idx, fr), nontrivial=False)


def reset_leaves_configuration_alone(ctx):
    """reset() undoes what a transform did; it does not touch what the user configured.  Every attribute reset() (or a reset method it
    calls on the transformer) re-binds is an attribute some method of the transform phase writes: an attribute that only the constructor
    writes and the callbacks read is configuration (the output layout, the architecture, the parameter list, the temporaries' prefix), and
    re-binding it in reset() makes the second compilation differ from the first."""
    idx = get_index(ctx.env)
    fr = idx.func("RZILTransformer.reset")
    c = fr.cls
    writers = {}
    readers = {}
    for fi in idx.funcs.values():
        if fi.cls != c or fi.name in ("__init__", "reset"):
            continue
        reads, rebinds, muts = idx.attr_effects(fi)
        for recv, attr in rebinds | muts:
            if recv == "self":
                writers.setdefault(attr, set()).add(fi.qual)
        for recv, attr in reads:
            if recv == "self":
                readers.setdefault(attr, set()).add(fi.qual)
    _, rebinds, _ = idx.attr_effects(fr)
    own = sorted(a for r, a in rebinds if r == "self")
    bad = [f"self.{a} (written by the constructor only, read by {sorted(readers.get(a, []))[:2]})" for a in own if a not in writers and a in readers]
    ctx.check("reset() re-binds only attributes the transform phase writes (never configuration)", not bad, "state of the last transform only", "; ".join(bad) or f"re-binds {own or 'nothing'}", fn_where(idx, fr))


def nodes_own_their_containers(ctx):
    """a node built for one behaviour shares no mutable container with the long-lived object it refers to (a call node with the routine,
    a macro invocation with the macro): what one behaviour adds to or removes from such a container would be seen by every later one"""
    from .common import mk_pure, mk_vt

    idx = get_index(ctx.env)
    specs = []

    def routine():
        return AObj("SubRoutine", {"name": "f", "routine_name": "f", "value_type": mk_vt("tret", False, 32), "references_set": set(), "ops": [], "effect_ops": [], "params": [],
                                   "isa_name": None, "reads": 0}, label="routine")
    specs.append(("SubRoutineCall", lambda r: [r, [mk_pure("arg", mk_vt("targ", False, 32))]], routine))

    def macro():
        return AObj("Macro", {"name": "M", "qemu_name": "M", "return_type": mk_vt("tret", False, 32), "param_types": [mk_vt("tp", False, 32)], "rzil_macro": "M"}, label="macro")
    specs.append(("MacroInvocation", lambda m: ["M", [mk_pure("arg", mk_vt("targ", False, 32))], m], macro))
    for cls, mk, mk_long in specs:
        fi = idx.resolve_method(cls, "__init__")
        ctx.need(fi is not None, f"{cls}.__init__ not found")
        box = {}

        def once(i, cls=cls, mk=mk, mk_long=mk_long):
            long_lived = mk_long()
            box["long"] = long_lived
            o = AObj(cls, {}, label="node")
            i.call_function(fi, mk(long_lived), self_obj=o)
            return o
        outs = Interp(idx).explore(once)
        shared = []
        for o in outs:
            if o.kind != "return" or not isinstance(o.value, AObj):
                shared.append(f"constructor did not finish: {str(o.value)[:40]}")
                continue
            mine = {k: v for k, v in o.value.fields.items() if isinstance(v, (list, set, dict))}
            theirs = {k: v for k, v in box["long"].fields.items() if isinstance(v, (list, set, dict))}
            for k, v in mine.items():
                for k2, v2 in theirs.items():
                    if v is v2:
                        shared.append(f"node.{k} is {box['long'].cls}.{k2}")
        ctx.check(f"{cls} shares no container with the object it refers to", not shared, "fresh containers", "; ".join(sorted(set(shared))) or "fresh containers", fn_where(idx, fi))


@rule("R14.6", "C14", "reset() is unconditional and reaches the state it is meant to reset: every path performs all resets; no other object keeps a private reference to state that reset() replaces; long-lived parameters render alike on every read", min_instances=6)
def r14_6(ctx):
    nodes_own_their_containers(ctx)
    idx = get_index(ctx.env)
    reset_is_unconditional(ctx)
    reset_leaves_configuration_alone(ctx)
    # aliasing: an attribute that some method other than the constructor re-binds must not be cached in another object
    rebound = {}
    for fi in idx.funcs.values():
        if fi.name == "__init__" or fi.cls is None:
            continue
        for n in ast.walk(fi.node):
            if isinstance(n, ast.Assign):
                for t in n.targets:
                    if isinstance(t, ast.Attribute) and isinstance(t.value, ast.Name) and t.value.id == "self" and not isinstance(n.value, ast.Constant):
                        rebound.setdefault((fi.cls, t.attr), []).append(fi)
    cached = []
    for fi in idx.funcs.values():
        if fi.cls is None:
            continue
        for n in ast.walk(fi.node):
            if isinstance(n, ast.Assign) and isinstance(n.value, ast.Attribute) and not (isinstance(n.value.value, ast.Name) and n.value.value.id == "self"):
                for t in n.targets:
                    if isinstance(t, ast.Attribute) and isinstance(t.value, ast.Name) and t.value.id == "self":
                        owners = [c for (c, a) in rebound if a == n.value.attr and c != fi.cls]
                        if owners:
                            cached.append((fi, n, owners))
    ctx.check("no object caches state that its owner later replaces", not cached, "objects reach shared state through its owner (self.transformer.il_ops_holder)",
              "; ".join(f"{fi.qual}:{n.lineno} keeps {U(n.value)} although {o[0]}.{n.value.attr} is re-bound by {sorted({f.qual for f in rebound[(o[0], n.value.attr)]})}" for fi, n, o in cached[:2]) or "ok",
              fn_where(idx, cached[0][0]) if cached else "rzilcompiler/")
    from .c12 import external_parameter_checks

    external_parameter_checks(ctx)
    # results of the other long-lived entry points are built in containers of the call itself
    from .c06 import pending_effect_placement
    from .c18 import parse_result_is_private
    from .c20 import merged_list_is_private

    pending_effect_placement(ctx)  # the order of pending effects does not depend on the numbers left in the never-reset counter

    parse_result_is_private(ctx)
    merged_list_is_private(ctx)


def is_shared_transformer_call(n, name):
    return isinstance(n, ast.Call) and call_name(n) == f"self.transformer.{name}"


@rule("R14.2", "C14", "entry-point typestate: every public Compiler method that runs the shared transformer leaves it reset on every exit, including exceptional ones", min_instances=2)
def r14_2(ctx):
    idx = get_index(ctx.env)
    ci = idx.cls("Compiler")
    n_entry = 0
    for mname, m in ci.methods.items():
        if not any(is_shared_transformer_call(n, "transform") for n in ast.walk(m)):
            continue
        n_entry += 1
        fi = idx.func(f"Compiler.{mname}")
        bad = []
        for p in paths_of(fi.node):
            evs = []
            for e in p.events:
                if e.kind == "call":
                    evs.append((call_name(e.node), e))
                elif e.kind == "loop":
                    # summarise the loop body: every body path must reset before it transforms
                    for bp in e.extra:
                        names = [call_name(x.node) for x in bp.events if x.kind == "call"]
                        if "self.transformer.transform" in names:
                            i = names.index("self.transformer.transform")
                            if "self.transformer.reset" not in names[:i]:
                                bad.append("a loop iteration transforms without a preceding reset")
                    evs.append(("@loop-with-transform" if any(call_name(x.node) == "self.transformer.transform" for bp in e.extra for x in bp.events if x.kind == "call") else "@loop", e))
                elif e.kind in ("exc-edge", "except"):
                    evs.append(("@exception", e))
            names = [n for n, _ in evs]
            dirty_points = [i for i, n in enumerate(names) if n in ("self.transformer.transform", "@loop-with-transform", "@exception")]
            # an exception edge inside a try whose body transforms also counts as "may have transformed"
            if not any(n in ("self.transformer.transform", "@loop-with-transform") for n in names) and "@exception" not in names:
                continue
            last = max(dirty_points) if dirty_points else -1
            if "self.transformer.reset" not in names[last + 1:]:
                bad.append(f"path [{p.outcome}] {p.guard_text()[:80]} ends without reset after {names[last] if last >= 0 else '?'}")
        ctx.check(f"Compiler.{mname} leaves the transformer reset on every exit", not bad, "reset() after the last transform on all paths (incl. exception edges)", "; ".join(sorted(set(bad))[:3]) or "ok", fn_where(idx, fi))
    # the shared transformer reached through another name (an alias, the value of a `with` block): the same obligation
    def resets(stmts, recvs):
        return any(isinstance(x, ast.Call) and isinstance(x.func, ast.Attribute) and x.func.attr == "reset" and U(x.func.value) in recvs for st in stmts for x in ast.walk(st))

    for mname, m in ci.methods.items():
        fi = idx.func(f"Compiler.{mname}")
        parents = {c: n for n in ast.walk(m) for c in ast.iter_child_nodes(n)}
        fresh_names = {U(t) for n in ast.walk(m) if isinstance(n, ast.Assign) and isinstance(n.value, ast.Call) and call_name(n.value) == "RZILTransformer" for t in n.targets}
        for n in ast.walk(m):
            if not (isinstance(n, ast.Call) and isinstance(n.func, ast.Attribute) and n.func.attr == "transform"):
                continue
            recv = U(n.func.value)
            if recv == "self.transformer" or recv in fresh_names:
                continue
            n_entry += 1
            cur, protected, how = n, False, "no enclosing try/finally (or resetting context manager)"
            while cur in parents and not protected:
                par = parents[cur]
                if isinstance(par, ast.Try) and cur in par.body and (resets(par.finalbody, {recv, "self.transformer"}) or any((h.type is None or U(h.type) in ("Exception", "BaseException")) and resets(h.body, {recv, "self.transformer"}) for h in par.handlers)):
                    protected = True
                if isinstance(par, ast.With):
                    for it in par.items:
                        cm = it.context_expr
                        if isinstance(cm, ast.Call) and isinstance(cm.func, ast.Attribute) and U(cm.func.value) == "self" and cm.func.attr in ci.methods:
                            g = ci.methods[cm.func.attr]
                            gp = {c: q for q in ast.walk(g) for c in ast.iter_child_nodes(q)}
                            for y in [q for q in ast.walk(g) if isinstance(q, (ast.Yield, ast.YieldFrom))]:
                                c2 = y
                                while c2 in gp:
                                    p2 = gp[c2]
                                    if isinstance(p2, ast.Try) and c2 in p2.body and resets(p2.finalbody, {"self.transformer"}):
                                        protected = True
                                    c2 = p2
                            if not protected:
                                how = f"the context manager {cm.func.attr}() resets only when its block ends normally (its yield is not inside try ... finally)"
                cur = par
            ctx.check(f"Compiler.{mname}: an exception inside {recv}.transform() still resets the shared transformer", protected, "try ... finally: reset() around the use (in the method or in its context manager)", how if not protected else "protected", fn_where(idx, fi))
    ctx.check("entry points that run the shared transformer", n_entry >= 2, "compile_c_stmt and transform_insn (at least)", str(n_entry), fn_where(idx, idx.func("Compiler.compile_c_stmt")), nontrivial=False)
    # any call may raise: every transform() on the shared transformer sits in a try whose finally (or catch-all handler) resets it
    for mname, m in ci.methods.items():
        fi = idx.func(f"Compiler.{mname}")
        parents = {}
        for n in ast.walk(m):
            for c in ast.iter_child_nodes(n):
                parents[c] = n
        for n in ast.walk(m):
            if is_shared_transformer_call(n, "transform"):
                cur, protected = n, False
                while cur in parents:
                    par = parents[cur]
                    if isinstance(par, ast.Try) and cur in par.body:
                        fin = any(is_shared_transformer_call(x, "reset") for s in par.finalbody for x in ast.walk(s))
                        hnd = any((h.type is None or U(h.type) in ("Exception", "BaseException")) and any(is_shared_transformer_call(x, "reset") for s in h.body for x in ast.walk(s)) for h in par.handlers)
                        if fin or hnd:
                            protected = True
                            break
                    cur = par
                ctx.check(f"Compiler.{mname}: an exception inside transform() still resets the transformer", protected, "transform() inside try ... finally: reset()", "no enclosing try/finally that resets" if not protected else "protected", fn_where(idx, fi))
    # entry points that build their own transformer must not touch the shared one
    fi = idx.func("Compiler.compile_sub_routine")
    uses_shared = [U(n) for n in ast.walk(fi.node) if isinstance(n, ast.Call) and (call_name(n) or "").startswith("self.transformer.")]
    fresh = any(isinstance(n, ast.Assign) and isinstance(n.value, ast.Call) and call_name(n.value) == "RZILTransformer" for n in ast.walk(fi.node))
    ctx.check("compile_sub_routine compiles on a fresh transformer", fresh and not uses_shared, "local RZILTransformer(...), no call on self.transformer", f"fresh={fresh}, shared calls={uses_shared}", fn_where(idx, fi))


REVIEWED_CLASS_LEVEL = {
    # (class, attr): reason it is harmless
    ("Compiler", "sub_routines"): "registry keyed by routine name, filled from the same resources by every instance",
    ("Compiler", "compiled_insns"): "write-only result cache keyed by instruction name (read only by the get_insn_* getters)",
    ("Compiler", "noped_insns"): "re-bound per instance in add_noped_insns before any use",
    ("Compiler", "parsed_insns"): "re-bound per instance in parse_shortcode",
    ("PreprocessorHexagon", "behaviors"): "registry keyed by instruction name, filled from the resolved shortcode file",
    ("PreprocessorHexagon", "patched_macros"): "never used",
}
REGISTRY_READERS = {
    ("Compiler", "compiled_insns"): {"Compiler.transform_insn", "Compiler.get_insn_rzil", "Compiler.get_insn_meta"},
    ("Compiler", "sub_routines"): {"Compiler.set_il_op_transformer", "Compiler.add_sub_routine", "Compiler.get_sub_routine", "Compiler.compile_sub_routine"},
    ("PreprocessorHexagon", "behaviors"): {"PreprocessorHexagon.load_insn_behavior", "PreprocessorHexagon.get_insn_behavior", "Compiler.parse_shortcode"},
}


MUTATORS = {"append", "extend", "insert", "add", "update", "setdefault", "pop", "remove", "clear", "sort", "reverse", "__setitem__"}


def registry_value_growth(fn: ast.AST, attr: str, cls: str):
    """sites where a value stored in the container `<x>.attr` is mutated in place (directly or through a local alias)."""
    def is_container(n):
        return isinstance(n, ast.Attribute) and n.attr == attr and isinstance(n.value, ast.Name) and n.value.id in ("self", "cls", cls)

    def is_entry(n):
        # d[k] | d.get(k...) | d.setdefault(k...)
        if isinstance(n, ast.Subscript) and is_container(n.value):
            return True
        if isinstance(n, ast.Call) and isinstance(n.func, ast.Attribute) and n.func.attr in ("get", "setdefault") and is_container(n.func.value):
            return True
        return False

    out = []
    aliases = set()
    nodes = sorted((n for n in ast.walk(fn) if hasattr(n, "lineno")), key=lambda n: (n.lineno, n.col_offset))
    for n in nodes:
        if isinstance(n, ast.Assign) and is_entry(n.value):
            for t in n.targets:
                if isinstance(t, ast.Name):
                    aliases.add(t.id)
        if isinstance(n, ast.Call) and isinstance(n.func, ast.Attribute) and n.func.attr == "setdefault" and is_container(n.func.value):
            out.append((n, f"{attr}.setdefault(...) keeps an entry of an earlier run"))

    def is_entry_or_alias(n):
        return is_entry(n) or (isinstance(n, ast.Name) and n.id in aliases)

    for n in nodes:
        if isinstance(n, ast.Call) and isinstance(n.func, ast.Attribute) and n.func.attr in MUTATORS and is_entry_or_alias(n.func.value):
            out.append((n, f"stored entry mutated by .{n.func.attr}()"))
        if isinstance(n, ast.AugAssign) and is_entry_or_alias(n.target):
            out.append((n, "stored entry grown by an augmented assignment"))
        if isinstance(n, ast.Assign):
            for t in n.targets:
                if isinstance(t, ast.Subscript) and is_entry_or_alias(t.value):
                    out.append((n, "element of a stored entry assigned"))
    return out


@rule("R14.3", "C14", "class-level mutable containers: inventory equals the reviewed table; registries are read only by their reviewed readers", min_instances=6)
def r14_3(ctx):
    idx = get_index(ctx.env)
    found = {}
    for cname, ci in idx.classes.items():
        if idx.is_enum(cname):
            continue
        for a, v in ci.class_attrs.items():
            if is_mutable_literal(v):
                found[(cname, a)] = v
    for k in sorted(found):
        ci = idx.cls(k[0])
        init = idx.resolve_method(k[0], "__init__")
        shadowed = init is not None and any(
            isinstance(n, ast.Assign) and any(isinstance(t, ast.Attribute) and t.attr == k[1] and U(t.value) == "self" for t in n.targets)
            for n in init.node.body)
        if shadowed:
            ctx.check(f"class-level container {k[0]}.{k[1]}", True, "re-bound unconditionally in __init__ (instances never share the class-level object)", "shadowed per instance",
                      f"{ci.path.relative_to(idx.repo)}:{ci.node.lineno}")
            continue
        ctx.check(f"class-level container {k[0]}.{k[1]}", k in REVIEWED_CLASS_LEVEL, "listed in the reviewed table", REVIEWED_CLASS_LEVEL.get(k, "new shared mutable state (one object for all instances)"),
                  f"{ci.path.relative_to(idx.repo)}:{ci.node.lineno}")
    # module-level mutable containers in non-test code
    for mod, binds in idx.module_bindings.items():
        for name, v in binds.items():
            if is_mutable_literal(v):
                used_mut = False
                for fi in idx.funcs.values():
                    if fi.module != mod:
                        continue
                    for n in ast.walk(fi.node):
                        if isinstance(n, ast.Name) and n.id == name:
                            used_mut = True
                if used_mut and name not in ("hexagon_isa_to_reg_args", "hexagon_isa_to_imm_args", "hexagon_isa_alias_to_op_args", "hexagon_isa_explicit_to_op_args", "hexagon_isa_n_reg_to_op_args"):
                    ctx.check(f"module-level container {mod.split('.')[-1]}.{name}", False, "no module-level mutable state used by functions", "used inside functions", f"{idx.paths[mod].relative_to(idx.repo)}")
    # re-bound per instance
    for (c, a) in (("Compiler", "noped_insns"), ("Compiler", "parsed_insns")):
        rebinds = [fi.qual for fi in idx.funcs.values() if fi.cls == c for e in effects_of(idx, fi) if e.cls == c and e.attr == a and e.kind == "rebind"]
        muts = [fi.qual for fi in idx.funcs.values() for e in effects_of(idx, fi) if e.cls == c and e.attr == a and e.kind == "mutate"]
        ctx.check(f"{c}.{a} is re-bound per instance and never mutated in place", bool(rebinds) and not muts, "rebinding only", f"rebinds={sorted(set(rebinds))} mutations={sorted(set(muts))}", "rzilcompiler/Compiler.py")
    # readers of the registries
    for (c, a), exp in REGISTRY_READERS.items():
        readers = set()
        for fi in idx.funcs.values():
            for e in effects_of(idx, fi):
                if e.cls == c and e.attr == a:
                    readers.add(fi.qual)
            # class-qualified access  Compiler.compiled_insns
            for n in ast.walk(fi.node):
                if isinstance(n, ast.Attribute) and n.attr == a and isinstance(n.value, ast.Name) and n.value.id == c:
                    readers.add(fi.qual)
        extra = readers - exp
        ctx.check(f"users of {c}.{a}", not extra, str(sorted(exp)), f"unreviewed users: {sorted(extra)}" if extra else "ok", "rzilcompiler/")
    # entries of the shared registries are replaced as a whole, never grown: a second load / compilation with the same
    # key must leave the same entry, not an accumulated one
    for (c, a) in REGISTRY_READERS:
        grow = []
        for fi in idx.funcs.values():
            grow += [(fi, n, why) for n, why in registry_value_growth(fi.node, a, c)]
        ctx.check(f"entries of {c}.{a} are replaced, never grown in place", not grow, "d[key] = freshly built value",
                  "; ".join(f"{fi.qual}:{n.lineno} {why}" for fi, n, why in grow[:3]) or "ok", fn_where(idx, grow[0][0]) if grow else "rzilcompiler/")
    # two Python idioms that create hidden cross-call state: mutable default arguments and memoising decorators
    mut_defaults, memo = [], []
    for fi in idx.funcs.values():
        if ".Tests" in fi.module or fi.module.endswith("Tests"):
            continue
        a = fi.node.args
        for d in list(a.defaults) + [x for x in a.kw_defaults if x is not None]:
            if is_mutable_literal(d) or (isinstance(d, ast.Call) and U(d.func) in ("dict", "list", "set", "defaultdict", "OrderedDict")):
                mut_defaults.append(f"{fi.qual}:{fi.node.lineno} default {U(d)}")
        for dec in fi.node.decorator_list:
            t = U(dec.func) if isinstance(dec, ast.Call) else U(dec)
            if t.split(".")[-1] in ("lru_cache", "cache", "cached_property"):
                memo.append(f"{fi.qual}:{fi.node.lineno} @{t}")
    lazy_state_checks(ctx)
    registry_commit_point(ctx)
    registry_entries_ignore_instance_settings(ctx)
    no_function_level_caches(ctx)
    ctx.check("no mutable default argument (one object shared by all calls)", not mut_defaults, "none", "; ".join(mut_defaults[:3]) or "none", "rzilcompiler/")
    ctx.check("no memoising decorator (results of earlier calls handed out again)", not memo, "none", "; ".join(memo[:3]) or "none", "rzilcompiler/")
    # an entry of the routine registry is handed out for exactly the name it was stored under (the store is `sub_routines[name] = ...`):
    # a look-up under a folded / normalised key answers with another routine's entry, depending on what was registered before
    cs = idx.func("Compiler.compile_sub_routine")
    npar = cs.node.args.args[1].arg
    handed = []
    for q in paths_of(cs.node):
        if q.outcome != "return" or q.value is None or isinstance(q.value, ast.Call) and call_name(q.value) == "SubRoutine":
            continue
        t = U(q.value)
        if "sub_routines" in t:
            ok_v = t in (f"self.sub_routines[{npar}]", f"self.sub_routines.get({npar})", f"Compiler.sub_routines[{npar}]")
            ok_g = any(pol and U(g) in (f"{npar} in self.sub_routines", f"{npar} in Compiler.sub_routines", f"{npar} in self.sub_routines.keys()") for g, pol in q.guards)
            handed.append((t, ok_v and ok_g, q.guard_text()[:80]))
    ctx.check("a registered routine is handed out under exactly the name it was stored under", all(ok_ for _, ok_, _ in handed), f"if {npar} in self.sub_routines: return self.sub_routines[{npar}]",
              "; ".join(f"returns {t} under [{g}]" for t, ok_, g in handed if not ok_)[:200] or f"{len(handed)} look-up path(s) ok", fn_where(idx, cs))
    # compile_insn must (re)compile, not return a cached result
    fi = idx.func("Compiler.compile_insn")
    rets = [p for p in paths_of(fi.node) if p.outcome == "return"]
    ok = rets and all(call_name(p.value) == "self.transform_insn" for p in rets)
    ctx.check("compile_insn always transforms", ok, "return self.transform_insn(...) on every path", str([U(p.value)[:60] for p in rets]), fn_where(idx, fi))
    # ... the trees filed under the very name it was asked for: compile_insn(n) is transform_insn(n, parsed_insns[n]), whatever other
    # entries the table holds (a look-up under a derived name answers with another instruction's trees when both are present)
    par = fi.node.args.args[1].arg if len(fi.node.args.args) > 1 else "insn_name"

    def is_own_entry(e, pname, depth=0):
        if isinstance(e, ast.Subscript) and U(e.value).endswith("parsed_insns") and U(e.slice) == pname:
            return True
        if depth < 2 and isinstance(e, ast.Call) and isinstance(e.func, ast.Attribute) and U(e.func.value) == "self" and idx.has_func(f"Compiler.{e.func.attr}") and len(e.args) == 1 and U(e.args[0]) == pname:
            h = idx.func(f"Compiler.{e.func.attr}")
            hp = h.node.args.args[1].arg if len(h.node.args.args) > 1 else None
            hr = [q for q in paths_of(h.node) if q.outcome == "return"]
            return bool(hr) and all(q.value is not None and is_own_entry(q.value, hp, depth + 1) for q in hr)
        return False
    bad = [U(p.value)[:80] for p in rets if not (isinstance(p.value, ast.Call) and len(p.value.args) == 2 and U(p.value.args[0]) == par and is_own_entry(p.value.args[1], par))]
    ctx.check("compile_insn transforms the trees filed under the name it was given", bool(rets) and not bad, f"self.transform_insn({par}, self.parsed_insns[{par}])", "; ".join(bad[:2]) or "ok", fn_where(idx, fi))
    fi = idx.func("Compiler.transform_insn")
    rets = [p for p in paths_of(fi.node) if p.outcome == "return"]
    early = [p for p in rets if not any(e.kind == "loop" for e in p.events)]
    ctx.check("transform_insn has no early return before compiling the parts", not early, "every return follows the per-part loop", str([p.guard_text()[:60] for p in early]), fn_where(idx, fi))


LAZY_ITERATORS = {"map", "filter", "zip", "iter", "reversed", "enumerate", "imap", "islice", "chain"}
AFTER_COMMIT_OK = {"log", "update_sub_routines", "update_macros", "print", "debug", "info", "warning", "reset"}  # reset: the clean-up in `finally`


def lazy_state_checks(ctx):
    """state that outlives one call can be consulted again: no attribute of a long-lived object (and no class-level name) is bound to a
    one-shot iterator - the first membership test or loop would consume it and the second would see something else"""
    idx = get_index(ctx.env)
    bad = []
    n = 0
    for fi in idx.funcs.values():
        if ".Tests" in fi.module or fi.cls is None:
            continue
        for node in ast.walk(fi.node):
            if not isinstance(node, (ast.Assign, ast.AnnAssign)) or node.value is None:
                continue
            tgts = node.targets if isinstance(node, ast.Assign) else [node.target]
            for t in tgts:
                if isinstance(t, ast.Attribute) and isinstance(t.value, ast.Name) and (t.value.id == "self" or t.value.id in idx.classes):
                    n += 1
                    v = node.value
                    lazy = isinstance(v, ast.GeneratorExp) or (isinstance(v, ast.Call) and U(v.func).split(".")[-1] in LAZY_ITERATORS)
                    if lazy:
                        bad.append(f"{fi.qual}:{node.lineno} {U(node)[:70]}")
    ctx.check("no attribute holds a one-shot iterator", not bad and n >= 100, "attributes are bound to re-iterable values (list / dict / set / tuple ...)", "; ".join(bad[:3]) or f"{n} attribute bindings inspected", "rzilcompiler/")


def no_function_level_caches(ctx):
    """no function keeps a result for later calls in a class attribute (written through the class name / cls) or a module global: what a
    call returns depends on its arguments and the current environment only (a memoised repository root, a cached table ... make the
    second use in one process depend on the first)"""
    idx = get_index(ctx.env)
    bad = []
    n = 0
    for fi in idx.funcs.values():
        if ".Tests" in fi.module:
            continue
        n += 1
        for node in ast.walk(fi.node):
            if isinstance(node, ast.Global):
                bad.append(f"{fi.qual}:{node.lineno} global {', '.join(node.names)}")
            tgts = node.targets if isinstance(node, ast.Assign) else [node.target] if isinstance(node, (ast.AugAssign, ast.AnnAssign)) else []
            for t in tgts:
                if isinstance(t, ast.Attribute) and isinstance(t.value, ast.Name) and (t.value.id in idx.classes or t.value.id == "cls"):
                    bad.append(f"{fi.qual}:{node.lineno} {U(node)[:60]}")
    ctx.check("no function stores into a class attribute or a module global", not bad and n >= 200, "none", "; ".join(bad[:3]) or f"{n} functions inspected", "rzilcompiler/")


def registry_commit_point(ctx):
    """an entry is put into a shared (class-level) registry only when everything that can fail has run: a call that fails after the
    store would leave the half-built entry behind for every later call and every other instance"""
    idx = get_index(ctx.env)
    n = 0
    for (c, a) in REGISTRY_READERS:
        for fi in idx.funcs.values():
            if ".Tests" in fi.module:
                continue
            stores = [nd for nd in ast.walk(fi.node) if isinstance(nd, ast.Assign) and any(isinstance(t, ast.Subscript) and isinstance(t.value, ast.Attribute) and t.value.attr == a
                                                                                            and isinstance(t.value.value, ast.Name) and t.value.value.id in ("self", c) for t in nd.targets)]
            if not stores or (fi.cls != c and not any(isinstance(t.value.value, ast.Name) and t.value.value.id == c for nd in stores for t in nd.targets if isinstance(t, ast.Subscript))):
                continue
            late = []
            for p in paths_of(fi.node):
                seen_store = None
                for e in p.events:
                    if e.kind == "store" and isinstance(e.node, ast.Subscript) and isinstance(e.node.value, ast.Attribute) and e.node.value.attr == a:
                        seen_store = e.lineno
                    elif seen_store is not None and e.kind == "call" and isinstance(e.node, ast.Call) and call_tail(e.node) not in AFTER_COMMIT_OK and e.lineno > seen_store:
                        late.append(f"line {e.lineno}: {U(e.node)[:50]} after the store in line {seen_store}")
            n += 1
            ctx.check(f"{fi.qual}: {c}.{a}[...] is stored after the last step that can fail", not late, "store, then only logging / handing the registry on",
                      "; ".join(sorted(set(late))[:3]) or "ok", fn_where(idx, fi))
    ctx.check("registry writers found", n >= 2, ">= 2 functions store into a shared registry", str(n), "rzilcompiler/", nontrivial=False)


def registry_entries_ignore_instance_settings(ctx):
    """what is put into a registry shared by all instances (a class-level container) is a function of the entry's own arguments and the
    registered resources: it never depends on a setting of the one instance that happens to fill the registry first (the settings are the
    attributes __init__ copies from its own parameters).  Parameters whose type has a single value are no settings."""
    idx = get_index(ctx.env)
    n = 0
    for (c, a) in REGISTRY_READERS:
        ci = idx.classes.get(c)
        if ci is None or a not in ci.class_attrs:
            continue
        init = idx.resolve_method(c, "__init__")
        ctx.need(init is not None, f"{c}.__init__ not found")
        params = {x.arg: x.annotation for x in init.node.args.args[1:] + init.node.args.kwonlyargs}
        settings = {}
        for nd in ast.walk(init.node):
            tv = [(t, nd.value) for t in nd.targets] if isinstance(nd, ast.Assign) else [(nd.target, nd.value)] if isinstance(nd, ast.AnnAssign) and nd.value is not None else []
            for t, v in tv:
                if isinstance(t, ast.Attribute) and isinstance(t.value, ast.Name) and t.value.id == "self" and isinstance(v, ast.Name) and v.id in params:
                    ann = params[v.id]
                    tname = U(ann).split(".")[-1] if ann is not None else None
                    if tname and idx.is_enum(tname) and len(idx.enum_table(tname)) <= 1:
                        continue
                    settings[t.attr] = v.id
        writers = []
        for fi in idx.funcs.values():
            if fi.cls != c:
                continue
            if any(isinstance(nd, ast.Assign) and any(isinstance(t, ast.Subscript) and isinstance(t.value, ast.Attribute) and t.value.attr == a for t in nd.targets) for nd in ast.walk(fi.node)):
                writers.append(fi)
        for w in writers:
            reach = {q: f for q, f in idx.reachable([w]).items() if f.cls == c}
            reach[w.qual] = w
            bad = []
            for q, f in sorted(reach.items()):
                for nd in ast.walk(f.node):
                    if isinstance(nd, ast.Attribute) and isinstance(nd.ctx, ast.Load) and isinstance(nd.value, ast.Name) and nd.value.id == "self" and nd.attr in settings:
                        bad.append(f"{q}:{nd.lineno} reads self.{nd.attr} (constructor parameter {settings[nd.attr]})")
            n += 1
            ctx.check(f"{w.qual}: what goes into the shared {c}.{a} does not depend on a setting of this instance", not bad, f"no read of {sorted('self.' + x for x in settings)} on the way",
                      "; ".join(bad[:3]) or f"{len(reach)} methods on the way, none reads a setting", fn_where(idx, w))
    ctx.check("writers of class-level registries found", n >= 1, ">= 1", str(n), "rzilcompiler/", nontrivial=False)


@rule("R14.4", "C14", "no in-place mutation of possibly shared/persistent type objects", min_instances=3)
def r14_4(ctx):
    from .shared import type_object_mutation

    type_object_mutation(ctx)


@rule("R14.5", "C14", "every behaviour part starts from a reset transformer (reset inside the per-part loop)", min_instances=2)
def r14_5(ctx):
    from .c13 import r13_5

    r13_5(ctx)


@rule("R14.7", "C14", "a transformation leaves the parse tree it was given unchanged (the trees of the instructions are kept and transformed again by a second call or a second compiler): the transformer derives from lark's copying Transformer, not from an in-place variant", min_instances=1)
def r14_7(ctx):
    idx = get_index(ctx.env)
    ci = idx.cls("RZILTransformer")
    mod = idx.modules[ci.module]
    real = {}
    for n in ast.walk(mod):
        if isinstance(n, ast.ImportFrom):
            for a in n.names:
                real[a.asname or a.name] = (n.module or "", a.name)
        elif isinstance(n, ast.Import):
            for a in n.names:
                real[a.asname or a.name] = (a.name, "")
    bases = []
    for b in ci.node.bases:
        t = U(b)
        head = t.split(".")[0]
        m, nm = real.get(head, ("", head))
        bases.append(f"{m}.{nm}" if t == head else f"{m or head}.{'.'.join(t.split('.')[1:])}")
    lark_bases = [b for b in bases if b.startswith("lark")]
    ok = lark_bases and all(b.rsplit(".", 1)[-1] == "Transformer" for b in lark_bases)
    ctx.check("RZILTransformer derives from lark's (copying) Transformer", bool(ok), "lark.Transformer / lark.visitors.Transformer", str(bases), fn_where(idx, idx.func("RZILTransformer.__init__")))
    # nobody writes into a parse tree: no store into .children / .data of a tree in the package
    bad = [f"{fi.qual}:{n.lineno} {U(n)[:60]}" for fi in idx.funcs.values() if ".Tests" not in fi.module for n in ast.walk(fi.node)
           if isinstance(n, (ast.Assign, ast.AugAssign)) for t in (n.targets if isinstance(n, ast.Assign) else [n.target])
           if isinstance(t, ast.Attribute) and t.attr in ("children",) or (isinstance(t, ast.Subscript) and isinstance(t.value, ast.Attribute) and t.value.attr == "children")]
    ctx.check("no function stores into the children of a parse tree", not bad, "trees are read only", "; ".join(bad[:3]) or "none", "rzilcompiler/")


@rule("R14.8", "C14", "the output layout is configuration, read where the text is laid out and nowhere else: no entry point switches it (a switch that is not undone on every exit changes all later results)", min_instances=4)
def r14_8(ctx):
    from .c16 import r16_1

    r16_1(ctx)
