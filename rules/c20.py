"""C20 - macro resolution pipeline: wiring, patch merge, do-while stripper, bundled artefacts."""
from __future__ import annotations

import ast
import re

from sa import rxmodel as rx
from sa.pyindex import get_index
from sa.report import PROP_ASSUMPTIONS, PROP_EXPLANATION, rule
from sa.symex import U, call_name, call_tail, paths_of

from .c19 import failed_match, find_re_call, group_uses, pattern_text
from .common import fn_where

PROP_EXPLANATION["C20"] = (
    "Only the structural clauses are decided: the file-role wiring of the pipeline (which InputFile each step reads and writes, "
    "step order), the patch-merge loop (same name regex on both sides, first occurrence replaced, later ones skipped, unmatched "
    "patches added), the guard-state machine of cleanup_macros at #else/#endif, the losslessness of the do-while stripper's regex "
    "and its fixpoint loop, and lints that relate the bundled artefacts to each other. Equality with standard C preprocessing "
    "(pcpp semantics) and reproducibility of the bundled file by re-running the pipeline are not decided statically."
)
PROP_ASSUMPTIONS["C20"] = ["pcpp implements standard C preprocessing", "the bundled intermediate files were produced by this pipeline"]
PP = "PreprocessorHexagon"


def getpaths(fn):
    """InputFile constants passed to Conf.get_path, in source order."""
    out = []
    for n in ast.walk(fn):
        if isinstance(n, ast.Call) and call_name(n) == "Conf.get_path" and n.args:
            out.append((n.lineno, n.col_offset, U(n.args[0]).replace("InputFile.", "")))
    return [x[2] for x in sorted(out)]


@rule("R20.1", "C20", "pipeline wiring: every step reads and writes the right artefact, in the right order", min_instances=8)
def r20_1(ctx):
    idx = get_index(ctx.env)
    f = lambda m: idx.func(f"{PP}.{m}")
    fi = f("run_preprocess_steps")
    calls = [call_name(n.value) for n in fi.node.body if isinstance(n, ast.Expr) and isinstance(n.value, ast.Call) and call_name(n.value).startswith("self.")]
    ctx.check("step order", calls == ["self.preprocess_macros", "self.preprocess_shortcode", "self.postprocess_shortcode"], "macros, shortcode, postprocess", str(calls), fn_where(idx, fi))
    # the shortcode that is resolved is the file the preprocessor was created for: the constructor's argument is stored once and the
    # combining step reads it from there (nobody re-binds it, e.g. to the configured default)
    init = f("__init__")
    iparams = {a.arg for a in init.node.args.args[1:]}
    cfg = {t.attr: n.value.id for n in ast.walk(init.node) if isinstance(n, (ast.Assign, ast.AnnAssign)) and n.value is not None and isinstance(n.value, ast.Name) and n.value.id in iparams
           for t in (n.targets if isinstance(n, ast.Assign) else [n.target]) if isinstance(t, ast.Attribute) and U(t.value) == "self"}
    ctx.check("the constructor stores the shortcode path it is given", len(cfg) >= 1, "self.<attr> = <parameter>", str(cfg), fn_where(idx, init))
    rebinds = [f"{g.qual}:{n.lineno} {U(n)[:70]}" for g in idx.funcs.values() if g.qual != init.qual and ".Tests" not in g.module for n in ast.walk(g.node)
               if isinstance(n, (ast.Assign, ast.AugAssign, ast.AnnAssign)) for t in (n.targets if isinstance(n, ast.Assign) else [n.target])
               if isinstance(t, ast.Attribute) and t.attr in cfg and (g.cls == PP or "preprocessor" in U(t.value).lower())]
    ctx.check("nobody re-binds the preprocessor's input path after construction", not rebinds, "stored by the constructor only", "; ".join(rebinds[:2]) or "constructor only", fn_where(idx, init))
    fs_ = f("preprocess_shortcode")
    opened = [U(n.args[0]) for n in ast.walk(fs_.node) if isinstance(n, ast.Call) and call_name(n) == "open" and n.args]
    ctx.check("the combining step reads the shortcode from the stored path", any(o == f"self.{a}" for o in opened for a in cfg), f"open(self.{next(iter(cfg), '?')})", str(opened), fn_where(idx, fs_))
    # every path through the driver runs all three steps: no exit before the last step, no step under a condition
    ps = paths_of(fi.node)
    steps = ("preprocess_macros", "preprocess_shortcode", "postprocess_shortcode")
    short = []
    for p in ps:
        seen = [call_tail(e.node) for e in p.events if e.kind == "call" and isinstance(e.node, ast.Call) and call_tail(e.node) in steps]
        if p.outcome != "raise" and seen != list(steps):
            short.append(f"[{p.guard_text()[:60]}] {p.outcome} after {seen}")
    ctx.check("every path through run_preprocess_steps regenerates all artefacts", bool(ps) and not short, "each non-raising path calls the three steps (no freshness shortcut: the artefacts depend on more inputs than any one test tracks)",
              "; ".join(short[:3]) or f"{len(ps)} path(s) ok", fn_where(idx, fi))
    fi = f("cleanup_macros")
    ctx.check("cleanup_macros inputs", getpaths(fi.node) == ["HEXAGON_PP_MACROS_INC", "HEXAGON_PP_MACROS_H", "HEXAGON_PP_MACROS_MMVEC_H"], "macros.inc, macros.h, macros_mmvec.h", str(getpaths(fi.node)), fn_where(idx, fi))
    fi = f("preprocess_macros")
    # (read off the path events, in which local names are replaced by what they were bound to)
    pths = [q for q in paths_of(fi.node) if q.outcome != "raise"]
    got = []
    for q in pths:
        got.append(sorted(U(e.node) for e in q.events if e.kind == "call" and isinstance(e.node, ast.Call) and call_tail(e.node) in ("writelines", "write")))
    want = ["open(Conf.get_path(InputFile.HEXAGON_PP_MACROS_PATCHED_H), 'w').writelines('\\n'.join(self.patch_macros(self.cleanup_macros())))"]
    ctx.check("preprocess_macros writes patch_macros(cleanup_macros()) to the patched macro file", bool(pths) and all(g == want for g in got),
              "open(MACROS_PATCHED, 'w').writelines('\\n'.join(patch_macros(cleanup_macros())))", str(got)[:200], fn_where(idx, fi))
    fi = f("patch_macros")
    ctx.check("patch_macros reads the patch file", getpaths(fi.node) == ["HEXAGON_PP_PATCHES_MACROS_H"], "patches_macros.h", str(getpaths(fi.node)), fn_where(idx, fi))
    fi = f("preprocess_shortcode")
    ctx.check("preprocess_shortcode file roles", getpaths(fi.node) == ["HEXAGON_PP_COMBINED_H", "HEXAGON_PP_MACROS_PATCHED_H", "HEXAGON_PP_SHORTCODE_RESOLVED_TMP_H", "HEXAGON_PP_MACROS_PATCHED_H", "HEXAGON_PP_SHORTCODE_RESOLVED_TMP_H", "HEXAGON_PP_SHORTCODE_RESOLVED_H"],
              "combined <- patched + shortcode; run 1: combined -> resolved_tmp; run 2: patched + resolved_tmp -> resolved", str(getpaths(fi.node)), fn_where(idx, fi))
    argvs = [n.value for n in ast.walk(fi.node) if isinstance(n, ast.Assign) and U(n.targets[0]) == "argv" and isinstance(n.value, ast.List)]
    shapes = [[("-o" if (isinstance(e, ast.Constant) and e.value == "-o") else "name" if isinstance(e, ast.Constant) else "path") for e in a.elts] for a in argvs]
    ctx.check("pcpp argument vectors", shapes == [["name", "path", "-o", "path"], ["name", "path", "path", "-o", "path"]], "[script, combined, -o, tmp] / [script, patched, tmp, -o, resolved]", str(shapes), fn_where(idx, fi))
    runs = [n for n in ast.walk(fi.node) if isinstance(n, ast.Call) and U(n.func) == "pcpp.pcmd.CmdPreprocessor"]
    ctx.check("pcpp runs twice, each on the vector built just before", len(runs) == 2 and all(U(r.args[0]) == "argv" for r in runs), "2 x CmdPreprocessor(argv)", str([U(r)[:50] for r in runs]), fn_where(idx, fi))
    # combined = patched macros, newline, shortcode
    wcalls = sorted((n for n in ast.walk(fi.node) if isinstance(n, ast.Call) and call_tail(n) in ("writelines", "write")), key=lambda n: (n.lineno, n.col_offset))
    shape = [(call_tail(n), "readlines" if (n.args and isinstance(n.args[0], ast.Call) and call_tail(n.args[0]) == "readlines") else U(n.args[0]) if n.args else "") for n in wcalls]
    one_out = len({U(n.func.value) for n in wcalls}) == 1
    opens = [U(n.args[0]) for n in sorted((n for n in ast.walk(fi.node) if isinstance(n, ast.Call) and call_name(n) == "open"), key=lambda n: (n.lineno, n.col_offset))]
    ctx.check("combined file = patched macros + newline + shortcode", shape == [("writelines", "readlines"), ("write", "'\\n'"), ("writelines", "readlines")] and one_out and opens[1:2] == ["Conf.get_path(InputFile.HEXAGON_PP_MACROS_PATCHED_H)"] and len(opens) == 3 and opens[2] in {f"self.{a}" for a in cfg},
              "macros, '\\n', shortcode written to the combined file", f"{shape} opens={opens}", fn_where(idx, fi))
    fi = f("remove_onetime_do_whiles")
    ctx.check("do-while stripper rewrites the resolved file in place", getpaths(fi.node) == ["HEXAGON_PP_SHORTCODE_RESOLVED_H"] and [U(n.args[1]) for n in ast.walk(fi.node) if isinstance(n, ast.Call) and call_name(n) == "open" and len(n.args) > 1] == ["'w'"],
              "read RESOLVED, write RESOLVED", str(getpaths(fi.node)), fn_where(idx, fi))
    # for <x> in <file>.readlines(): <list>.append(self.replace_do_while_0(<x>)) ... <file>.writelines(<list>)
    line_loops = [n for n in ast.walk(fi.node) if isinstance(n, ast.For) and isinstance(n.iter, ast.Call) and call_tail(n.iter) == "readlines" and isinstance(n.target, ast.Name)]
    shape = "no loop over the file's lines"
    good = False
    if len(line_loops) == 1:
        lp = line_loops[0]
        apps = [n for n in ast.walk(lp) if isinstance(n, ast.Call) and call_tail(n) == "append" and len(n.args) == 1 and isinstance(n.args[0], ast.Call) and call_tail(n.args[0]) == "replace_do_while_0"
                and len(n.args[0].args) == 1 and isinstance(n.args[0].args[0], ast.Name) and n.args[0].args[0].id == lp.target.id]
        skips = [n for n in ast.walk(lp) if isinstance(n, (ast.Continue, ast.Break, ast.If))]
        written = [U(n.args[0]) for n in ast.walk(fi.node) if isinstance(n, ast.Call) and call_tail(n) == "writelines" and n.args]
        good = len(apps) == 1 and not skips and written == [U(apps[0].func.value)]
        shape = f"appends={len(apps)} conditional statements in the loop={len(skips)} written={written}"
    ctx.check("every line goes through replace_do_while_0", good, "every line of the file is replaced by replace_do_while_0(line), the list of results is written back", shape, fn_where(idx, fi))
    fi = f("postprocess_shortcode")
    calls = [call_name(n.value) for n in fi.node.body if isinstance(n, ast.Expr) and isinstance(n.value, ast.Call)]
    ctx.check("postprocess runs the do-while stripper", calls == ["self.remove_onetime_do_whiles"], "remove_onetime_do_whiles", str(calls), fn_where(idx, fi))
    fl = idx.func(f"{PP}.load_insn_behavior")
    ctx.check("the loader reads the resolved file", getpaths(fl.node) == ["HEXAGON_PP_SHORTCODE_RESOLVED_H"], "RESOLVED", str(getpaths(fl.node)), fn_where(idx, fl))
    tbl = idx.enum_table("InputFile")
    exp = {"HEXAGON_PP_COMBINED_H": "combined.h", "HEXAGON_PP_MACROS_H": "macros.h", "HEXAGON_PP_MACROS_MMVEC_H": "macros_mmvec.h", "HEXAGON_PP_MACROS_INC": "macros.inc", "HEXAGON_PP_PATCHES_MACROS_H": "patches_macros.h",
           "HEXAGON_PP_SHORTCODE_H": "shortcode.h", "HEXAGON_PP_SHORTCODE_RESOLVED_H": "shortcode_resolved.h", "HEXAGON_PP_SHORTCODE_RESOLVED_TMP_H": "shortcode_resolved_tmp.h", "HEXAGON_PP_MACROS_PATCHED_H": "macros_patched.h"}
    got = {k: (tbl.get(k) or "").rsplit("/", 1)[-1] for k in exp}
    ctx.check("InputFile names", got == exp, str(exp), str(got), "rzilcompiler/Configuration.py")


def patch_merge_valuation(ctx):
    """patch_macros evaluated as a whole on small macro / patch sets (the patch file is a stub): every `#define` line of the patch file is a
    patch - also one without replacement text (an empty object-like macro is a definition like any other) -, a later patch of a name
    overrides an earlier one, the first original of a patched name is replaced and later ones dropped, unmatched patches are added"""
    from sa.absint import AObj, Interp, Opaque, OpaqueMethod

    idx = get_index(ctx.env)
    fi = idx.func(f"{PP}.patch_macros")
    scenarios = [
        ("patch with and without replacement text, duplicate patch, user-only patch",
         ["#define fA(X) \\\n", "   (X+1)\n", "#define fB\n", "// c\n", "#define fNEW(Y) Y\n", "#define fA(X) (X+2)\n"],
         ["#define fA(X) old", "#define fC 3", "#define fB 7", "#define fA(X) old2"]),
        ("empty function-like and empty object-like patches", ["#define fF(A, B)\n", "#define G\n", "\n", "#define H 1\n"], ["#define G g", "#define fF(A, B) body", "#define K k", "#define G g2"]),
        ("no patch applies", ["// nothing\n"], ["#define A 1", "#define B 2"]),
    ]

    def oracle(patch_lines, macros):
        text = re.sub(r"\\\s*\n", "", "".join(patch_lines))
        patches = {}
        for ln in text.split("\n"):
            m = re.match(r"#define\s+(\w+)", ln)
            if m:
                patches[m.group(1)] = ln
        body, done = [], set()
        for mac in macros:
            nm = re.match(r"#define\s+(\w+)", mac).group(1)
            if nm in done:
                continue
            if nm in patches:
                body.append(patches.pop(nm))
                done.add(nm)
            else:
                body.append(mac)
        return set(patches.values()), body

    for name, patch_lines, macros in scenarios:
        def hook(i, callee, a, k, t, patch_lines=patch_lines):
            if t.startswith("Conf.get_path("):
                return Opaque(t)
            if isinstance(callee, OpaqueMethod) and callee.attr == "readlines":
                return list(patch_lines)
            if isinstance(callee, OpaqueMethod) and callee.attr == "read":
                return "".join(patch_lines)
            return NotImplemented
        try:
            outs = Interp(idx, call_hook=hook).explore(lambda i, macros=macros: i.call_function(fi, [list(macros)], self_obj=AObj(PP, {}, label="self")))
        except Exception as e:  # the function left the fragment the interpreter reads: no verdict from this instance
            ctx.need(False, f"patch_macros not evaluable: {type(e).__name__}: {e}")
        extra, body = oracle(patch_lines, macros)
        got = [o.value if o.kind == "return" else "RAISE" for o in outs]
        ok = len(got) == 1 and isinstance(got[0], list) and set(got[0][:len(extra)]) == extra and got[0][len(extra):] == body
        ctx.check(f"patch merge [{name}]", ok, f"{sorted(extra)} + {body}", str(got)[:300], fn_where(idx, fi))


@rule("R20.2", "C20", "patch merge: patches and originals keyed by the same name regex; first occurrence replaced, later ones skipped, unmatched patches added", min_instances=6)
def r20_2(ctx):
    idx = get_index(ctx.env)
    fi = idx.func(f"{PP}.patch_macros")
    w = fn_where(idx, fi)
    pats = [pattern_text(c.args[0]) for c in find_re_call(fi.node, names=("search", "match"), idx=idx, cls=PP)]
    name_pats = [p for p in pats if p and "(" in p]
    # (evaluated on probe definitions: every name pattern used here extracts the macro's name, the same one at every site)
    probes = {"#define fFOO(A) (A)": "fFOO", "#define  BAR 1": "BAR", "#define f_x1(A, B) \\": "f_x1", "#define fLSBNEW0 predlog_read(thread,0)": "fLSBNEW0", "#define X": "X",
              "#define fSATN(N,VAL) fSAT(VAL) /* x */": "fSATN", "#define A1": "A1"}
    bad = []
    for pt in name_pats:
        try:
            rx_ = re.compile(pt)
        except re.error as e:
            bad.append(f"{pt!r}: {e}")
            continue
        for text, name in probes.items():
            m = rx_.search(text)
            got = m.group(1) if m and m.groups() else None
            if got != name:
                bad.append(f"{pt!r} reads {got!r} out of {text!r}")
    ctx.check("one name regex for patches and originals", 1 <= len(name_pats) <= 2 and not bad, "every site extracts the macro name (the word behind #define) the same way", "; ".join(bad[:3]) or str(name_pats), w)
    patch_merge_valuation(ctx)
    ps = paths_of(fi.node)
    loops = [e for p in ps for e in p.events if e.kind == "loop" and U(e.node[2]) == "macros"]
    ctx.need(loops, "patch_macros: loop over the original macros not found")
    lp = loops[0]
    kinds = {}
    for bp in lp.extra:
        calls = [U(e.node) for e in bp.events if e.kind == "call"]
        stores = [U(e.node) for e in bp.events if e.kind == "store"]
        appends = [c for c in calls if ".append(" in c]
        g = bp.guard_text()
        if bp.outcome == "continue":
            kinds["skip"] = (g, appends, stores)
        elif any(".pop(" in c for c in appends):
            kinds["replace"] = (g, appends, stores)
        else:
            kinds["keep"] = (g, appends, stores)
    ctx.check("merge loop has three cases (skip later duplicates / replace first occurrence / keep)", set(kinds) == {"skip", "replace", "keep"}, "skip, replace, keep", str(sorted(kinds)), w)
    done = None
    if "replace" in kinds:
        g, ap, st = kinds["replace"]
        done = next((s.split("[", 1)[0] for s in st if "[" in s), None)
        pdict = ap[0].split(".pop(", 1)[0].rsplit("(", 1)[-1] if ap else None
        ctx.check("first occurrence is replaced by the patch and remembered", len(ap) == 1 and ".pop(" in ap[0] and done is not None and pdict is not None and f"in {pdict}" in g,
                  "merged.append(<patches>.pop(name)); <done>[name] = ...", f"appends={[a[:60] for a in ap]} stores={[s[:40] for s in st]}", w)
    if "skip" in kinds:
        g, ap, st = kinds["skip"]
        ctx.check("later definitions of an already patched macro are skipped", done is not None and f"in {done})" in g and not ap, "guard `name in <done>` (the dictionary the replace case fills), nothing appended", f"{g[:80]} appends={ap}", w)
    if "keep" in kinds:
        g, ap, st = kinds["keep"]
        ctx.check("unpatched macros are kept unchanged", len(ap) == 1 and ap[0].endswith(".append(macro@iter)"), "patched.append(macro)", str([a[:60] for a in ap]), w)
    # the merged list belongs to this call (a list kept on the object or the class would carry macros of an earlier run)
    appended = {U(n.func.value) for n in ast.walk(fi.node) if isinstance(n, ast.Call) and isinstance(n.func, ast.Attribute) and n.func.attr in ("append", "insert") and isinstance(n.func.value, (ast.Name, ast.Attribute))}
    fresh = {U(n.targets[0]) for n in ast.walk(fi.node) if isinstance(n, ast.Assign) and (isinstance(n.value, ast.List) and not n.value.elts or (isinstance(n.value, ast.Call) and U(n.value.func) == "list" and not n.value.args))}
    ctx.check("the merged macro list is created by this call", bool(appended) and appended <= fresh, "every list that is appended to starts as [] / list() in patch_macros", f"appended to: {sorted(appended)}; fresh: {sorted(fresh)}", w)
    tails = [e for p in ps for e in p.events if e.kind == "loop" and ".values()" in U(e.node[2])]
    ok = bool(tails) and all(len(bp.events) == 1 and ".insert(0" in U(bp.events[0].node) for bp in tails[0].extra)
    ctx.check("patches that replace nothing are added", ok, "for m in patches.values(): patched.insert(0, m)", "missing" if not ok else "ok", w)
    rets = [U(p.value) for p in ps if p.outcome == "return"]
    ctx.check("patch_macros returns the merged list", bool(rets) and all(r.startswith("@loopphi(list()") or r == "patched" or "patched" in r or r.startswith("@loopphi([]") for r in rets), "patched", str(rets)[:100], w)
    # line continuations of the patch file are joined before the name regex is applied
    subs = [U(n) for n in ast.walk(fi.node) if isinstance(n, ast.Call) and call_name(n) == "re.sub"]
    ctx.check("patch file: continuation lines joined", subs == ["re.sub('\\\\\\\\\\\\s*\\\\n', '', cont)"], r"re.sub(r'\\\s*\n', '', cont)", str(subs), w)


@rule("R20.3", "C20", "do-while(0) stripper: only `do`, braces, `while`, `(0)` and whitespace are removed; the three text segments are rebuilt in order; repeated to a fixpoint", min_instances=4)
def r20_3(ctx):
    idx = get_index(ctx.env)
    fi = idx.func(f"{PP}.replace_do_while_0")
    w = fn_where(idx, fi)
    calls = find_re_call(fi.node, names=("search", "match", "sub", "fullmatch"), idx=idx, cls=PP)
    pats = [pattern_text(c.args[0]) for c in calls]
    ctx.check("one pattern, used for the first match and for every further round", len(pats) == 2 and len(set(pats)) == 1 and all(c.func.attr == "search" for c in calls), "2 x re.search(<same pattern>)", str([(c.func.attr, p) for c, p in zip(calls, pats)]), w)
    ctx.need(pats and pats[0], "replace_do_while_0: pattern not found")
    atoms = rx.parse(pats[0])
    shape = rx.describe(atoms)
    exp = "G1(ANY{0,inf}) 'do' CLASS{0,inf} '{' G2(ANY{0,inf}) '}' CLASS{0,inf} 'while' CLASS{0,inf} '(0)' G3(ANY{0,inf})"
    ctx.check("stripper regex shape", shape == exp, exp, shape, w)
    unc = [a for a in rx.uncaptured_nonliterals(atoms)]
    ws_only = True
    for a in atoms:
        if a.kind == "repeat" and a.inner and a.inner[0].kind == "class":
            c = a.inner[0]
            ws_only &= rx.class_matches(c, " ") and rx.class_matches(c, "\t") and not rx.class_matches(c, "a") and not rx.class_matches(c, ";") and not rx.class_matches(c, "{")
    ctx.check("uncaptured consuming atoms are whitespace only", ws_only and len(unc) == 3, "3 x \\s*", f"{unc} whitespace-only={ws_only}", w)
    # rebuild and loop
    whiles = [n for n in ast.walk(fi.node) if isinstance(n, ast.While)]
    ctx.check("stripping repeats until nothing matches", len(whiles) == 1 and isinstance(whiles[0].test, ast.Name), "while <match>:", str([U(x.test) for x in whiles]), w)
    if whiles:
        body = whiles[0].body
        assigns = {U(s.targets[0]): s.value for s in body if isinstance(s, ast.Assign)}
        mvar = U(whiles[0].test)
        line_var, tmp = next(((k, v2) for k, v2 in assigns.items() if k != mvar and group_uses(v2, None)), (None, None))
        ok = tmp is not None and group_uses(tmp, None) == [1, 2, 3] and not [c for c in ast.walk(tmp) if isinstance(c, ast.Constant) and isinstance(c.value, str)]
        ctx.check("rebuilt line = group 1 + group 2 + group 3", ok, "m.group(1) + m.group(2) + m.group(3)", U(tmp) if tmp is not None else "?", w)
        nxt = assigns.get(mvar)
        ctx.check("next round searches the rebuilt line", nxt is not None and isinstance(nxt, ast.Call) and U(nxt.args[1]) == line_var, "m = re.search(pattern, <rebuilt line>)", U(nxt)[:70] if nxt is not None else "?", w)
    ps = paths_of(fi.node)
    rets = [p for p in ps if p.outcome == "return"]
    param = fi.node.args.args[0].arg
    unchanged = [p for p in rets if p.value is not None and U(p.value) == param]
    is_rx = lambda g: isinstance(g, ast.Call) and call_tail(g) in ("search", "match", "fullmatch")
    unlicensed = [p for p in unchanged if not any(failed_match(g, pol, is_rx) for g, pol in p.guards)]
    ctx.check("the input is returned unchanged only when the stripper regex itself finds nothing", not unlicensed, "every `return <input>` path is guarded by a failed regex search",
              "; ".join(p.guard_text()[:80] for p in unlicensed) or "ok", w)
    nomatch = [p for p in rets if any(failed_match(g, pol, is_rx) for g, pol in p.guards) and not any(e.kind == "loop" for e in p.events)]
    ctx.check("a line without the pattern is returned unchanged", len(nomatch) == 1 and U(nomatch[0].value) == fi.node.args.args[0].arg, "return code", str([U(p.value)[:40] for p in nomatch]), w)


@rule("R20.5", "C20", "cleanup_macros guard state: #else / #endif of a skipped block re-enables copying for both kinds of guarded blocks", min_instances=2)
def r20_5(ctx):
    guarded_block_table(ctx)
    idx = get_index(ctx.env)
    fi = idx.func(f"{PP}.cleanup_macros")
    w = fn_where(idx, fi)
    ps = paths_of(fi.node)
    inner = []

    def collect(events):
        for e in events:
            if e.kind == "loop":
                if "readlines" in U(e.node[2]):
                    inner.append(e)
                for bp in e.extra:
                    collect(bp.events)

    for p in ps:
        collect(p.events)
    ctx.need(inner, "cleanup_macros: per-line loop not found")
    n = 0
    seen_else = seen_endif = False
    for lp in inner[:1]:
        for bp in lp.extra:
            pats = [pattern_text(g.args[0]) for g, pol in bp.guards if pol and isinstance(g, ast.Call) and call_name(g) == "re.match" and g.args]
            hit = [p for p in pats if p and ("#else" in p or "#endif" in p)]
            if not hit:
                continue
            seen_else |= any("#else" in p for p in hit)
            seen_endif |= any("#endif" in p for p in hit)
            n += 1
            flags = {}
            for name in ("in_qemu_gen", "in_user_only"):
                v = bp.env.get(name)
                unchanged = isinstance(v, ast.Name) and v.id == f"{name}@loop"
                known_false = any((not pol) and name in U(g) and "re." not in U(g) for g, pol in bp.guards)
                flags[name] = "False" if (isinstance(v, ast.Constant) and v.value is False) else ("False (guard)" if unchanged and known_false else ("unchanged" if unchanged else U(v)))
            ok = all(v.startswith("False") for v in flags.values())
            ctx.check(f"after {hit[0]} [{bp.guard_text()[-60:]}] both skip flags are off", ok and bp.outcome == "continue", "in_qemu_gen = in_user_only = False; directive line itself dropped", f"{flags}, then {bp.outcome}", w)
    ctx.check("#else and #endif are both handled", seen_else and seen_endif and n >= 2, "both directives end a skipped block", f"else={seen_else} endif={seen_endif} paths={n}", w)
    # block openers
    opens = {}
    for lp in inner[:1]:
        for bp in lp.extra:
            for g, pol in bp.guards:
                if pol and isinstance(g, ast.Call) and call_name(g) == "re.match":
                    p = pattern_text(g.args[0])
                    if p in ("#ifdef QEMU_GENERATE", "#ifdef CONFIG_USER_ONLY"):
                        v = {k: U(bp.env.get(k)) for k in ("in_qemu_gen", "in_user_only")}
                        opens[p] = v
    ctx.check("guarded block openers set their own flag", opens.get("#ifdef QEMU_GENERATE", {}).get("in_qemu_gen") == "True" and opens.get("#ifdef CONFIG_USER_ONLY", {}).get("in_user_only") == "True",
              "QEMU_GENERATE -> in_qemu_gen, CONFIG_USER_ONLY -> in_user_only", str(opens), w)


@rule("R20.4", "C20", "bundled artefacts are consistent with each other (no surviving macro invocation, no do-while(0), names one-to-one, effective patches present)", min_instances=2000)
def r20_4(ctx):
    d = ctx.env.repo / "Resources" / "Hexagon" / "Preprocessor"
    rel = "Resources/Hexagon/Preprocessor/"
    need = ["macros_patched.h", "shortcode_resolved.h", "shortcode.h", "patches_macros.h"]
    for n in need:
        ctx.need((d / n).is_file(), f"anchor missing: {rel}{n}")
    mp = (d / "macros_patched.h").read_text().split("\n")
    defs = {}
    for l in mp:
        m = re.match(r"^#define\s+([\w_]*)", l)
        if m:
            defs.setdefault(m.group(1), []).append(l)
    res_lines = [l for l in (d / "shortcode_resolved.h").read_text().splitlines() if l and l[0] != "#"]
    res_names = []
    macro_names = set(defs)
    for ln, l in enumerate(res_lines, 1):
        m = re.match(r"insn\((\w+), (.+)\)$", l, re.ASCII)
        if not m:
            ctx.check(f"resolved line {ln}", False, "insn(NAME, BODY)", l[:50], rel + "shortcode_resolved.h")
            continue
        name, body = m.group(1), m.group(2)
        res_names.append(name)
        toks = set(re.findall(r"[A-Za-z_]\w*", body))
        left = sorted(toks & macro_names)
        dw = bool(re.search(r"\bdo\s*\{", body)) or bool(re.search(r"while\s*\(0\)", body))
        ctx.check(f"resolved {name}", not left and not dw, "no invocation of a defined macro, no do-while(0) wrapper", (f"macros left: {left[:4]} " if left else "") + ("do-while(0) left" if dw else "") or "ok", rel + "shortcode_resolved.h", nontrivial=False)
    sc_names = re.findall(r"^DEF_SHORTCODE\((\w+),", (d / "shortcode.h").read_text(), re.M)
    ctx.check("instruction names preserved one-to-one and in order", sc_names == res_names, f"{len(sc_names)} names of shortcode.h", f"{len(res_names)} names; first difference: {next(((a, b) for a, b in zip(sc_names, res_names) if a != b), None)}", rel + "shortcode_resolved.h")
    pat = re.sub(r"\\\s*\n", "", (d / "patches_macros.h").read_text())
    eff = {}
    for l in pat.split("\n"):
        m = re.search(r"^#define\s+([\w_]*).*", l)
        if m:
            eff[m.group(1)] = l
    for name, line in sorted(eff.items()):
        got = defs.get(name, [])
        ctx.check(f"patch {name}", got == [line], "defined exactly once in macros_patched.h, with the (last) patch text", f"{len(got)} definitions" + ("" if not got or got == [line] else f", first: {got[0][:60]}"), rel + "macros_patched.h")


@rule("R20.6", "C20", "macro sources are read like a C preprocessor reads them: a continuation line stays a separate token; every conditional block is of a form the filter resolves the way cpp does with no symbol defined", min_instances=6)
def r20_6(ctx):
    from sa.absint import Interp

    idx = get_index(ctx.env)
    fi = idx.func(f"{PP}.cleanup_macros")
    w = fn_where(idx, fi)
    joins = [n for n in ast.walk(fi.node) if isinstance(n, ast.Assign) and isinstance(n.targets[0], ast.Subscript)
             and any(isinstance(c, ast.Call) and isinstance(c.func, ast.Attribute) and c.func.attr == "pop" for c in ast.walk(n.value))]
    ctx.need(len(joins) == 1, f"cleanup_macros: continuation join statement not found ({len(joins)} candidates)")
    j = joins[0]
    lst = U(j.targets[0].value)
    ix = U(j.targets[0].slice)
    # the statements that make up the join: the innermost block the assignment stands in (it may compute the two halves first)
    block = [j]
    for n in ast.walk(fi.node):
        for fld in ("body", "orelse", "finalbody"):
            b = getattr(n, fld, None)
            if isinstance(b, list) and any(x is j for x in b):
                block = b[: b.index(j) + 1]
    cases = [("#define A(x) \\", "    foo(x)"), ("#define fNEWVAL \\   ", "\tnew_value"), ("#define fX(A) if (A) \\", "  else D"), ("#define T int32_t \\", " tmp1;"), ("#define U unsigned\\", "    char c")]
    for l1, l2 in cases:
        box = {}

        def once(i, l1=l1, l2=l2):
            env = {lst: [l1, l2], ix: 0}
            i.block(block, env, None)
            return env[lst]

        outs = Interp(idx).explore(once)
        got = [o.value if o.kind != "raise" else "RAISE" for o in outs]
        exp_tokens = (l1.rstrip().rstrip("\\") + " " + l2).split()
        ok = len(got) == 1 and isinstance(got[0], list) and len(got[0]) == 1 and isinstance(got[0][0], str) and got[0][0].split() == exp_tokens
        ctx.check(f"continuation join of {l1!r} + {l2!r}", ok, f"one line with the tokens {exp_tokens}", str(got)[:120], w)
    # resource lint: which conditional forms does the filter know?  (regex literals of the guard tests, read from the code)
    special = set()
    for c in find_re_call(fi.node, names=("match", "search"), idx=idx, cls=PP):
        pt = pattern_text(c.args[0]) or ""
        m = re.fullmatch(r"#ifdef (\w+)", pt)
        if m:
            special.add(m.group(1))
    ctx.need(special, "cleanup_macros: no `#ifdef <SYMBOL>` guard patterns found")
    d = ctx.env.repo / "Resources" / "Hexagon" / "Preprocessor"
    n_blocks = 0
    for fname in ("macros.inc", "macros.h", "macros_mmvec.h"):
        path = d / fname
        ctx.need(path.is_file(), f"anchor missing: {fname}")
        stack = []
        for ln, line in enumerate(path.read_text().splitlines(), 1):
            m = re.match(r"#\s*(ifdef|ifndef|if|elif|else|endif)\b\s*(.*)", line)
            if m:
                kw, rest = m.group(1), m.group(2).strip()
                if kw in ("ifdef", "ifndef", "if"):
                    stack.append({"kw": kw, "cond": rest, "line": ln, "branch": 0, "defs": [set(), set()], "else": False})
                elif kw in ("else", "elif") and stack:
                    stack[-1]["branch"] = 1
                    stack[-1]["else"] = True
                    if kw == "elif":
                        stack[-1]["kw"] = "if"
                elif kw == "endif" and stack:
                    b = stack.pop()
                    n_blocks += 1
                    both = b["defs"][0] & b["defs"][1]
                    if b["kw"] == "ifdef" and b["cond"] in special:
                        continue  # first branch dropped, #else branch kept: what cpp does while the symbol is undefined
                    if b["kw"] == "ifdef":
                        # both branches are copied, the later definition wins = the #else branch = cpp's choice (symbol undefined)
                        continue
                    if b["else"] and both:
                        ctx.check(f"{fname}:{b['line']} #{b['kw']} {b['cond']}", False, "a form the filter resolves like cpp (`#ifdef X ... #else ... #endif`)",
                                  f"both branches are copied and the #else definition of {sorted(both)[:3]} wins, cpp selects the first branch", f"Resources/Hexagon/Preprocessor/{fname}:{b['line']}")
                continue
            m = re.match(r"#\s*define\s+(\w+)", line)
            if m:
                for b in stack:
                    b["defs"][b["branch"]].add(m.group(1))
    ctx.check("conditional blocks of the macro sources", n_blocks >= 20, ">= 20 blocks inspected", str(n_blocks), "Resources/Hexagon/Preprocessor/", nontrivial=False)


LINE_PROBES = [
    # (line, kept?, why)
    ("#define fA(x) x\n", True, "a definition"),
    ("  \t\n", True, "a line of blanks only (it ends a macro that the line before continues with a backslash; dropped, the next #define is spliced into that macro)"),
    ("// note\n", False, "line comment"),
    ("    // note\n", False, "indented line comment"),
    ("/* note */\n", False, "block comment on its own line"),
    ("/*\n", False, "block comment opener"),
    (" * text of a block comment\n", False, "block comment body"),
    (" */\n", False, "block comment closer"),
    ("    /* note */ A = f(A); \\\n", True, "body line of a multi-line macro that begins with a comment and carries code"),
    ("    /* last line of the macro */\n", True, "final line of a multi-line macro: dropping it splices the next #define into the body"),
    ("#define fB(x) /* note */ x\n", True, "definition with an inline comment"),
    ("    foo(x); // note \\\n", True, "body line with a trailing comment"),
    ("    A = B * C; \\\n", True, "body line"),
    ("    (A) \\\n", True, "body line"),
    ("\n", False, "empty line"),
    # limitations of the reviewed filter (recorded findings): code behind a comment in column 0, continuation starting with `*`
    ("/* legacy */ #define fC(x) x\n", True, "definition behind a block comment in column 0"),
    ("    * (B) \\\n", True, "continuation line that begins with a multiplication"),
]


@rule("R20.7", "C20", "line filter of cleanup_macros: with no guarded block open, a line is dropped only when it carries no code (valuation of the per-line loop body on line shapes)", min_instances=14)
def r20_7(ctx):
    from sa.absint import Interp

    idx = get_index(ctx.env)
    fi = idx.func(f"{PP}.cleanup_macros")
    w = fn_where(idx, fi)
    loops = [n for n in ast.walk(fi.node) if isinstance(n, ast.For) and "readlines" in U(n.iter)]
    ctx.need(len(loops) == 1, f"cleanup_macros: per-line loop not found ({len(loops)} candidates)")
    lp = loops[0]
    tgt = U(lp.target)
    # names the loop body reads that are set outside it: the two block flags, the vector-file flag, the result list
    assigned_in = {U(t) for n in ast.walk(lp) if isinstance(n, ast.Assign) for t in n.targets}
    appended = {U(n.func.value) for n in ast.walk(lp) if isinstance(n, ast.Call) and isinstance(n.func, ast.Attribute) and n.func.attr == "append"}
    ctx.need(len(appended) == 1, f"cleanup_macros: result list of the loop not found ({sorted(appended)})")
    res = appended.pop()
    flags = sorted(n.id for n in ast.walk(lp) if isinstance(n, ast.Name) and isinstance(n.ctx, ast.Load) and n.id.startswith(("in_", "is_")))
    one = ast.For(target=lp.target, iter=ast.Name(id="__lines", ctx=ast.Load()), body=lp.body, orelse=[], lineno=lp.lineno, col_offset=lp.col_offset)
    ast.fix_missing_locations(one)
    for line, keep, why in LINE_PROBES:
        def once(i, line=line):
            env = {"__lines": [line], res: []}
            for fl in set(flags):
                env[fl] = False
            i.block([one], env, None)
            return env[res]

        outs = Interp(idx).explore(once)
        got = [o.value if o.kind != "raise" else "RAISE" for o in outs]
        exp = [line.strip("\n")] if keep else []
        ctx.check(f"line shape: {why}", got == [exp], "kept" if keep else "dropped", "kept" if got == [[line.strip(chr(10))]] else "dropped" if got == [[]] else str(got)[:80], w)


def guarded_block_table(ctx):
    """what happens to a definition line inside a guarded block, for every state of the three flags: lines of a CONFIG_USER_ONLY block
    are never part of the macro set (the symbol is not defined), lines of a QEMU_GENERATE block only in the vector macro file"""
    from sa.absint import Interp

    idx = get_index(ctx.env)
    fi = idx.func(f"{PP}.cleanup_macros")
    loops = [n for n in ast.walk(fi.node) if isinstance(n, ast.For) and "readlines" in U(n.iter)]
    ctx.need(len(loops) == 1, "cleanup_macros: per-line loop not found")
    lp = loops[0]
    appended = {U(n.func.value) for n in ast.walk(lp) if isinstance(n, ast.Call) and isinstance(n.func, ast.Attribute) and n.func.attr == "append"}
    ctx.need(len(appended) == 1, "cleanup_macros: result list of the loop not found")
    res = appended.pop()
    flags = sorted({n.id for n in ast.walk(lp) if isinstance(n, ast.Name) and isinstance(n.ctx, ast.Load) and n.id.startswith(("in_", "is_"))})
    ctx.need(set(flags) >= {"in_qemu_gen", "in_user_only", "is_vec_macro_file"}, f"cleanup_macros: flags changed: {flags}")
    one = ast.For(target=lp.target, iter=ast.Name(id="__lines", ctx=ast.Load()), body=lp.body, orelse=[], lineno=lp.lineno, col_offset=lp.col_offset)
    ast.fix_missing_locations(one)
    line = "#define fX(A) (A)\n"
    for qg in (False, True):
        for uo in (False, True):
            for vec in (False, True):
                def once(i, qg=qg, uo=uo, vec=vec):
                    env = {"__lines": [line], res: [], "in_qemu_gen": qg, "in_user_only": uo, "is_vec_macro_file": vec}
                    for fl in flags:
                        env.setdefault(fl, False)
                    i.block([one], env, None)
                    return env[res]
                outs = Interp(idx).explore(once)
                got = [o.value if o.kind != "raise" else "RAISE" for o in outs]
                keep = (qg and vec and not uo) or (not qg and not uo)
                if qg and uo:
                    continue  # the two blocks do not nest in the sources (a directive closes both)
                ctx.check(f"definition inside [QEMU_GENERATE={qg}, CONFIG_USER_ONLY={uo}, vector file={vec}]", got == [[line.strip(chr(10))] if keep else []],
                          "kept" if keep else "dropped", "kept" if got == [[line.strip(chr(10))]] else "dropped" if got == [[]] else str(got)[:60], fn_where(idx, fi))


def merged_list_is_private(ctx):
    """patch_macros builds its result in a list it creates itself"""
    idx = get_index(ctx.env)
    fi = idx.func(f"{PP}.patch_macros")
    appended = {U(n.func.value) for n in ast.walk(fi.node) if isinstance(n, ast.Call) and isinstance(n.func, ast.Attribute) and n.func.attr in ("append", "insert") and isinstance(n.func.value, (ast.Name, ast.Attribute))}
    fresh = {U(n.targets[0]) for n in ast.walk(fi.node) if isinstance(n, ast.Assign) and (isinstance(n.value, ast.List) and not n.value.elts or (isinstance(n.value, ast.Call) and U(n.value.func) == "list" and not n.value.args))}
    ctx.check("patch_macros appends only to lists created by this call", bool(appended) and appended <= fresh, "fresh [] / list()", f"appended to: {sorted(appended)}; fresh: {sorted(fresh)}", fn_where(idx, fi))


@rule("R20.8", "C20", "every regeneration reads and writes the files of the repository it runs in: paths are resolved afresh on each use, nothing is memoised across calls", min_instances=1)
def r20_8(ctx):
    from .c14 import no_function_level_caches

    no_function_level_caches(ctx)
    idx = get_index(ctx.env)
    fi = idx.func("Conf.get_path")
    fr = idx.func("Conf.replace_placeholders")
    reach = idx.reachable([fi])
    runs_git = [q for q, f in reach.items() if any(isinstance(n, ast.Call) and U(n.func) == "subprocess.run" and "rev-parse" in U(n) for n in ast.walk(f.node))]
    ctx.check("Conf.get_path asks git for the repository root on each call", bool(runs_git), "a `git rev-parse --show-toplevel` call reachable from get_path", str(sorted(runs_git)), fn_where(idx, fr))
