"""C03 - casts and implicit conversions preserve the C value."""
from __future__ import annotations

from oracles import tables as O
from sa.absint import AObj, EnumV, FlagV, Interp, Opaque, Sym, Tok, to_text
from sa.cbmodel import Runner, type_text
from sa.pyindex import get_index
from sa.report import PROP_ASSUMPTIONS, PROP_EXPLANATION, rule
from sa.template import normalise

from .c02 import ctor, lab, members_by_value, result_nodes, run_il_exec
from .c04 import oracle_common
from .common import IntervalSym, fn_where, interval_compare, mk_pure, mk_vt, outcome_text

PROP_EXPLANATION["C03"] = (
    "The fill-bit function of Cast.il_exec is extracted as a truth table over (target signed, source signed); init_a_cast, "
    "cast_operands and promotion_cast are interpreted abstractly into decision tables; each conversion context "
    "(initialisation, assignment, argument, return, store, jump target, hybrid temporary, explicit cast) is checked to route its "
    "source through a conversion to the destination type unless the path is guarded by type equality."
)
PROP_ASSUMPTIONS["C03"] = ["CAST(n, fill, x) truncates / extends with `fill` (Rizin opcode semantics)"]


def clean(t):
    return t.replace("<", "").replace(">", "")


@rule("R03.1", "C03", "Cast.il_exec truth table: CAST(target width, MSB(src) iff SOURCE signed, src)", min_instances=4)
def r03_1(ctx):
    idx = get_index(ctx.env)
    for (tsigned, ssigned), exp in O.CAST.items():
        fi, outs = run_il_exec(idx, "Cast", lambda: {
            "value_type": mk_vt("tt", tsigned, Sym("Wt")),
            "ops": [mk_pure("src", mk_vt("ts", ssigned, Sym("Ws")))]})
        obs = " | ".join(sorted({normalise(outcome_text(o).replace("<Wt>", "<w>").replace("<src.il_read()>", "<src>")) for o in outs}))
        ctx.check(f"Cast.il_exec fill[target={'s' if tsigned else 'u'},source={'s' if ssigned else 'u'}]", obs == exp, exp, obs, fn_where(idx, fi))


def vt_case(name, signed, width, groups=("PURE",)):
    return mk_vt(name, signed, width, groups)


@rule("R03.2", "C03", "init_a_cast decision table: equal types elided, bool source -> ITE(src, 1, 0) of the target type, otherwise Cast to the target type", min_instances=6)
def r03_2(ctx):
    idx = get_index(ctx.env)
    cases = [
        # name, target(sign, width, groups), source(sign, width, groups), order, expected
        ("equal types", (True, "W", ("PURE",)), (True, "W", ("PURE",)), "=", "x"),
        ("sign differs", (False, "W", ("PURE",)), (True, "W", ("PURE",)), "=", "Cast(type_specifier=T,val=x)"),
        ("widening", (True, "Wt", ("PURE",)), (True, "Ws", ("PURE",)), ">", "Cast(type_specifier=T,val=x)"),
        ("narrowing", (False, "Wt", ("PURE",)), (False, "Ws", ("PURE",)), "<", "Cast(type_specifier=T,val=x)"),
        ("bool source", (True, "Wt", ("PURE",)), (False, "Ws", ("PURE", "BOOL")), ">", "Ternary(cond=x,then=Number(1:T),else=Number(0:T))"),
        ("bool to bool", (False, "W", ("PURE", "BOOL")), (False, "W", ("PURE", "BOOL")), "=", "x"),
        ("const-qualified equal", (True, "W", ("PURE", "CONST")), (True, "W", ("PURE",)), "=", "x"),
    ]
    for name, (ts, tw, tg), (ss, sw, sg), order, exp in cases:
        r = Runner(idx, keep_real=("init_a_cast",), sym_compare=interval_compare({("Wt", "Ws"): order}))
        holder = {}

        def args():
            T = vt_case("T", ts, Sym(tw), tg)
            x = r.pure("x", vt=vt_case("tx", ss, Sym(sw), sg))
            holder["T"] = T
            return [T, x]

        fi, outs = r.run("init_a_cast", args, args_list=True)
        obs = set()
        for o in outs:
            if o.kind == "raise":
                obs.add(f"RAISE {o.value}")
                continue
            v = o.value
            if isinstance(v, AObj) and v.label == "x":
                obs.add("x")
            elif isinstance(v, AObj) and v.cls == "Cast":
                t, val = ctor(v, "type_specifier"), ctor(v, "val")
                obs.add(f"Cast(type_specifier={'T' if t is holder['T'] else type_text(t)},val={lab(val)})")
            elif isinstance(v, AObj) and v.cls == "Ternary":
                def num(n):
                    if isinstance(n, AObj) and n.cls == "Number":
                        vt = ctor(n, "v_type")
                        return f"Number({to_text(ctor(n, 'val'))}:{'T' if vt is holder['T'] else type_text(vt)})"
                    return lab(n)
                obs.add(f"Ternary(cond={lab(ctor(v, 'cond'))},then={num(ctor(v, 'then_p'))},else={num(ctor(v, 'else_p'))})")
            else:
                obs.add(lab(v))
        ctx.check(f"init_a_cast[{name}]", obs == {exp}, exp, " | ".join(sorted(obs)), fn_where(idx, fi))
    # a truth value converted for ANY destination is 0 / 1 (C11 6.5.8p6, 6.3.1.2) - also when the destination is a predicate register
    for dname, dcls, isa, dw in (("predicate register Pd", "Register", "Pd", 8), ("explicit predicate P0", "Register", "P0", 8), ("register Rd", "Register", "Rd", 32), ("local variable", "LocalVar", "v", 16)):
        r = Runner(idx, keep_real=("cast_operands", "init_a_cast"))

        def kw(dname=dname, dcls=dcls, isa=isa, dw=dw):
            a = r.pure("a", vt=vt_case("ta", True, dw), cls=dcls)
            r.stubs[("a", "get_isa_name")] = isa
            r.stubs[("a", "get_name")] = isa
            return {"a": a, "b": r.pure("b", vt=vt_case("tb", False, 1, ("PURE", "BOOL"))), "immutable_a": True}
        fi, outs = r.run("cast_operands", lambda: [], args_list=True, kwargs=kw)
        obs = set()
        for o in outs:
            if o.kind == "raise":
                obs.add("RAISE")
                continue
            v = o.value[1] if isinstance(o.value, (tuple, list)) and len(o.value) == 2 else o.value
            if isinstance(v, AObj) and v.cls == "Ternary":
                tv, ev = ctor(v, "then_p"), ctor(v, "else_p")
                val = lambda n: to_text(ctor(n, "val")) if isinstance(n, AObj) and n.cls == "Number" else lab(n)
                obs.add(f"ITE({lab(ctor(v, 'cond'))}, {val(tv)}, {val(ev)})")
            else:
                obs.add(lab(v))
        ctx.check(f"truth value assigned to a {dname}", obs == {"ITE(b, 1, 0)"}, "ITE(b, 1, 0)", " | ".join(sorted(obs)), fn_where(idx, fi))
    # floats are never cast
    r = Runner(idx, keep_real=("init_a_cast",))
    fi, outs = r.run("init_a_cast", lambda: [vt_case("T", True, 32, ("FLOAT", "IEEE")), r.pure("x", vt=vt_case("tx", True, 32))], args_list=True)
    obs = {outcome_text(o) for o in outs}
    ctx.check("init_a_cast[float target]", all(o.kind == "raise" for o in outs), "raises", " | ".join(sorted(obs)), fn_where(idx, fi))


@rule("R03.5", "C03", "cast_operands decision table (summary used at every call site): equal -> unchanged; immutable_a -> b converted to a's type; else both converted to the C11 common type", min_instances=24)
def r03_5(ctx):
    idx = get_index(ctx.env)
    for imm in (True, False):
        for sa in (True, False):
            for sb in (True, False):
                for order in ("<", "=", ">"):
                    r = Runner(idx, keep_real=("cast_operands",), sym_compare=interval_compare({("Wa", "Wb"): order}))
                    fi, outs = r.run("cast_operands", lambda: [], args_list=True, kwargs=lambda: {
                        "immutable_a": imm, "a": r.pure("a", vt=vt_case("ta", sa, Sym("Wa"))), "b": r.pure("b", vt=vt_case("tb", sb, Sym("Wb")))})
                    if sa == sb and order == "=":
                        exp = "(a, b)"
                    elif imm:
                        exp = f"(a, Conv(({'s' if sa else 'u'},Wa),b))"
                    else:
                        cs, cw = oracle_common(sa, sb, order)
                        if order == "=":
                            cw = "Wa"
                        sig = f"({'s' if cs else 'u'},{cw})"
                        aw, bw = "Wa", ("Wa" if order == "=" else "Wb")
                        ea = "a" if (cs == sa and cw == aw) else f"Conv({sig},a)"
                        eb = "b" if (cs == sb and cw == bw) else f"Conv({sig},b)"
                        exp = f"({ea}, {eb})"
                    obs = set()
                    for o in outs:
                        if o.kind == "raise":
                            obs.add(f"RAISE {o.value}")
                        elif isinstance(o.value, (tuple, list)) and len(o.value) == 2:
                            txt = "(" + ", ".join(clean(lab(x)) for x in o.value) + ")"
                            if order == "=":
                                txt = txt.replace("Wb", "Wa")
                            obs.add(txt)
                        else:
                            obs.add(lab(o.value))
                    key = f"cast_operands[immutable_a={imm},a={'s' if sa else 'u'},b={'s' if sb else 'u'},Wa{order}Wb]"
                    ctx.check(key, obs == {exp}, exp, " | ".join(sorted(obs)), fn_where(idx, fi))
    operand_kind_independence(ctx)


def operand_kind_independence(ctx):
    """cast_operands converts the operand it is given, whatever kind of node it is (in particular an operand that is itself
    the result of a promotion: Cast(s32, int8) converted to u32 must stay Cast(u32, Cast(s32, int8)))."""
    idx = get_index(ctx.env)
    classes = sorted(c for c in set(idx.subclasses("Pure")) | set(idx.subclasses("Hybrid")) if c in idx.classes)
    ctx.need(len(classes) >= 15, f"value classes of the IR: only {len(classes)} found")
    for cname in classes:
        r = Runner(idx, keep_real=("cast_operands",), sym_compare=interval_compare({}))
        def kw(cname=cname):
            inner = r.pure("inner", vt=vt_case("ti", True, 8))
            a = r.pure("a", vt=vt_case("ta", True, 32), cls=cname, ops=[inner])
            return {"immutable_a": False, "a": a, "b": r.pure("b", vt=vt_case("tb", False, 32))}
        fi, outs = r.run("cast_operands", lambda: [], args_list=True, kwargs=kw, may_subclass=False)
        obs = set()
        for o in outs:
            if o.kind == "raise":
                obs.add(f"RAISE {o.value}")
            elif isinstance(o.value, (tuple, list)) and len(o.value) == 2:
                obs.add("(" + ", ".join(clean(lab(x)) for x in o.value) + ")")
            else:
                obs.add(lab(o.value))
        ctx.check(f"cast_operands[a is a {cname} of type (s,32), b (u,32)]", obs == {"(Conv((u,32),a), b)"}, "(Conv((u,32),a), b)", " | ".join(sorted(obs)), fn_where(idx, fi))


@rule("R03.6", "C03", "promotion_cast: narrower than 32 bit -> conversion to (signed, 32); otherwise the operand itself", min_instances=3)
def r03_6(ctx):
    idx = get_index(ctx.env)
    for name, lo, hi, exp in (("W<32", 1, 31, "Conv((s,32),x)"), ("W=32", 32, 32, "x"), ("W>32", 33, 2048, "x")):
        for sign in (True, False):
            r = Runner(idx, keep_real=("promotion_cast",), sym_compare=interval_compare())
            fi, outs = r.run("promotion_cast", lambda: [r.pure("x", vt=vt_case("tx", sign, IntervalSym("W", lo, hi)))], args_list=True)
            obs = {clean(outcome_text(o)) if o.kind == "raise" else clean(lab(o.value)) for o in outs}
            ctx.check(f"promotion_cast[{'s' if sign else 'u'},{name}]", obs == {exp}, exp, " | ".join(sorted(obs)), fn_where(idx, fi))
    # ... for every kind of operand and every flag combination (a narrowed truth value is a Ternary, a temporary a LocalVar ...)
    classes = sorted(c for c in set(idx.subclasses("Pure")) | set(idx.subclasses("Hybrid")) if c in idx.classes)
    ctx.need(len(classes) >= 15, f"value classes: only {len(classes)} found")
    for cname in classes:
        for groups in (("PURE",), ("PURE", "HYBRID_LVAR"), ("PURE", "CONST")):
            r = Runner(idx, keep_real=("promotion_cast",), sym_compare=interval_compare())
            fi, outs = r.run("promotion_cast", lambda: [r.pure("x", vt=vt_case("tx", False, 8, groups), cls=cname)], args_list=True)
            obs = {clean(outcome_text(o)) if o.kind == "raise" else clean(lab(o.value)) for o in outs}
            ctx.check(f"promotion_cast of a {cname} typed (u,8) with flags {'|'.join(groups)}", obs == {"Conv((s,32),x)"}, "Conv((s,32),x)", " | ".join(sorted(obs)), fn_where(idx, fi), nontrivial=(groups == ("PURE",)))


# ------------------------------------------------------------------------------------------------------------------
def wide(name, signed, lo, hi, groups=("PURE",)):
    return vt_case(name, signed, IntervalSym("W" + name, lo, hi), groups)


def outcomes_nodes(outs, cls):
    res = []
    for o in outs:
        if o.kind == "raise":
            continue
        v = o.value
        if isinstance(v, AObj) and v.cls == cls:
            res.append((o, v))
        else:
            res.append((o, v))
    return res


def argument_kind_independence(ctx):
    """an argument is converted to the parameter type whatever kind of value it is (register, literal, macro result, a
    forwarded parameter of the enclosing routine ...)"""
    idx = get_index(ctx.env)
    # the conversion does not depend on what kind of value the argument is: one instance per value class of the IR
    arg_classes = sorted(c for c in set(idx.subclasses("Pure")) | set(idx.subclasses("Hybrid")) if c in idx.classes)
    ctx.need(len(arg_classes) >= 15, f"value classes of the IR: only {len(arg_classes)} found")
    for cname in arg_classes:
        r = Runner(idx)
        boxc = {}
        def one_arg():
            a = [r.pure("arg0", vt=vt_case("ta0", True, 32), cls=cname)]
            boxc["args"] = a
            return [a, [vt_case("p0", False, 64)]]
        fi, outs = r.run("cast_arg_list", one_arg, args_list=True)
        got = sorted({clean(lab(boxc["args"][0]))} if len(outs) == 1 and outs[0].kind != "raise" else {outcome_text(o) for o in outs})
        ctx.check(f"cast_arg_list argument of class {cname}", got == ["Conv((u,64),arg0)"], "['Conv((u,64),arg0)']", str(got), fn_where(idx, fi))


def assignment_conversion_checks(ctx):
    """simple and compound assignment: the stored value has the destination type; the operation of `a op= b` is done in the type
    C gives `a op b` (or, where narrowing commutes with the operator, in the target's type)"""
    idx = get_index(ctx.env)
    am = members_by_value(idx, "AssignmentType")
    for op in am:
        r = Runner(idx)
        fi, outs = r.run("assignment_expr", lambda: [r.pure("items[0]", vt=wide("t0", True, 1, 64)), Tok("ASSIGN_OP", op), r.pure("items[2]", vt=wide("t2", False, 1, 64))])
        good = [o for o in outs if o.kind != "raise"]
        ctx.need(good, f"assignment_expr[{op}] has no translating path")
        for o in good:
            v = o.value
            if not (isinstance(v, AObj) and v.cls == "Assignment"):
                ctx.check(f"assignment_expr[{op}] result conversion", False, "Assignment node", lab(v), fn_where(idx, fi))
                continue
            src, dest = v.fields.get("src"), v.fields.get("dest")
            ctx.check(f"assignment_expr[{op}] target", lab(dest) == "items[0]", "dest = items[0]", lab(dest), fn_where(idx, fi))
            if op == "=":
                ctx.check("assignment_expr[=] source conversion", lab(src) == "Conv(type(items[0]),items[2])", "Conv(type(items[0]),items[2])", lab(src), fn_where(idx, fi))
                continue
            # compound: the stored value must have the destination type: either an explicit conversion, or an operator
            # node whose (type-giving) left operand is the destination itself (R02.4: node type = type of a)
            s = lab(src)
            if s.startswith("Conv(type(items[0]),") or (s.startswith("Conv(") and isinstance(src, AObj) and src.fields.get("value_type") is not None
                                                         and src.fields.get("value_type") is dest.fields.get("value_type")):
                shape = "converted to type(dest)"
            elif isinstance(src, AObj) and src.cls in ("ArithmeticOp", "BitOp") and lab(ctor(src, "a")) == "items[0]":
                shape = "node typed by dest (a=items[0])"
            elif isinstance(src, AObj) and src.cls in ("ArithmeticOp", "BitOp"):
                shape = f"{src.cls}(a={lab(ctor(src, 'a'))}) not converted back"
            else:
                shape = s
            ctx.check(f"assignment_expr[{op}] result conversion", shape in ("converted to type(dest)", "node typed by dest (a=items[0])"),
                      "result has the destination type", shape, fn_where(idx, fi))
            # the right operand takes part in the operation converted: to the target's type, or both to their common type
            # (shift amounts are only promoted)
            nodes = [e[2] for e in o.events if e[0] == "node" and e[1] in ("ArithmeticOp", "BitOp")]
            if nodes:
                a_, b_ = lab(ctor(nodes[-1], "a")), lab(ctor(nodes[-1], "b"))
                if op in ("<<=", ">>="):
                    okb = b_ in ("Promo(items[2])", "items[2]")
                elif op in ("/=", "%="):
                    # quotient and remainder do not commute with narrowing: `a /= b` is a = (T)(a / b) computed in the COMMON type
                    # (C11 6.5.16.2), a wide divisor must not be cut down to the target's width first
                    okb = (a_, b_) == ("Common(Promo(items[0]),Promo(items[2])).0", "Common(Promo(items[0]),Promo(items[2])).1")
                    ctx.check(f"assignment_expr[{op}] right operand conversion", okb, "both operands promoted and converted to their common type", f"a={a_}, b={b_}", fn_where(idx, fi))
                    continue
                else:
                    okb = b_ in ("Conv(type(items[0]),items[2])", "Promo(Conv(type(items[0]),items[2]))") or (a_.startswith("Common(") and b_.startswith("Common(") and a_[:-2] == b_[:-2])
                ctx.check(f"assignment_expr[{op}] right operand conversion", okb, "source converted to the target's type (or both operands to their common type)", f"a={a_}, b={b_}", fn_where(idx, fi))



@rule("R03.3", "C03", "every conversion context routes its source through a conversion to the destination type (elision only under type equality)", min_instances=18)
def r03_3(ctx):
    idx = get_index(ctx.env)
    am = members_by_value(idx, "AssignmentType")

    # --- initialisation: init_declarator
    r = Runner(idx)
    fi, outs = r.run("init_declarator", lambda: [Tok("IDENTIFIER", "v"), r.pure("items[1]", vt=wide("t1", True, 1, 64))])
    good = [o for o in outs if o.kind != "raise"]
    ctx.need(good, "init_declarator has no translating path")
    for o in good:
        v = o.value
        ok = isinstance(v, AObj) and v.cls == "Assignment"
        src = lab(v.fields.get("src")) if ok else lab(v)
        dest = lab(v.fields.get("dest")) if ok else "?"
        ctx.check("init_declarator source conversion", ok and src == f"Conv(type({dest}),items[1])", "Assignment(dest, Conv(type(dest),items[1]))", f"{lab(v) if not ok else 'src=' + src}", fn_where(idx, fi))

    assignment_conversion_checks(ctx)

    # --- chained assignment a = b = e : the outer source is the (converted) value the inner target holds afterwards.
    #     The inner assignment is sequenced first (R05.6): a variable target is read back; a register target cannot be
    #     (register reads see the value from before the instruction), there the already converted inner source is shared.
    for dcls, exp_src in (("LocalVar", "inner.dest"), ("Variable", "inner.dest"), ("Register", "inner.src")):
        r = Runner(idx)
        def chained(dcls=dcls):
            inner_src = r.pure("inner.src", cls="Cast")
            inner = AObj("Assignment", {"src": inner_src, "dest": r.pure("inner.dest", cls=dcls), "assign_type": am["="]}, label="items[2]", opaque=True)
            return [r.pure("items[0]", vt=wide("t0", True, 1, 64)), Tok("ASSIGN_OP", "="), inner]
        fi, outs = r.run("assignment_expr", chained, may_subclass=True)
        good = [o for o in outs if o.kind != "raise"]
        ctx.need(good, "assignment_expr has no translating path for a chained assignment")
        for o in good:
            assigns = [e[2] for e in o.events if e[0] == "node" and e[1] == "Assignment"]
            srcs = sorted({lab(a.fields.get("src")) for a in assigns})
            ctx.check(f"assignment_expr[a = b = e, b a {dcls}] outer source", srcs == [f"Conv(type(items[0]),{exp_src})"], f"Conv(type(items[0]), {exp_src})", str(srcs), fn_where(idx, fi))

    # --- declaration with initialiser: set_dest_type re-converts once the declared type is known
    r = Runner(idx, keep_real=())
    def sdt_args():
        dest = r.pure("dest", type=EnumV("PureType", "LOCAL", 1))
        assig = AObj("Assignment", {"dest": dest, "src": r.pure("src")}, label="assig", opaque=True)
        return [assig, vt_case("T", True, 32)]
    fi, outs = r.run("set_dest_type", sdt_args, args_list=True)
    good = [o for o in outs if o.kind != "raise"]
    ctx.need(good, "set_dest_type has no non-raising path")
    for o in good:
        setters = [(e[2], lab(e[3])) for e in o.events if e[0] == "setter"]
        ok = ("set_value_type", "T") in setters and ("set_src", "Conv(type(dest),src)") in setters
        order_ok = [a for a, _ in setters][:1] == ["set_value_type"]
        ctx.check("set_dest_type re-conversion", ok and order_ok, "set_value_type(T) then set_src(Conv(type(dest),src))", str(setters), fn_where(idx, fi))

    declaration_retypes_its_variable(ctx)
    # macro arguments: what the invocation node carries are the CONVERTED arguments (value parameters of every macro kind)
    for nparams, ext_first in ((3, False), (2, True)):
        r = Runner(idx)

        def over_m(nparams=nparams, ext_first=ext_first):
            pts = [vt_case(f"pt{k}", False, 64) for k in range(nparams)]
            if ext_first:
                pts[0] = vt_case("pt0", False, 64, ("EXTERNAL",))
            return {"macros": {"extract64": AObj("Macro", {"param_types": pts, "name": "extract64"}, label="macro", opaque=True)}}
        fi, outs = r.run("macro_expr", lambda nparams=nparams: [Tok("RIZIN_MACRO", "extract64")] + [r.pure(f"items[{k + 1}]", vt=vt_case(f"ta{k}", True, 32)) for k in range(nparams)], self_over=over_m)
        good = [o for o in outs if o.kind != "raise"]
        ctx.need(good, "macro_expr has no translating path")
        for o in good:
            v = o.value
            args_ = (ctor(v, "arguments") or ctor(v, "args")) if isinstance(v, AObj) and v.cls == "MacroInvocation" else None
            labs = [clean(lab(x)) for x in args_] if isinstance(args_, list) else [lab(v)]
            exp = [f"items[{k + 1}]" if (ext_first and k == 0) else f"Conv((u,64),items[{k + 1}])" for k in range(nparams)]
            ctx.check(f"macro_expr[{nparams} parameters{', first external' if ext_first else ''}]: the invocation carries the converted arguments", labs == exp, str(exp), str(labs), fn_where(idx, fi))

    # --- arguments: cast_arg_list
    r = Runner(idx)
    box = {}
    def cal_args():
        args = [r.pure("arg0", vt=vt_case("ta0", True, 32)), r.pure("arg1", vt=vt_case("ta1", True, 32)), "ENUM_STRING", r.pure("arg3", vt=vt_case("ta3", True, 32)), r.pure("arg4", vt=vt_case("ta4", False, 8))]
        ptypes = [vt_case("p0", False, 64), vt_case("p1", True, 32), vt_case("p2", True, 32), vt_case("p3", False, 64, ("EXTERNAL",)), None]
        ptypes[3].fields["external_type"] = "HexOp"
        box["args"] = args
        return [args, ptypes]
    fi, outs = r.run("cast_arg_list", cal_args, args_list=True)
    good = [o for o in outs if o.kind != "raise"]
    ctx.need(len(good) == 1, f"cast_arg_list: expected one deterministic path, got {len(outs)}")
    got = [clean(lab(x)) for x in box["args"]]
    exp = ["Conv((u,64),arg0)", "arg1", "ENUM_STRING", "arg3", "arg4"]
    ctx.check("cast_arg_list per-parameter conversion", got == exp, str(exp), str(got), fn_where(idx, fi))
    argument_kind_independence(ctx)
    r = Runner(idx)
    fi, outs = r.run("cast_arg_list", lambda: [[r.pure("arg0", vt=vt_case("ta0", True, 32))], []], args_list=True)
    ctx.check("cast_arg_list count mismatch", all(o.kind == "raise" for o in outs), "raises", " | ".join(outcome_text(o) for o in outs), fn_where(idx, fi))
    # cast_sub_routine_args forwards the declared parameter types
    r = Runner(idx)
    box2 = {}
    def csa():
        args = [r.pure("arg0", vt=vt_case("ta0", True, 32))]
        box2["args"] = args
        return ["name", args, [vt_case("p0", False, 64)]]
    fi, outs = r.run("cast_sub_routine_args", csa, args_list=True)
    got = [clean(lab(x)) for x in box2["args"]]
    ctx.check("cast_sub_routine_args uses the routine's parameter types", got == ["Conv((u,64),arg0)"], "['Conv((u,64),arg0)']", str(got), fn_where(idx, fi))

    # --- memory store: data converted to (sign,width) of the store
    for sign in ("s", "u"):
        for width in ("8", "16", "32", "64"):
            r = Runner(idx, sym_compare=interval_compare())
            # data type differs from the store type (sign differs)
            fi, outs = r.run("mem_store", lambda: [Tok("MEM_STORE", "mem_store_"), Tok("SIGN_TYPE", sign), Tok("BIT_WIDTH", width), r.pure("items[3]"),
                                                   r.pure("items[4]", vt=vt_case("t4", sign != "s", Tok("BIT_WIDTH", width)))])
            for o in outs:
                if o.kind == "raise":
                    continue
                v = o.value
                ok = isinstance(v, AObj) and v.cls == "MemStore"
                d = clean(lab(ctor(v, "data_var"))) if ok else lab(v)
                va = lab(ctor(v, "va")) if ok else "?"
                exp = f"Conv(({sign},{width}),items[4])"
                ctx.check(f"mem_store[{sign}{width}] data conversion", ok and d == exp and va == "items[3]", f"MemStore(va=items[3], data={exp})", f"va={va}, data={d}", fn_where(idx, fi))

    # mem_store: data narrower / wider than the access, and a truth value as data
    for dname, dvt, width in (("narrower data", lambda: vt_case("t4", False, 8), "32"), ("narrower signed data", lambda: vt_case("t4", True, 16), "64"), ("wider data", lambda: vt_case("t4", False, 64), "16"),
                              ("truth value", lambda: vt_case("t4", False, 1, ("PURE", "BOOL")), "8"), ("same width, other sign", lambda: vt_case("t4", True, 32), "32")):
        r = Runner(idx, sym_compare=interval_compare())
        fi, outs = r.run("mem_store", lambda: [Tok("MEM_STORE", "mem_store_"), Tok("SIGN_TYPE", "u"), Tok("BIT_WIDTH", width), r.pure("items[3]"), r.pure("items[4]", vt=dvt())])
        good = [o for o in outs if o.kind != "raise"]
        ctx.need(good, f"mem_store[{dname}] has no translating path")
        for o in good:
            v = o.value
            ok = isinstance(v, AObj) and v.cls == "MemStore"
            d = clean(lab(ctor(v, "data_var"))) if ok else lab(v)
            ctx.check(f"mem_store_u{width} with {dname}", ok and d == f"Conv((u,{width}),items[4])", f"data = Conv((u,{width}),items[4])", f"data={d}", fn_where(idx, fi))
    # --- jump target: converted to 32 bit unless it is 32 bit wide
    for name, lo, hi, exp in (("W<32", 1, 31, "Conv((u,32),items[1])"), ("W>32", 33, 128, "Conv((u,32),items[1])"), ("W=32", 32, 32, ("items[1]", "Conv((u,32),items[1])"))):
        r = Runner(idx, sym_compare=interval_compare())
        fi, outs = r.run("jump", lambda: [Tok("JUMP", "JUMP"), r.pure("items[1]", vt=vt_case("t1", True, IntervalSym("W", lo, hi)))])
        for o in outs:
            if o.kind == "raise":
                continue
            v = o.value
            ok = isinstance(v, AObj) and v.cls == "Jump"
            t = clean(lab(ctor(v, "target"))) if ok else lab(v)
            good_ = t in exp if isinstance(exp, tuple) else t == exp
            ctx.check(f"jump target width[{name}]", ok and good_, f"Jump(target={exp})", t, fn_where(idx, fi))

    # --- return: widened to 64 bit; wider than 64 raises
    for name, lo, hi, exp in (("W<64", 1, 63, "Conv((u,64),items[1])"), ("W=64", 64, 64, ("items[1]", "Conv((u,64),items[1])")), ("W>64", 65, 2048, "RAISE")):
        r = Runner(idx, sym_compare=interval_compare())
        fi, outs = r.run("jump_stmt", lambda: [Tok("RETURN", "return"), r.pure("items[1]", vt=vt_case("t1", True, IntervalSym("W", lo, hi)))])
        for o in outs:
            if o.kind == "raise":
                ctx.check(f"return value width[{name}]", exp == "RAISE", str(exp), f"RAISE {o.value}", fn_where(idx, fi))
                continue
            v = o.value
            ok = isinstance(v, AObj) and v.cls == "Assignment"
            s = clean(lab(ctor(v, "src"))) if ok else lab(v)
            good_ = s in exp if isinstance(exp, tuple) else s == exp
            ctx.check(f"return value width[{name}]", ok and good_, f"Assignment(ret_val, {exp})", s, fn_where(idx, fi))

    # --- explicit cast
    for same in (True, False):
        r = Runner(idx, sym_compare=interval_compare({("Wt", "Ws"): "=" if same else "<"}))
        fi, outs = r.run("cast_expr", lambda: [vt_case("T", True, Sym("Wt")), r.pure("items[1]", vt=vt_case("t1", True, Sym("Ws")))])
        for o in outs:
            t = outcome_text(o) if o.kind == "raise" else clean(lab(o.value))
            exp = ("items[1]", "Conv((s,Wt),items[1])") if same else ("Conv((s,Wt),items[1])",)
            ctx.check(f"cast_expr[{'same type' if same else 'different type'}]", t in exp, " or ".join(exp), t, fn_where(idx, fi))

    # --- hybrid temporary <- hybrid value
    r = Runner(idx, keep_real=("resolve_hybrid",))
    def rh_args():
        seq = EnumV("HybridSeqOrder", "EXEC_THEN_SET_VAL", None)
        return [AObj("Hybrid", {"value_type": vt_case("th", True, 32), "seq_order": seq, "references_set": set()}, label="hybrid", opaque=True)]
    fi, outs = r.run("resolve_hybrid", rh_args, args_list=True)
    good = [o for o in outs if o.kind != "raise"]
    ctx.need(good, "resolve_hybrid has no non-raising path")
    for o in good:
        assigns = [n for n in r.nodes if n.cls == "Assignment"] if False else [e[2] for e in o.events if e[0] == "node" and e[1] == "Assignment"]
        srcs = [lab(ctor(a, "src")) for a in assigns]
        same_type = len(assigns) == 1 and isinstance(ctor(assigns[0], "dest"), AObj) and ctor(ctor(assigns[0], "dest"), "value_type") is not None \
            and srcs == ["hybrid"]
        ok = len(assigns) == 1 and ((srcs[0].startswith("Conv(type(LocalVar(") and srcs[0].endswith(",hybrid)")) or same_type)
        ctx.check("resolve_hybrid temporary conversion", ok, "Assignment(h_tmp, hybrid converted to the temporary's type (the temporary is declared with the hybrid's own type object))", [lab(ctor(a, 'src')) for a in assigns], fn_where(idx, fi))


@rule("R03.4", "C03", "call result readers narrow ret_val by the declared return signedness and width", min_instances=4)
def r03_4(ctx):
    idx = get_index(ctx.env)
    for cls in ("SubRoutine", "Call"):
        for signed in (True, False):
            fi, outs = run_il_exec(idx, cls, lambda: {"value_type": vt_case("rt", signed, IntervalSym("W", 8, 64))}, method="il_read")
            obs = " | ".join(sorted({clean(outcome_text(o)) for o in outs}))
            exp = f'{"SIGNED" if signed else "UNSIGNED"}(W, VARL("ret_val"))'
            ctx.check(f"{cls}.il_read[{'s' if signed else 'u'}]", normalise(obs) == exp, exp, obs, fn_where(idx, fi))
    fi = idx.func("SubRoutineCall.il_read")
    # the call node reads through the routine it calls
    def once(interp):
        sr = AObj("SubRoutine", {"value_type": vt_case("rt", True, IntervalSym("W", 8, 64))}, label="sr")
        return interp.call_function(fi, [], self_obj=AObj("SubRoutineCall", {"sub_routine": sr}, label="self"))
    outs = Interp(idx, sym_compare=interval_compare()).explore(once)
    obs = " | ".join(sorted({clean(outcome_text(o)) for o in outs}))
    ctx.check("SubRoutineCall.il_read delegates", normalise(obs) == 'SIGNED(W, VARL("ret_val"))', 'SIGNED(W, VARL("ret_val"))', obs, fn_where(idx, fi))


@rule("R03.7", "C03", "type objects that are stored to in place are fresh (a declared type never aliases another declaration's type)", min_instances=3)
def r03_7(ctx):
    from .shared import type_object_mutation

    type_object_mutation(ctx)


@rule("R03.8", "C03", "destination types of register targets: an assignment keeps the bits of a same-width value only if the register has its architectural width (letter registers, pairs, explicit and alias registers)", min_instances=40)
def r03_8(ctx):
    from .c07 import r07_1, r07_7, r07_8
    from .c10 import hybrid_temp_type_checks

    r07_1(ctx)
    r07_7(ctx)
    r07_8(ctx)
    hybrid_temp_type_checks(ctx)  # ... and the temporary of an operation has the operation's type (its readers convert by it)


@rule("R03.9", "C03", "operand-kind independence: the conversions a callback inserts do not depend on the class of its operands", min_instances=20)
def r03_9(ctx):
    from .c02 import callback_operand_kind_independence
    from .c05 import statement_operand_kind_independence

    callback_operand_kind_independence(ctx)
    statement_operand_kind_independence(ctx)


def init_a_cast_kind_independence(ctx):
    """a conversion wraps its operand, whatever kind of operand it is: init_a_cast never re-types the operand itself (an immediate, a
    variable, a register is one object for all its uses - changing its type changes every other use)"""
    idx = get_index(ctx.env)
    classes = sorted(c for c in set(idx.subclasses("Pure")) | set(idx.subclasses("Hybrid")) if c in idx.classes)
    ctx.need(len(classes) >= 15, f"value classes: only {len(classes)} found")
    differing = []
    base = None
    for c in ["Pure"] + classes:
        for (ts, tw), (ss, sw) in (((False, 32), (True, 32)), ((True, 64), (True, 32)), ((False, 8), (False, 32))):
            r = Runner(idx, keep_real=("init_a_cast",))
            box = {}

            def args(c=c, ts=ts, tw=tw, ss=ss, sw=sw):
                T = vt_case("T", ts, tw)
                vt = vt_case("tx", ss, sw)
                x = r.pure("x", vt=vt, cls=c)
                box["x"], box["vt"] = x, vt
                return [T, x]
            fi, outs = r.run("init_a_cast", args, args_list=True)
            res = set()
            for o in outs:
                if o.kind == "raise":
                    res.add("RAISE")
                    continue
                v = o.value
                res.add((v.cls if isinstance(v, AObj) else type(v).__name__, v is box["x"], box["x"].fields.get("value_type") is box["vt"]))
            key = ((ts, tw), (ss, sw))
            if c == "Pure":
                base = base or {}
                base[key] = res
            elif res != base.get(key):
                differing.append(f"{c} {'s' if ss else 'u'}{sw}->{'s' if ts else 'u'}{tw}: {sorted(map(str, res))[:1]}")
    ctx.check("init_a_cast wraps every kind of operand alike and leaves the operand's own type alone", not differing and base and all(all(t == ("Cast", False, True) for t in v if t != "RAISE") for v in base.values()),
              "a new Cast node around the operand; operand.value_type untouched", "; ".join(differing[:3]) or str({str(k): sorted(map(str, v)) for k, v in (base or {}).items()})[:160], fn_where(idx, fi))


def declaration_retypes_its_variable(ctx):
    """`T x = <init>;`: the assignment to the declared variable - alone or behind the pending effects of its initialiser - is re-typed to T
    and its source converted, whatever flags the variable's provisional type object carries (a provisional type borrowed from a hybrid's
    value carries the flag of hybrid temporaries)"""
    idx = get_index(ctx.env)
    for shape in ("Assignment", "Sequence[pending, Assignment]", "Sequence[pending, pending, Assignment]"):
        for groups in (("PURE",), ("PURE", "HYBRID_LVAR"), ("PURE", "HYBRID_LVAR", "UNSIGNED")):
            r = Runner(idx)
            seen = []
            r.summarised = r.summarised | {"set_dest_type"}
            r.s_set_dest_type = lambda interp, args, kwargs, seen=seen: seen.append((args, kwargs))
            box = {}

            def items(shape=shape, groups=groups):
                seen.clear()
                dest = r.pure("x", vt=vt_case("tprov", True, 32, groups), cls="Variable", type=EnumV("PureType", "LOCAL", 1))
                assig = AObj("Assignment", {"dest": dest, "src": r.pure("init", vt=vt_case("tprov2", True, 32, groups))}, label="assig", opaque=True)
                box["assig"] = assig
                if shape == "Assignment":
                    it = assig
                else:
                    pend = [AObj("PostfixIncDec", {}, label=f"pending{k}", opaque=True) for k in range(shape.count("pending"))]
                    it = AObj("Sequence", {"effects": pend + [assig], "effect_ops": pend + [assig]}, label="seq", opaque=True)
                box["it"] = it
                return [vt_case("T", True, 64), it]
            fi, outs = r.run("declaration", items)
            good = [o for o in outs if o.kind != "raise"]
            calls = [(lab(a[0]) if a else "?", lab(a[1]) if len(a) > 1 else lab(k.get("t"))) for a, k in seen]
            ok = bool(good) and len(good) == len(outs) and all(o.value is box["it"] for o in good)
            ctx.check(f"declaration[T, {shape}], provisional type flags {'|'.join(groups)}: the variable's assignment is re-typed to T", ok and calls and set(calls) == {("assig", "T")},
                      "set_dest_type(assig, T), items[1] returned", f"calls={calls}, outcomes={[lab(o.value)[:30] if o.kind != 'raise' else 'RAISE' for o in outs]}", fn_where(idx, fi),
                      nontrivial=(groups != ("PURE",)))


def declaration_with_several_declarators(ctx):
    """`T a = 1, b = 2;`: either rejected, or every declarator's assignment is re-typed AND part of what the callback hands on (the
    assignments of the earlier declarators are effects like any other)"""
    idx = get_index(ctx.env)
    r = Runner(idx)
    seen = []
    r.summarised = r.summarised | {"set_dest_type"}
    r.s_set_dest_type = lambda interp, args, kwargs, seen=seen: seen.append(lab(args[0]) if args else "?")
    box = {}

    def items():
        seen.clear()
        asg = []
        for k in (1, 2, 3):
            dest = r.pure(f"x{k}", vt=vt_case(f"tp{k}", True, 32), cls="Variable", type=EnumV("PureType", "LOCAL", 1))
            asg.append(AObj("Assignment", {"dest": dest, "src": r.pure(f"init{k}", vt=vt_case(f"ti{k}", True, 32))}, label=f"assig{k}", opaque=True))
        box["asg"] = asg
        return [vt_case("T", True, 64), asg]
    fi, outs = r.run("declaration", items)
    bad = []
    for o in outs:
        if o.kind == "raise":
            continue
        from sa.kinds import KindEngine
        reached = KindEngine.reach(o.value)
        lost = [a.label for a in box["asg"] if id(a) not in reached]
        if lost:
            bad.append(f"returns {lab(o.value)[:40]}: {lost} not part of the result")
    ctx.check("declaration with several declarators: rejected, or every initialisation is handed on", not bad, "raise, or all assignments in the result", "; ".join(sorted(set(bad))[:2]) or "rejected / complete", fn_where(idx, fi), nontrivial=False)


def declared_type_callbacks(ctx):
    """`unsigned int` is unsigned int, in a declaration and in a cast: the two callbacks that combine a specifier with a type"""
    idx = get_index(ctx.env)
    for cb in ("specifier_qualifier_list", "declaration_specifiers"):
        r = Runner(idx, keep_real=(cb,))
        fi, outs = r.run(cb, lambda: [vt_case("unsigned", False, 32), vt_case("int", True, 32)])
        got = sorted({(o.value.fields.get("_signed"), o.value.fields.get("_bit_width")) if o.kind != "raise" and isinstance(o.value, AObj) else "RAISE" for o in outs}, key=str)
        ctx.check(f"{cb}[unsigned, int]", got == [(False, 32)], "(False, 32)", str(got), fn_where(idx, fi))


def postfix_node_typing(ctx):
    """the value of x++ / x-- is the old value of x, of x's own type (C11 6.5.2.4): an 8 / 16 bit variable yields an 8 / 16 bit value that
    is converted by its consumer like any other operand of that type (an unsigned one zero-extends)"""
    idx = get_index(ctx.env)
    fi = idx.resolve_method("PostfixIncDec", "__init__")
    ctx.need(fi is not None, "PostfixIncDec.__init__ not found")
    ht = {m: EnumV("HybridType", m, v) for m, v in idx.enum_table("HybridType").items()}
    pt = idx.enum_table("PureType")
    fe = idx.func("PostfixIncDec.il_exec")
    for signed in (True, False):
        for w in (8, 16, 32, 64):
            for hname in ("INC", "DEC"):
                box = {}

                def once(i, signed=signed, w=w, hname=hname):
                    vt = vt_case("tv", signed, w)
                    op = mk_pure("x", vt, cls="LocalVar")
                    op.fields["type"] = EnumV("PureType", "LOCAL", pt["LOCAL"])
                    node = AObj("PostfixIncDec", {}, label="node")
                    i.call_function(fi, ["n", op, vt, ht[hname]], self_obj=node)
                    box["node"] = node
                    return [node.fields.get("value_type"), i.call_function(fe, [], self_obj=node)]
                outs = Interp(idx).explore(once)
                got = sorted({((o.value[0].fields.get("_signed"), o.value[0].fields.get("_bit_width")), to_text(o.value[1])) if o.kind == "return" and isinstance(o.value[0], AObj) else ("RAISE", "") for o in outs}, key=str)
                exp = [((signed, w), f"{hname}(<x.il_read()>, {w})")]
                ctx.check(f"x{'++' if hname == 'INC' else '--'} on a {'s' if signed else 'u'}{w} variable: type of the value and width of the operation", got == exp, str(exp), str(got), fn_where(idx, fi), nontrivial=(w < 32))


def memload_typing(ctx):
    """a memory load yields a value of the ACCESS type (mem_load_s16 is a signed 16 bit value, mem_load_s32 a signed 32 bit one): widening
    it - to a register pair, a 64 bit variable - extends by that sign"""
    idx = get_index(ctx.env)
    fi = idx.resolve_method("MemLoad", "__init__")
    ctx.need(fi is not None, "MemLoad.__init__ not found")
    for signed in (True, False):
        for w in (8, 16, 32, 64):
            def once(i, signed=signed, w=w):
                acc = AObj("MemAccessType", {"val_type": mk_vt("tacc", signed, w), "reads_mem": True, "writes_mem": False}, label="acc")
                o = AObj("MemLoad", {}, label="node")
                i.call_function(fi, ["ml", mk_pure("va", mk_vt("tva", False, 32)), acc], self_obj=o)
                return o.fields.get("value_type")
            outs = Interp(idx).explore(once)
            got = sorted({(o.value.fields.get("_signed"), o.value.fields.get("_bit_width")) if o.kind == "return" and isinstance(o.value, AObj) else ("?",) for o in outs})
            ctx.check(f"MemLoad of access type {'s' if signed else 'u'}{w} is typed {'s' if signed else 'u'}{w}", got == [(signed, w)], str((signed, w)), str(got), fn_where(idx, fi))


@rule("R03.10", "C03", "the types conversions start from and end in are the declared ones: C type names denote sign and width by their spelling; nodes that yield a truth value are typed as one", min_instances=20)
def r03_10(ctx):
    from .c08 import c_type_table
    from .c10 import bool_node_classes_declare_bool

    c_type_table(ctx)
    bool_node_classes_declare_bool(ctx)
    from .c09 import literal_rendering, small_literal_typing

    small_literal_typing(ctx)  # a literal's type is the one its suffix gives it, in either spelling (0x80000000u is unsigned: widening it zero-extends)
    literal_rendering(ctx)  # ... and a literal is printed at the width of its type (the 1 / 0 a truth value converts to, in an 8 bit context, are 8 bit)
    from .c07 import r07_5

    init_a_cast_kind_independence(ctx)
    declared_type_callbacks(ctx)
    postfix_node_typing(ctx)
    r07_5(ctx)  # immediates: sign by the letter class (#r / #s signed in both cases of the letter, the others unsigned)
    memload_typing(ctx)
