"""C02 - integer operators follow C11 promotion / common type / operator semantics."""
from __future__ import annotations

from oracles import tables as O
from sa.absint import AObj, EnumV, FlagV, Interp, to_text
from sa.pyindex import get_index
from sa.report import PROP_ASSUMPTIONS, PROP_EXPLANATION, rule
from sa.template import normalise

from .common import fn_where, interval_compare, mk_pure, mk_vt, outcome_text

PROP_EXPLANATION["C02"] = (
    "Opcode tables are extracted by abstractly interpreting each il_exec over (operator enum member x signedness/boolness "
    "valuations) with operands as opaque holes, and compared with the C11/RzIL oracle; the conversion pipeline in front of "
    "each operator node is extracted by abstractly interpreting the grammar callback with promotion_cast/cast_operands/"
    "init_a_cast summarised (their own decision tables are checked separately)."
)
PROP_ASSUMPTIONS["C02"] = ["Rizin's ADD/SUB/.../SHIFTRA implement two's-complement semantics (opcode semantics are trusted)"]


def holes(text: str) -> str:
    return normalise(text.replace("<a.il_read()>", "<a>").replace("<b.il_read()>", "<b>").replace("<c.il_read()>", "<c>"))


def run_il_exec(idx, cls, fields, method="il_exec"):
    fi = idx.func(f"{cls}.{method}")

    def once(interp):
        obj = AObj(cls, fields(), label="self")
        return interp.call_function(fi, [], self_obj=obj)

    return fi, Interp(idx, sym_compare=interval_compare(), may_subclass=True).explore(once)


def members_by_value(idx, enum):
    return {v: EnumV(enum, m, v) for m, v in idx.enum_table(enum).items()}


def one_text(outs):
    return " | ".join(sorted({holes(outcome_text(o)) for o in outs}))


@rule("R02.1", "C02", "opcode tables of ArithmeticOp/BitOp/CompareOp/BooleanOp/Ternary.il_exec = C11/RzIL oracle", min_instances=40)
def r02_1(ctx):
    from .c10 import floating_types_use_floating_operators

    floating_types_use_floating_operators(ctx)  # float / double operands: the F-variant of every arithmetic and relational operator, INV(FEQ) for !=
    idx = get_index(ctx.env)
    pure = lambda: FlagV("VTGroup", frozenset(["PURE"]))
    for W in (32, 64):
        WS = "" if W == 32 else f" at {W} bit"
        # --- ArithmeticOp
        mem = members_by_value(idx, "ArithmeticType")
        for op, exp in O.BINARY_ARITH.items():
            ctx.need(op in mem, f"ArithmeticType has no member spelled {op!r}")
            for sa in (True, False):
                fi, outs = run_il_exec(idx, "ArithmeticOp", lambda: {
                    "arith_type": mem[op],
                    "ops": [mk_pure("a", mk_vt("ta", sa, W)), mk_pure("b", mk_vt("tb", sa, W))]})
                e = exp[sa] if isinstance(exp, dict) else exp
                ctx.check(f"ArithmeticOp.il_exec[{op},{'s' if sa else 'u'}]{WS}", one_text(outs) == e, e, one_text(outs), fn_where(idx, fi))
        # --- BitOp
        mem = members_by_value(idx, "BitOperationType")
        for op, exp in O.BITOPS.items():
            ctx.need(op in mem, f"BitOperationType has no member spelled {op!r}")
            unary = op in ("~",) or (op == "-")
            for sa in (True, False):
                for sb in (True, False):
                    e = exp[sa] if isinstance(exp, dict) else exp
                    fi, outs = run_il_exec(idx, "BitOp", lambda: {
                        "op_type": mem[op],
                        "ops": [mk_pure("a", mk_vt("ta", sa, W))] + ([] if unary else [mk_pure("b", mk_vt("tb", sb, W))])})
                    ctx.check(f"BitOp.il_exec[{op},a={'s' if sa else 'u'},b={'s' if sb else 'u'}]{WS}", one_text(outs) == e, e, one_text(outs), fn_where(idx, fi))
        # --- CompareOp: precondition (R02.3): both operands already have the common type, so sa == sb
        mem = members_by_value(idx, "CompareOpType")
        for op, exp in O.COMPARE.items():
            ctx.need(op in mem, f"CompareOpType has no member spelled {op!r}")
            for s in (True, False):
                e = exp.format(p="S" if s else "U")
                fi, outs = run_il_exec(idx, "CompareOp", lambda: {
                    "op_type": mem[op],
                    "ops": [mk_pure("a", mk_vt("ta", s, W)), mk_pure("b", mk_vt("tb", s, W))]})
                ctx.check(f"CompareOp.il_exec[{op},{'s' if s else 'u'}]{WS}", one_text(outs) == e, e, one_text(outs), fn_where(idx, fi))
    # --- BooleanOp: beta(x) = x if bool-sorted else NON_ZERO(x)
    mem = members_by_value(idx, "BooleanOpType")
    beta = lambda name, isb: f"<{name}>" if isb else f"NON_ZERO(<{name}>)"
    for op, exp in O.BOOLEAN.items():
        ctx.need(op in mem, f"BooleanOpType has no member spelled {op!r}")
        for ba in (True, False):
            for bb in (True, False):
                if op == "!" and bb:
                    continue
                e = exp.format(ba=beta("a", ba), bb=beta("b", bb))
                mkb = lambda lbl, isb: mk_pure(lbl, mk_vt("t" + lbl, False, 1 if isb else 32, ("PURE", "BOOL") if isb else ("PURE",)))
                fi, outs = run_il_exec(idx, "BooleanOp", lambda: {
                    "op_type": mem[op],
                    "ops": [mkb("a", ba)] + ([] if op == "!" else [mkb("b", bb)])})
                ctx.check(f"BooleanOp.il_exec[{op},a {'bool' if ba else 'bv'},b {'bool' if bb else 'bv'}]", one_text(outs) == e, e, one_text(outs), fn_where(idx, fi))
    # --- Ternary
    for bc in (True, False):
        e = O.TERNARY.format(bc=beta("a", bc))
        fi, outs = run_il_exec(idx, "Ternary", lambda: {
            "ops": [mk_pure("a", mk_vt("ta", False, 1 if bc else 32, ("PURE", "BOOL") if bc else ("PURE",))),
                    mk_pure("b", mk_vt("tb", True, 32)), mk_pure("c", mk_vt("tc", True, 32))]})
        ctx.check(f"Ternary.il_exec[cond {'bool' if bc else 'bv'}]", one_text(outs) == e, e, one_text(outs), fn_where(idx, fi))
    from .c10 import truth_test_width_independence

    truth_test_width_independence(ctx)


# ------------------------------------------------------------------------------------------------------------------
from sa.cbmodel import Runner  # noqa: E402
from sa.absint import Tok  # noqa: E402

P0, P2 = "Promo(items[0])", "Promo(items[2])"
COMMON_PP = (f"Common({P0},{P2}).0", f"Common({P0},{P2}).1")

# operator -> (callback, token type, node class, enum class, expected operand histories (a, b))
BIN_SPECS = [
    ("+", "additive_expr", "ADD_OP", "ArithmeticOp", "ArithmeticType", COMMON_PP),
    ("-", "additive_expr", "SUB_OP", "ArithmeticOp", "ArithmeticType", COMMON_PP),
    ("*", "multiplicative_expr", "MUL_OP", "ArithmeticOp", "ArithmeticType", COMMON_PP),
    ("&", "and_expr", "BIT_AND_OP", "BitOp", "BitOperationType", COMMON_PP),
    ("|", "inclusive_or_expr", "BIT_OR_OP", "BitOp", "BitOperationType", COMMON_PP),
    ("^", "exclusive_or_expr", "BIT_XOR_OP", "BitOp", "BitOperationType", COMMON_PP),
    ("<<", "shift_expr", "LEFT_OP", "BitOp", "BitOperationType", (P0, ("items[2]", P2))),
    (">>", "shift_expr", "RIGHT_OP", "BitOp", "BitOperationType", (P0, ("items[2]", P2))),
    ("<", "relational_expr", "LT_OP", "CompareOp", "CompareOpType", COMMON_PP),
    (">", "relational_expr", "GT_OP", "CompareOp", "CompareOpType", COMMON_PP),
    ("<=", "relational_expr", "LE_OP", "CompareOp", "CompareOpType", COMMON_PP),
    (">=", "relational_expr", "GE_OP", "CompareOp", "CompareOpType", COMMON_PP),
    ("==", "equality_expr", "EQ_OP", "CompareOp", "CompareOpType", COMMON_PP),
    ("!=", "equality_expr", "NE_OP", "CompareOp", "CompareOpType", COMMON_PP),
]
# widening-only (value/truth preserving) histories acceptable for operands of && || (C needs no conversion there)
def truth_preserving(h, k):
    base = f"items[{k}]"
    ok = {base, f"Promo({base})"}
    for x in ("items[0]", "Promo(items[0])"):
        for y in ("items[2]", "Promo(items[2])"):
            ok.add(f"Common({x},{y}).{0 if k == 0 else 1}")
    return h in ok


def plain_items(r, n, vt=None):
    def make():
        return [r.pure(f"items[{k}]", vt=mk_vt(f"t{k}", True, 32)) for k in range(n)]
    return make


def ctor(node, name):
    return node.fields.get("__ctor__", {}).get(name)


def lab(x):
    return Runner.lab(x) if x is not None else "None"


def result_nodes(outs):
    """non-raising, non-folded outcomes -> returned abstract node (or text)."""
    res = []
    for o in outs:
        if o.kind == "raise":
            continue
        if any(t.endswith(" folds") and v for t, v in o.decisions):
            continue
        res.append(o)
    return res


NODE_BY_OPERATOR = {"+": ("ArithmeticOp", "ArithmeticType"), "-": ("ArithmeticOp", "ArithmeticType"), "*": ("ArithmeticOp", "ArithmeticType"),
                    "/": ("ArithmeticOp", "ArithmeticType"), "%": ("ArithmeticOp", "ArithmeticType"),
                    "&": ("BitOp", "BitOperationType"), "|": ("BitOp", "BitOperationType"), "^": ("BitOp", "BitOperationType"), "<<": ("BitOp", "BitOperationType"), ">>": ("BitOp", "BitOperationType"),
                    "<": ("CompareOp", "CompareOpType"), ">": ("CompareOp", "CompareOpType"), "<=": ("CompareOp", "CompareOpType"), ">=": ("CompareOp", "CompareOpType"),
                    "==": ("CompareOp", "CompareOpType"), "!=": ("CompareOp", "CompareOpType"), "&&": ("BooleanOp", "BooleanOpType"), "||": ("BooleanOp", "BooleanOpType")}


def binary_productions(gm):
    """(operator literal, callback, terminal name) for every `X OP Y` alternative of the expression tower, read off the grammar."""
    from .c17 import derive_tower, term_literals

    out = []
    for name, _, nxt in derive_tower(gm)[2:12]:
        for a in gm.rules[name]:
            syms = a.symbols
            if len(syms) == 3 and syms[1][1]:
                lits = term_literals(gm, syms[1][0]) or set()
                for lit in sorted(lits):
                    out.append((lit, str(a.callback), syms[1][0]))
    return out


@rule("R02.2", "C02", "spelling chain: the operator token of every binary production reaches a node of the right class whose operator member is spelled like the token", min_instances=18)
def r02_2(ctx):
    from sa.larkmodel import get_grammar, transformer_callbacks

    idx = get_index(ctx.env)
    gm = get_grammar(ctx.env)
    cbs = transformer_callbacks(idx)
    prods = binary_productions(gm)
    ctx.need(len(prods) >= 18, f"only {len(prods)} binary productions derived from the grammar")
    for lit, cb, term in prods:
        ctx.need(lit in NODE_BY_OPERATOR, f"binary operator {lit!r} of the grammar is not in the oracle")
        ncls, ecls = NODE_BY_OPERATOR[lit]
        if cb not in cbs:
            ctx.check(f"production {cb}[{lit}] has a callback", False, f"callback {cb}", "none: the production yields a raw Tree", gm.where(cb))
            continue
        r = Runner(idx)
        r.fold = False
        fi, outs = r.run(cb, lambda: [r.pure("items[0]", vt=mk_vt("t0", True, 32)), Tok(term, lit), r.pure("items[2]", vt=mk_vt("t2", True, 32))])
        good = [o for o in outs if o.kind != "raise"]
        ctx.need(good, f"{cb}[{lit}] has no translating path")
        for o in good:
            v = o.value
            opt = (ctor(v, "op_type") or ctor(v, "arith_type")) if isinstance(v, AObj) else None
            ok = isinstance(v, AObj) and v.cls == ncls and isinstance(opt, EnumV) and opt.cls == ecls and opt.value == lit
            ctx.check(f"{cb}[{term} {lit!r}] node and operator member", ok, f"{ncls} with {ecls} member spelled {lit!r}", f"{v.cls if isinstance(v, AObj) else lab(v)} with {to_text(opt)}", fn_where(idx, fi))
    # unary operators
    from .c17 import term_literals
    for lit, ncls in (("~", "BitOp"), ("-", "BitOp"), ("!", "BooleanOp")):
        r = Runner(idx)
        r.fold = False
        fi, outs = r.run("unary_expr", lambda: [Tok("UNARY_OP", lit), r.pure("items[1]", vt=mk_vt("t1", True, 32))])
        for o in [o for o in outs if o.kind != "raise"]:
            v = o.value
            opt = ctor(v, "op_type") if isinstance(v, AObj) else None
            ctx.check(f"unary_expr[{lit!r}] node and operator member", isinstance(v, AObj) and v.cls == ncls and isinstance(opt, EnumV) and opt.value == lit, f"{ncls} member spelled {lit!r}", f"{v.cls if isinstance(v, AObj) else lab(v)} with {to_text(opt)}", fn_where(idx, fi))


@rule("R02.3", "C02", "conversion obligations: operands reach each operator node through promotion and common-type conversion in source order", min_instances=19)
def r02_3(ctx):
    idx = get_index(ctx.env)
    for op, cb, tokt, ncls, ecls, (ea, eb) in BIN_SPECS:
        r = Runner(idx)
        def items():
            return [r.pure("items[0]", vt=mk_vt("t0", True, 32)), Tok(tokt, op), r.pure("items[2]", vt=mk_vt("t2", True, 32))]
        fi, outs = r.run(cb, items)
        good = result_nodes(outs)
        ctx.need(good, f"{cb}[{op}] has no translating path")
        for o in good:
            v = o.value
            key = f"{cb}[{op}] operands"
            if not (isinstance(v, AObj) and v.cls == ncls):
                ctx.check(key, False, f"{ncls} node", lab(v), fn_where(idx, fi))
                continue
            a, b = lab(ctor(v, "a")), lab(ctor(v, "b"))
            ok_a = a == ea
            ok_b = (b in eb) if isinstance(eb, tuple) else (b == eb)
            exp = f"a={ea}, b={' or '.join(eb) if isinstance(eb, tuple) else eb}"
            ctx.check(key, ok_a and ok_b, exp, f"a={a}, b={b}", fn_where(idx, fi))
            # the enum member handed to the node is the one spelled like the token
            opt = ctor(v, "op_type") or ctor(v, "arith_type")
            spelled = opt.value if isinstance(opt, EnumV) else to_text(opt)
            ctx.check(f"{cb}[{op}] operator member", spelled == op, f"{ecls} member spelled {op!r}", f"{to_text(opt)}", fn_where(idx, fi))
    # unary ~ - !
    # ... for every kind of operand: a plain int, a narrow or wide one, and a truth value (C: `~(a < b)` is ~0 or ~1, an int)
    kinds = (("int", lambda: mk_vt("t1", True, 32), "Pure"), ("uint8", lambda: mk_vt("t1", False, 8), "LocalVar"), ("int64", lambda: mk_vt("t1", True, 64), "Register"),
             ("truth value of a comparison", lambda: mk_vt("t1", False, 1, ("PURE", "BOOL")), "CompareOp"), ("truth value of &&", lambda: mk_vt("t1", False, 1, ("PURE", "BOOL")), "BooleanOp"))
    for (op, ncls, ea), (kname, mk_t, kcls) in [(x, y) for x in (("~", "BitOp", "Promo(items[1])"), ("-", "BitOp", "Promo(items[1])"), ("!", "BooleanOp", "items[1]")) for y in kinds]:
        r = Runner(idx)
        r.fold = False
        fi, outs = r.run("unary_expr", lambda: [Tok("UNARY_OP", op), r.pure("items[1]", vt=mk_t(), cls=kcls)])
        good = result_nodes(outs)
        ctx.need(good, f"unary_expr[{op}] has no translating path")
        for o in good:
            v = o.value
            key = f"unary_expr[{op}] operand" + ("" if kname == "int" else f" ({kname})")
            if not (isinstance(v, AObj) and v.cls == ncls):
                ctx.check(key, False, f"{ncls} node", lab(v), fn_where(idx, fi))
                continue
            a, b = lab(ctor(v, "a")), ctor(v, "b")
            ctx.check(key, a == ea and b is None, f"a={ea}, b=None", f"a={a}, b={lab(b)}", fn_where(idx, fi))
            opt = ctor(v, "op_type")
            spelled = opt.value if isinstance(opt, EnumV) else to_text(opt)
            ctx.check(f"unary_expr[{op}] operator member", spelled == op, f"member spelled {op!r}", to_text(opt), fn_where(idx, fi))
    # && ||
    for op, cb, tokt in (("&&", "logical_and_expr", "AND_OP"), ("||", "logical_or_expr", "OR_OP")):
        r = Runner(idx)
        fi, outs = r.run(cb, lambda: [r.pure("items[0]", vt=mk_vt("t0", True, 32)), Tok(tokt, op), r.pure("items[2]", vt=mk_vt("t2", True, 32))])
        good = result_nodes(outs)
        ctx.need(good, f"{cb} has no translating path")
        for o in good:
            v = o.value
            key = f"{cb}[{op}] operands"
            if not (isinstance(v, AObj) and v.cls == "BooleanOp"):
                ctx.check(key, False, "BooleanOp node", lab(v), fn_where(idx, fi))
                continue
            a, b = lab(ctor(v, "a")), lab(ctor(v, "b"))
            ctx.check(key, truth_preserving(a, 0) and truth_preserving(b, 2), "a from items[0], b from items[2] through widening-only conversions", f"a={a}, b={b}", fn_where(idx, fi))
            opt = ctor(v, "op_type")
            spelled = opt.value if isinstance(opt, EnumV) else to_text(opt)
            ctx.check(f"{cb}[{op}] operator member", spelled == op, f"member spelled {op!r}", to_text(opt), fn_where(idx, fi))
    # ?: arms converted to their common type, condition untouched, arms in source order
    r = Runner(idx)
    fi, outs = r.run("conditional_expr", plain_items(r, 3))
    good = result_nodes(outs)
    ctx.need(good, "conditional_expr has no translating path")
    # usual arithmetic conversions = integer promotions first, then the common type (C11 6.5.15p5, 6.3.1.8)
    arms_ok = {"Common(Promo(items[1]),Promo(items[2]))"}
    for o in good:
        v = o.value
        key = "conditional_expr[?:] operands"
        if not (isinstance(v, AObj) and v.cls == "Ternary"):
            ctx.check(key, False, "Ternary node", lab(v), fn_where(idx, fi))
            continue
        c, t, e = lab(ctor(v, "cond")), lab(ctor(v, "then_p")), lab(ctor(v, "else_p"))
        ok = c == "items[0]" and t.endswith(".0") and e.endswith(".1") and t[:-2] in arms_ok and e[:-2] == t[:-2]
        ctx.check(key, ok, "cond=items[0], then=Common(Promo(items[1]),Promo(items[2])).0, else=.1", f"cond={c}, then={t}, else={e}", fn_where(idx, fi))
    # Common(x, y) converts the operands it is given (the promoted ones), whatever kind of node they are
    from .c03 import operand_kind_independence

    operand_kind_independence(ctx)


@rule("R02.4", "C02", "result type of operator nodes: (promoted) left operand type for arithmetic, bit and shift nodes; 1-bit BOOL for comparisons and logical operators", min_instances=9)
def r02_4(ctx):
    idx = get_index(ctx.env)
    from sa.absint import Sym

    def build(cls, mk_args, same):
        def once(interp):
            # precondition from R02.3: operands of common-type operators already share one type
            ta = mk_vt("ta", True, Sym("Wa"))
            tb = mk_vt("tb", True, Sym("Wa")) if same else mk_vt("tb", False, Sym("Wb"))
            tc = mk_vt("tc", False, Sym("Wb")) if same else mk_vt("tc", True, Sym("Wc"))
            a, b, c = mk_pure("a", ta), mk_pure("b", tb), mk_pure("c", tc)
            return interp.construct(cls, mk_args(a, b, c), {})

        return Interp(idx, sym_compare=interval_compare()).explore(once)

    def describe(o):
        if o.kind == "raise":
            return f"RAISE {o.value}"
        vt = o.value.fields.get("value_type")
        if isinstance(vt, AObj) and vt.cls == "ValueType":
            g = vt.fields.get("group")
            extra = " " + "+".join(sorted(g.members - {"PURE"})) if isinstance(g, FlagV) and g.members - {"PURE"} else ""
            s = vt.fields.get("_signed")
            return f"({'s' if s is True else 'u' if s is False else to_text(s)},{to_text(vt.fields.get('_bit_width')).strip('<>')}){extra}"
        return to_text(vt)

    cases = []
    am = members_by_value(idx, "ArithmeticType")
    for op in "+-*":
        cases.append((f"ArithmeticOp[{op}]", "ArithmeticOp", lambda a, b, c, m=am[op]: ["n", a, b, m], True, "(s,Wa)"))
    bm = members_by_value(idx, "BitOperationType")
    for op in ("&", "|", "^"):
        cases.append((f"BitOp[{op}]", "BitOp", lambda a, b, c, m=bm[op]: ["n", a, b, m], True, "(s,Wa)"))
    for op in ("<<", ">>"):
        cases.append((f"BitOp[{op}]", "BitOp", lambda a, b, c, m=bm[op]: ["n", a, b, m], False, "(s,Wa)"))
    for op in ("~", "-"):
        cases.append((f"BitOp[unary {op}]", "BitOp", lambda a, b, c, m=bm[op]: ["n", a, None, m], False, "(s,Wa)"))
    cm = members_by_value(idx, "CompareOpType")
    for op in cm:
        cases.append((f"CompareOp[{op}]", "CompareOp", lambda a, b, c, m=cm[op]: ["n", a, b, m], True, "(u,1) BOOL"))
    om = members_by_value(idx, "BooleanOpType")
    for op in ("&&", "||"):
        cases.append((f"BooleanOp[{op}]", "BooleanOp", lambda a, b, c, m=om[op]: ["n", a, b, m], False, "(u,1) BOOL"))
    cases.append(("BooleanOp[!]", "BooleanOp", lambda a, b, c, m=om["!"]: ["n", a, None, m], False, "(u,1) BOOL"))
    # Ternary(cond=c', then=a, else=b) with a, b of one type and the condition of another
    cases.append(("Ternary", "Ternary", lambda a, b, c: ["n", c, a, b], True, "(s,Wa)"))
    for key, cls, mk, same, exp in cases:
        outs = build(cls, mk, same)
        obs = " | ".join(sorted({describe(o) for o in outs}))
        fi = idx.func(f"{cls}.__init__")
        ctx.check(f"{key} result type", obs == exp, exp, obs, fn_where(idx, fi))


@rule("R02.5", "C02", "the type rules the operator lowering relies on are the C11 tables (shares C04's exhaustive tables)", min_instances=30)
def r02_5(ctx):
    from . import c04

    for fn in (c04.r04_1, c04.r04_3):
        fn(ctx)


@rule("R02.6", "C02", "constant operands: a literal has the type its suffix gives it, and constant sub-expressions the compiler evaluates itself have the C11 value and type", min_instances=40)
def r02_6(ctx):
    from .c09 import literal_rendering, r09_2, small_literal_typing

    small_literal_typing(ctx)
    r09_2(ctx)
    literal_rendering(ctx)  # ... and is printed with that value at that width (a folded mask ~0xffLL is a negative 64 bit constant)


@rule("R02.7", "C02", "the conversions an operator applies to its operands change the representation, not the value: widening fills with the SOURCE's sign, a truth value becomes 0 / 1", min_instances=8)
def r02_7(ctx):
    from .c03 import r03_1, r03_2, r03_6

    r03_1(ctx)
    r03_2(ctx)
    r03_6(ctx)  # the body of the Promo(...) step every operator relies on


def callback_operand_kind_independence(ctx):
    """The conversion history and node a callback builds for its operands must not depend on what KIND of value an operand is
    (register, variable, literal, cast, macro result, parameter, temporary ...): every expression callback is run once per value
    class in each operand position and has to build the same thing as for a plain operand.  (Constant folding is switched off:
    it is the one reviewed place where literals are treated differently, C09.)"""
    from sa.larkmodel import get_grammar, transformer_callbacks

    idx = get_index(ctx.env)
    gm = get_grammar(ctx.env)
    cbs = transformer_callbacks(idx)
    classes = sorted(c for c in set(idx.subclasses("Pure")) | set(idx.subclasses("Hybrid")) if c in idx.classes)
    ctx.need(len(classes) >= 15, f"value classes: only {len(classes)} found")
    specs = []
    for lit, cb, term in binary_productions(gm):
        if cb in cbs:
            specs.append((f"{cb}[{lit}]", cb, lambda r, a, b, term=term, lit=lit: [a, Tok(term, lit), b], (0, 2)))
    specs.append(("conditional_expr", "conditional_expr", lambda r, a, b: [r.pure("items[0]"), a, b], (1, 2)))
    for lit in ("~", "-", "!"):
        specs.append((f"unary_expr[{lit}]", "unary_expr", lambda r, a, b, lit=lit: [Tok("UNARY_OP", lit), a], (1,)))
    specs.append(("cast_expr", "cast_expr", lambda r, a, b: [mk_vt("T", False, 64), a], (1,)))
    ctx.need(len(specs) >= 20, f"only {len(specs)} callback specs")

    def run(cb, mk, ca, cb_cls, positions, widths=(32, 8)):
        # promotion_cast is evaluated for real: it hands a 32 / 64 bit operand on AS IT IS (so the callback sees the operand's own
        # class behind it) and wraps a narrow one
        r = Runner(idx, keep_real=("promotion_cast",))
        r.fold = False

        def items():
            ops = {}
            for k, c in zip(positions, (ca, cb_cls)):
                ops[k] = r.pure(f"items[{k}]", vt=mk_vt(f"t{k}", k == positions[0], widths[0] if k == positions[0] else widths[1]), cls=c)
            a = ops[positions[0]]
            b = ops[positions[1]] if len(positions) > 1 else None
            return mk(r, a, b)

        fi, outs = r.run(cb, items)
        res = set()
        for o in outs:
            if o.kind == "raise":
                res.add("RAISE")
            elif any(t.endswith(" folds") and v for t, v in o.decisions):
                continue
            else:
                v = o.value
                if isinstance(v, AObj) and "__ctor__" in v.fields:
                    res.add(v.cls + "(" + ", ".join(f"{k}={lab(x)}" for k, x in sorted(v.fields["__ctor__"].items()) if k not in ("name",)) + ")")
                else:
                    res.add(lab(v))
        return fi, res

    for key, cb, mk, positions in specs:
        differing = []
        base = None
        for widths in ((32, 8), (32, 32), (64, 32)):
            fi, base = run(cb, mk, "Pure", "Pure", positions, widths)
            ctx.need(base and base != {"RAISE"}, f"{key}: no translating path for plain operands")
            for c in classes:
                for pos in range(len(positions)):
                    ca, cbc = (c, "Pure") if pos == 0 else ("Pure", c)
                    _, got = run(cb, mk, ca, cbc, positions, widths)
                    if got != base:
                        differing.append(f"operand {positions[pos]} a {c} (widths {widths}): {sorted(got)[:1]}")
        ctx.check(f"{key} treats every kind of operand alike", not differing, f"the same result as for plain operands: {sorted(base)[:1]}", "; ".join(differing[:3]) or "ok", fn_where(idx, fi))


@rule("R02.8", "C02", "operand-kind independence: what an expression callback builds does not depend on the class of its operands", min_instances=20)
def r02_8(ctx):
    callback_operand_kind_independence(ctx)


@rule("R02.9", "C02", "`c ? a : b` with a constant c still has the common type of a and b (the compiler selects the arm itself)", min_instances=14)
def r02_9(ctx):
    from .c09 import folded_conditional_type

    folded_conditional_type(ctx)
    from .c03 import r03_7

    r03_7(ctx)  # an operand's declared type is its own object: `unsigned int x` must not turn every later `int` unsigned


@rule("R02.10", "C02", "operators group as in C: precedence and associativity of the expression tower (a chain of ?: nests to the right, binary operators to the left)", min_instances=25)
def r02_10(ctx):
    from .c06 import operand_order
    from .c17 import r17_1

    r17_1(ctx)
    operand_order(ctx)  # ... and an operator node keeps its operands on the sides the source put them, with the operator that was written


@rule("R02.11", "C02", "operands enter an operator with their own type and value: a conversion wraps its operand in a Cast whatever kind of node it is (a literal is not re-typed in place), and an immediate has the signedness of its letter in either case", min_instances=10)
def r02_11(ctx):
    from .c03 import init_a_cast_kind_independence
    from .c07 import r07_5

    init_a_cast_kind_independence(ctx)
    r07_5(ctx)
