"""C13 - reported instruction attributes are exactly those of the instruction part itself."""
from __future__ import annotations

import ast
import re
import copy
import itertools

from oracles import tables as O
from sa.absint import AObj, Interp, Opaque, Tok, to_text, EnumV
from sa.cbmodel import Runner
from sa.larkmodel import get_grammar, transformer_callbacks
from sa.pyindex import get_index, is_mutable_literal
from sa.report import PROP_ASSUMPTIONS, PROP_EXPLANATION, rule
from sa.symex import U, call_name, call_tail, paths_of

from .common import fn_where, mk_vt, outcome_text

PROP_EXPLANATION["C13"] = (
    "The flag state machine of HexagonTransformerExtension is extracted by abstract interpretation (token -> state change, "
    "get_meta over all 64 flag valuations x predicate lists), the callbacks that may/must signal each construct are read off "
    "the paths of every transformer method (must-call / who-may-call), reset completeness is a set comparison between the "
    "attributes get_meta reads and those reset_flags restores, and the per-part reset/collect order in transform_insn is a "
    "path rule over its loop body."
)
EXT = "HexagonTransformerExtension"
FLAGS = ["is_conditional", "uses_new", "writes_mem", "reads_mem", "branches", "writes_predicate"]


def self_attr_loads(fn):
    return {n.attr for n in ast.walk(fn) if isinstance(n, ast.Attribute) and isinstance(n.ctx, ast.Load) and isinstance(n.value, ast.Name) and n.value.id == "self"}


def self_attr_stores(fn):
    out = {}
    for n in ast.walk(fn):
        if isinstance(n, ast.Assign):
            for t in n.targets:
                if isinstance(t, ast.Attribute) and isinstance(t.value, ast.Name) and t.value.id == "self":
                    out[t.attr] = n.value
        elif isinstance(n, ast.AnnAssign) and isinstance(n.target, ast.Attribute) and isinstance(n.target.value, ast.Name) and n.target.value.id == "self" and n.value is not None:
            out[n.target.attr] = n.value
    return out


def norm_init(v):
    t = U(v)
    return {"list()": "[]", "dict()": "{}", "set()": "set()"}.get(t, t)


@rule("R13.1", "C13", "reset completeness: every attribute get_meta reads is restored to its initial value by reset_flags; no shared class-level container", min_instances=7)
def r13_1(ctx):
    idx = _get_idx(ctx)
    gm_fi = idx.func(f"{EXT}.get_meta")
    rf_fi = idx.func(f"{EXT}.reset_flags")
    init_fi = idx.func(f"{EXT}.__init__")
    ci = idx.cls(EXT)
    reads = sorted(a for a in self_attr_loads(gm_fi.node) if not idx.resolve_method(EXT, a))
    ctx.need(len(reads) >= 7, f"get_meta reads only {reads}")
    resets = self_attr_stores(rf_fi.node)
    inits = dict(ci.class_attrs)
    inits.update(self_attr_stores(init_fi.node))
    for a in reads:
        iv = inits.get(a)
        rv = resets.get(a)
        ctx.check(f"reset_flags restores {a}", rv is not None and iv is not None and norm_init(rv) == norm_init(iv),
                  f"{a} = {norm_init(iv) if iv is not None else '?'}", f"{a} = {norm_init(rv)}" if rv is not None else "not reset", fn_where(idx, rf_fi))
        cv = ci.class_attrs.get(a)
        shared = cv is not None and is_mutable_literal(cv) and a not in self_attr_stores(init_fi.node)
        ctx.check(f"{a} is per-instance state", not shared, "instance attribute (or immutable class default)", "class-level mutable container mutated through instances" if shared else "ok", fn_where(idx, init_fi))
    # RZILTransformer.reset() must reach reset_flags
    r = idx.func("RZILTransformer.reset")
    calls = [call_name(n) for n in ast.walk(r.node) if isinstance(n, ast.Call)]
    ctx.check("RZILTransformer.reset calls ext.reset_flags", "self.ext.reset_flags" in calls, "self.ext.reset_flags()", str(calls), fn_where(idx, r))


_IDX = {}


def _get_idx(ctx):
    idx = get_index(ctx.env)
    if _IDX.get("idx") is not idx:
        _IDX.clear()
        _IDX["idx"] = idx
    return idx


def _preds_init():
    """the representation the extension itself gives an empty set of written predicates (what reset_flags stores): the rules never
    assume it is a list"""
    idx = _IDX.get("idx")
    if idx is None or "init" in _IDX:
        return copy.deepcopy(_IDX.get("init", []))
    o = AObj(EXT, {k: False for k in FLAGS}, label="ext")
    try:
        Interp(idx).explore(lambda i: i.call_function(idx.func(f"{EXT}.reset_flags"), [], self_obj=o))
        _IDX["init"] = o.fields.get("preds_written", [])
    except Exception:
        _IDX["init"] = []
    return copy.deepcopy(_IDX["init"])


def fresh_ext(**over):
    f = {k: False for k in FLAGS}
    f["preds_written"] = _preds_init()
    f["missing_fcns"] = {}
    preds = over.pop("preds", None)
    f.update(over)
    o = AObj(EXT, f, label="ext")
    if preds:
        # written predicates are recorded through the extension's own setter (whatever it stores)
        idx = _IDX["idx"]
        keep = o.fields.get("writes_predicate")
        for p_ in preds:
            Interp(idx).explore(lambda i, p_=p_: i.call_function(idx.func(f"{EXT}.set_writes_pred"), [p_], self_obj=o))
        o.fields["writes_predicate"] = keep
    return o


def preds_of(o):
    """numbers of the predicates the extension would report as written, read through get_meta (representation independent)"""
    idx = _IDX["idx"]
    c = AObj(EXT, dict(o.fields), label="ext")
    c.fields["preds_written"] = copy.deepcopy(o.fields.get("preds_written"))
    c.fields["writes_predicate"] = True
    outs = Interp(idx).explore(lambda i: i.call_function(idx.func(f"{EXT}.get_meta"), [], self_obj=c))
    res = set()
    for out in outs:
        if out.kind == "return" and isinstance(out.value, list):
            res |= {int(m.group(1)) for x in out.value for m in [re.fullmatch(r"HEX_IL_INSN_ATTR_WRITE_P(\d+)", to_text(x))] if m}
    return tuple(sorted(res))


def ext_state(o):
    return tuple(sorted(k for k in FLAGS if o.fields.get(k) is True)), preds_of(o)


TOKEN_EFFECT = {
    ("mem_store", ()): (("writes_mem",), ()),
    ("mem_load", ()): (("reads_mem",), ()),
    ("new_reg", ()): (("uses_new",), ()),
    ("jump", ()): (("branches",), ()),
    ("selection_stmt", ()): (("is_conditional",), ()),
    ("explicit_reg", (("is_new", True),)): (("uses_new",), ()),
    ("explicit_reg", (("is_new", False),)): ((), ()),
    ("pred_write", (("pred_num", 0),)): (("writes_predicate",), (0,)),
    ("pred_write", (("pred_num", 1),)): (("writes_predicate",), (1,)),
    ("pred_write", (("pred_num", 2),)): (("writes_predicate",), (2,)),
    ("pred_write", (("pred_num", 3),)): (("writes_predicate",), (3,)),
    ("pred_write", (("pred_num", -1),)): (("writes_predicate",), ()),
}


def tokens_used(idx):
    toks = set()
    for fi in idx.funcs.values():
        for n in ast.walk(fi.node):
            if isinstance(n, ast.Call) and call_tail(n) == "set_token_meta_data" and n.args and isinstance(n.args[0], ast.Constant):
                toks.add(n.args[0].value)
    return toks


@rule("R13.2", "C13", "set_token_meta_data state machine: token -> flag change (incl. sequences: flags accumulate, predicate numbers accumulate)", min_instances=40)
def r13_2(ctx):
    idx = _get_idx(ctx)
    fi = idx.func(f"{EXT}.set_token_meta_data")

    def run(seq):
        box = {}

        def once(interp):
            e = fresh_ext()
            box["e"] = e
            for tok, kw in seq:
                interp.call_function(fi, [tok], dict(kw), self_obj=e)
            return None

        outs = Interp(idx).explore(once)
        res = set()
        for o in outs:
            res.add("RAISE " + str(o.value) if o.kind == "raise" else None)
        return outs, box

    # single tokens
    for (tok, kw), (flags, preds) in TOKEN_EFFECT.items():
        outs, box = run([(tok, kw)])
        obs = ext_state(box["e"]) if all(o.kind == "return" for o in outs) and len(outs) == 1 else ("paths", [outcome_text(o) for o in outs])
        ctx.check(f"set_token_meta_data[{tok}{dict(kw) if kw else ''}]", obs == (tuple(sorted(flags)), preds), f"{sorted(flags)} preds={list(preds)}", str(obs), fn_where(idx, fi))
    # neutral tokens: every other token the code base passes must change nothing
    neutral = sorted(tokens_used(idx) - {t for t, _ in TOKEN_EFFECT})
    ctx.need(len(neutral) >= 20, f"only {len(neutral)} neutral tokens found")
    for tok in neutral:
        outs, box = run([(tok, ())])
        obs = ext_state(box["e"])
        ctx.check(f"set_token_meta_data[{tok}] neutral", obs == ((), ()) and all(o.kind == "return" for o in outs), "no flag change", str(obs), fn_where(idx, fi), nontrivial=False)
    # pairs: order-independent accumulation
    keys = list(TOKEN_EFFECT)
    for a, b in itertools.permutations(keys, 2):
        outs, box = run([a, b])
        fa, pa = TOKEN_EFFECT[a]
        fb, pb = TOKEN_EFFECT[b]
        exp = (tuple(sorted(set(fa) | set(fb))), tuple(dict.fromkeys(pa + pb)))
        obs = ext_state(box["e"])
        ctx.check(f"set_token_meta_data[{a[0]}{dict(a[1]) or ''} ; {b[0]}{dict(b[1]) or ''}]", (obs[0], tuple(sorted(obs[1]))) == (exp[0], tuple(sorted(exp[1]))), str(exp), str(obs), fn_where(idx, fi))
    # reset after any token restores the initial state
    rf = idx.func(f"{EXT}.reset_flags")
    for k in keys:
        box = {}

        def once(interp, k=k):
            e = fresh_ext()
            box["e"] = e
            interp.call_function(fi, [k[0]], dict(k[1]), self_obj=e)
            interp.call_function(rf, [], self_obj=e)

        Interp(idx).explore(once)
        ctx.check(f"reset_flags after [{k[0]}{dict(k[1]) or ''}]", ext_state(box["e"]) == ((), ()), "initial state", str(ext_state(box["e"])), fn_where(idx, rf))


@rule("R13.4", "C13", "get_meta table over all flag valuations: flag <-> attribute string, WRITE_Pn only under WPRED, NONE iff nothing applies; no-op / unimplemented records", min_instances=64)
def r13_4(ctx):
    idx = _get_idx(ctx)
    fi = idx.func(f"{EXT}.get_meta")
    for bits in itertools.product([False, True], repeat=len(FLAGS)):
        for preds in ([], [0], [1, 3], [0, 1, 2, 3], [0, 0], [3, 3, 1, 1]):
            over = dict(zip(FLAGS, bits))
            over["preds"] = list(preds)

            def once(interp):
                return interp.call_function(fi, [], self_obj=fresh_ext(**over))

            outs = Interp(idx).explore(once)
            exp = {O.ATTR_STRINGS[f] for f, b in over.items() if f in O.ATTR_STRINGS and b}
            if over["writes_predicate"]:
                exp |= {f"HEX_IL_INSN_ATTR_WRITE_P{p}" for p in preds if p in range(4)}
            if not exp:
                exp = {"HEX_IL_INSN_ATTR_NONE"}
            obs = [sorted(to_text(x) for x in o.value) if o.kind == "return" and isinstance(o.value, list) else outcome_text(o) for o in outs]
            ok = len(obs) == 1 and obs[0] == sorted(exp)
            key = "get_meta[" + ",".join(f for f, b in zip(FLAGS, bits) if b) + f";preds={preds}]"
            ctx.check(key, ok, str(sorted(exp)), str(obs), fn_where(idx, fi), nontrivial=bool(preds == [] or over["writes_predicate"]))
    f2 = idx.func(f"{EXT}.get_noped_meta")
    outs = Interp(idx).explore(lambda i: i.call_function(f2, [], self_obj=fresh_ext()))
    ctx.check("get_noped_meta", [o.value for o in outs] == [["HEX_IL_INSN_ATTR_NONE"]], "['HEX_IL_INSN_ATTR_NONE']", str([o.value for o in outs]), fn_where(idx, f2))
    f3 = idx.func("RZILInstruction.get_unimplemented_rzil_instr")
    calls = [n for n in ast.walk(f3.node) if isinstance(n, ast.Call) and isinstance(n.func, ast.Name) and n.func.id == "RZILInstruction"]
    ctx.need(len(calls) == 1, "get_unimplemented_rzil_instr no longer constructs one RZILInstruction")
    args = calls[0].args
    ctx.check("unimplemented instruction record", len(args) >= 3 and U(args[2]) == "[['HEX_IL_INSN_ATTR_INVALID']]" and any(k.arg == "not_implemented" and U(k.value) == "True" for k in calls[0].keywords),
              "meta [['HEX_IL_INSN_ATTR_INVALID']], not_implemented=True", U(calls[0])[:120], fn_where(idx, f3))
    # transform_insn: no-op list -> get_noped_meta.  The list is consulted with the NORMALISED name (the one the record is filed under):
    # guards are read with local bindings substituted, so a hoisted `is_noped = ...` is seen through
    ti = idx.func("Compiler.transform_insn")
    name_param = ti.node.args.args[1].arg
    body_paths = []

    def collect(events):
        for e in events:
            if e.kind == "loop":
                for bp in e.extra:
                    body_paths.append(bp)
                    collect(bp.events)
    for p_ in paths_of(ti.node):
        collect(p_.events)
    ctx.need(body_paths, "transform_insn: per-part loop not found")
    nop_paths = [bp for bp in body_paths if any(e.kind == "call" and isinstance(e.node, ast.Call) and call_tail(e.node) == "get_noped_meta" for e in bp.events)]
    real_paths = [bp for bp in body_paths if any(e.kind == "call" and isinstance(e.node, ast.Call) and call_tail(e.node) == "get_meta" for e in bp.events)]
    ctx.check("transform_insn: the per-part loop has a no-op branch (get_noped_meta) and a compiling branch (transform, get_meta)", bool(nop_paths and real_paths),
              "both branches", f"paths reporting get_noped_meta: {len(nop_paths)}, paths reporting get_meta: {len(real_paths)}", fn_where(idx, ti))
    if not (nop_paths and real_paths):
        return

    def noped_guard(bp, polarity):
        for g, pol in bp.guards:
            t = U(g)
            if "noped_insns" in t and pol == polarity and isinstance(g, ast.Compare) and len(g.ops) == 1 and isinstance(g.ops[0], ast.In):
                return U(g.left)
        return None
    for kind, paths, pol in (("no-op record", nop_paths, True), ("compiled record", real_paths, False)):
        keys = sorted({str(noped_guard(bp, pol)) for bp in paths})
        ok = len(keys) == 1 and "transform_insn_name" in keys[0] and name_param in keys[0]
        ctx.check(f"transform_insn: {kind} is chosen by the normalised name's membership in the no-op list", ok, f"<ext>.transform_insn_name({name_param}) in self.noped_insns",
                  f"tested key: {keys}", fn_where(idx, ti))
    ok = all(any(e.kind == "call" and isinstance(e.node, ast.Call) and call_tail(e.node) == "transform" for e in bp.events) for bp in real_paths) and \
        not any(any(e.kind == "call" and isinstance(e.node, ast.Call) and call_tail(e.node) in ("transform", "get_meta") for e in bp.events) for bp in nop_paths)
    ctx.check("transform_insn: no-op list reports get_noped_meta, others get_meta after transform", ok, "no-op: get_noped_meta() only; else: transform(); get_meta()", "ok" if ok else "branch contents differ", fn_where(idx, ti))


WHO_MAY = {
    "mem_store": {"RZILTransformer.mem_store"},
    "mem_load": {"RZILTransformer.mem_load"},
    "new_reg": {"RZILTransformer.new_reg", f"{EXT}.reg_alias"},
    "jump": {"RZILTransformer.jump"},
    "selection_stmt": {"RZILTransformer.selection_stmt"},
    "explicit_reg": {"RZILTransformer.explicit_reg"},
    "pred_write": {"RZILTransformer.assignment_expr"},
}
UNCONDITIONAL = ["mem_store", "mem_load", "new_reg", "jump", "selection_stmt", "explicit_reg"]
SETTERS = {"set_uses_new", "set_writes_pred", "set_writes_mem", "set_reads_mem", "set_is_conditional", "set_branches"}


def new_operand_reporting(ctx):
    """whoever builds a .new register operand tells the extension (the NEW attribute has no other source): every function that asks for a
    register with is_new set - by a constant or a value of its own - also reports a new-value token"""
    idx = _get_idx(ctx)
    n = 0
    for fi in idx.funcs.values():
        if ".Tests" in fi.module or fi.cls not in ("RZILTransformer", EXT, "HexagonTransformerExtension"):
            continue
        params = {a.arg for a in fi.node.args.args}
        builds = []
        for c in ast.walk(fi.node):
            if not isinstance(c, ast.Call):
                continue
            t = call_tail(c)
            val = None
            if t == "hex_reg":
                val = c.args[1] if len(c.args) > 1 else next((k.value for k in c.keywords if k.arg == "is_new"), None)
            elif t == "Register" or call_name(c) == "Register":
                val = next((k.value for k in c.keywords if k.arg == "is_new"), None)
            if val is None or (isinstance(val, ast.Constant) and val.value is False):
                continue
            if isinstance(val, ast.Name) and val.id in params:
                continue  # handed through: the caller decides (and reports)
            builds.append(U(c)[:60])
        if not builds:
            continue
        n += 1
        reports = [U(c)[:70] for c in ast.walk(fi.node) if isinstance(c, ast.Call) and call_tail(c) == "set_token_meta_data" and c.args and isinstance(c.args[0], ast.Constant)
                   and (c.args[0].value == "new_reg" or (c.args[0].value == "explicit_reg" and any(k.arg == "is_new" for k in c.keywords)))]
        ctx.check(f"{fi.qual} builds a register that may be .new and reports it", bool(reports), "set_token_meta_data('new_reg') / ('explicit_reg', is_new=...)",
                  f"builds {builds[:2]}, reports nothing: the NEW attribute is lost for these operands" if not reports else f"reports via {reports[:1]}", fn_where(idx, fi))
    ctx.check("builders of .new operands found", n >= 3, ">= 3 (new_reg, explicit_reg, reg_alias)", str(n), "rzilcompiler/Transformer/RZILTransformer.py", nontrivial=False)


@rule("R13.3", "C13", "construct <=> flag: exactly the callbacks of the attribute-relevant productions signal the construct (must-call on all paths, who-may-call)", min_instances=25)
def r13_3(ctx):
    new_operand_reporting(ctx)
    idx = _get_idx(ctx)
    gm = get_grammar(ctx.env)
    callers = {t: set() for t in WHO_MAY}
    dyn = []
    for fi in idx.funcs.values():
        for n in ast.walk(fi.node):
            if isinstance(n, ast.Call) and call_tail(n) == "set_token_meta_data" and fi.name != "set_token_meta_data":
                if n.args and isinstance(n.args[0], ast.Constant):
                    if n.args[0].value in callers:
                        callers[n.args[0].value].add(fi.qual)
                else:
                    dyn.append(f"{fi.qual}: {U(n)}")
    ctx.check("set_token_meta_data is only called with literal tokens", not dyn, "literal token at every call site", "; ".join(dyn) or "ok", "rzilcompiler/")
    for tok, exp in WHO_MAY.items():
        ctx.check(f"who may signal {tok}", callers[tok] == exp, str(sorted(exp)), str(sorted(callers[tok])), "rzilcompiler/Transformer/RZILTransformer.py")
    # nobody else calls the setters or stores to the flags
    for fi in idx.funcs.values():
        for n in ast.walk(fi.node):
            if isinstance(n, ast.Call) and call_tail(n) in SETTERS and fi.qual != f"{EXT}.set_token_meta_data":
                ctx.check(f"{fi.qual} calls {call_tail(n)} directly", False, "flag setters are reached only through set_token_meta_data", U(n), fn_where(idx, fi))
            if isinstance(n, (ast.Assign, ast.AugAssign)):
                for t in (n.targets if isinstance(n, ast.Assign) else [n.target]):
                    if isinstance(t, ast.Attribute) and t.attr in FLAGS + ["preds_written"] and (fi.cls == EXT or U(t.value).endswith("ext")):
                        allowed = fi.cls == EXT and (fi.name in SETTERS or fi.name in ("reset_flags", "__init__"))
                        ctx.check(f"{fi.qual} stores to {t.attr}", allowed, "only the setters, reset_flags and __init__ store to a flag", U(n)[:80], fn_where(idx, fi), nontrivial=False)
            if isinstance(n, ast.Call) and isinstance(n.func, ast.Attribute) and n.func.attr in ("append", "extend", "insert", "remove", "clear", "pop") \
                    and isinstance(n.func.value, ast.Attribute) and n.func.value.attr == "preds_written":
                ctx.check(f"{fi.qual} mutates preds_written", fi.qual == f"{EXT}.set_writes_pred", "only set_writes_pred", U(n), fn_where(idx, fi), nontrivial=False)
    # the callbacks are bound to the productions of the construct
    cbs = transformer_callbacks(idx)
    for rulename in ("mem_store", "mem_load", "new_reg", "jump", "selection_stmt", "explicit_reg", "reg_alias", "assignment_expr"):
        alts = gm.rules.get(rulename)
        ctx.need(alts, f"grammar rule {rulename} missing")
        shapes = {gm.shape(a, cbs)[0] for a in alts if len(a.symbols) > 1 or rulename in ("new_reg",)}
        ctx.check(f"production {rulename} reaches its callback", shapes <= {"call"} and rulename in cbs, "call", str(shapes), gm.where(rulename))
    ifalts = [a for a in gm.rules["selection_stmt"] if a.symbols[0][0] == "IF"]
    ctx.check("`if` statements are selection_stmt productions", len(ifalts) == 2 and not any(any(s[0] == "IF" for s in a.symbols) for r, alts in gm.rules.items() if r != "selection_stmt" for a in alts),
              "IF only in selection_stmt", str([a.text() for r, alts in gm.rules.items() for a in alts if any(s[0] == "IF" for s in a.symbols)]), gm.where("selection_stmt"))
    for term, owner in (("MEM_LOAD", "mem_load"), ("MEM_STORE", "mem_store"), ("JUMP", "jump")):
        users = {r for r, alts in gm.rules.items() for a in alts for s in a.symbols if s[0] == term}
        ctx.check(f"terminal {term} only in {owner}", users == {owner}, owner, str(sorted(users)), gm.where(owner))
    nusers = {r for r, alts in gm.rules.items() for a in alts if [s[0] for s in a.symbols] == ["new_reg", "N"]}
    ctx.check(".new operands are `new_reg N`", nusers == {"_reg_variant"}, "_reg_variant: new_reg N", str(sorted(nusers)), gm.where("_reg_variant"))
    # must-call on every returning path
    for tok in UNCONDITIONAL:
        for q in sorted(WHO_MAY[tok]):
            if q.startswith(EXT):
                continue
            fi = idx.func(q)
            ps = [p for p in paths_of(fi.node) if p.outcome == "return"]
            ctx.need(ps, f"{q} has no returning path")
            missing = [p.guard_text() for p in ps if not any(e.node.args and isinstance(e.node.args[0], ast.Constant) and e.node.args[0].value == tok and not e.cond and not e.inloop
                                                              for e in p.calls(tail="set_token_meta_data"))]
            ctx.check(f"{q} signals {tok} on every translating path", not missing, "call on all returning paths", f"missing on: {missing[:2]}" if missing else "ok", fn_where(idx, fi))
    # explicit_reg: is_new <=> the _NEW child is present
    for has_new in (True, False):
        r = Runner(idx)
        fi, outs = r.run("explicit_reg", lambda: [Tok("__ANON_0", "R31"), Tok("_NEW", "_NEW") if has_new else None])
        vals = set()
        for o in outs:
            for ev in o.events:
                if ev[0] == "call" and ev[1] == "ext.set_token_meta_data" and ev[2] and ev[2][0] == "explicit_reg":
                    vals.add(repr(ev[3].get("is_new")))
        ctx.check(f"explicit_reg[_NEW {'present' if has_new else 'absent'}] is_new", vals == {repr(has_new)}, repr(has_new), str(sorted(vals)), fn_where(idx, fi))
    # reg_alias: _NEW child -> new_reg
    ra = idx.func(f"{EXT}.reg_alias")
    for has_new in (True, False):
        box = {}

        def hook(interp, callee, args, kwargs, text):
            from sa.absint import ClassRef
            if isinstance(callee, ClassRef) and callee.name == "Register":
                return AObj("Register", {"args": args, "kwargs": kwargs}, label="Register(...)", opaque=True)
            return NotImplemented

        def once(interp):
            e = fresh_ext(transformer=AObj("RZILTransformer", {"il_ops_holder": AObj("ILOpsHolder", {}, label="holder", opaque=True)}, label="tr", opaque=False))
            box["e"] = e
            tree = AObj("Tree", {}, label="tree", opaque=True)
            return interp.call_function(ra, [[Tok("__ANON_1", "GP"), tree if has_new else None]], self_obj=e)

        outs = Interp(idx, call_hook=hook).explore(once)
        states = set()
        news = set()
        for o in outs:
            states.add(ext_state(box["e"])[0])
            if o.kind == "return" and isinstance(o.value, AObj) and o.value.cls == "Register":
                news.add(repr(o.value.fields["kwargs"].get("is_new")))
        # explore() re-runs; evaluate the last run's state per outcome is imprecise, so use the union
        exp_state = {("uses_new",)} if has_new else {()}
        ctx.check(f"reg_alias[_NEW {'present' if has_new else 'absent'}] flag", states == exp_state, str(exp_state), str(states), fn_where(idx, ra))
        ctx.check(f"reg_alias[_NEW {'present' if has_new else 'absent'}] Register.is_new", news <= {repr(has_new)} and news, repr(has_new), str(news), fn_where(idx, ra))
    # assignment to a predicate register
    # (alias registers carry their lower-cased alias as ISA name: pc, pktcount ... are no predicates)
    for isa, exp in (("P0", ("pred_write", "get_pred_num")), ("P3", ("pred_write", "get_pred_num")), ("Pd", ("pred_write", -1)), ("Pe", ("pred_write", -1)), ("Rd", None), ("Rdd", None), (None, None),
                     ("pc", None), ("pktcount", None), ("gp", None), ("usr", None), ("Cd", None), ("Mu", None), ("Vd", None), ("Qd", None)):
        r = Runner(idx)
        def items():
            if isa is None:
                dest = r.pure("items[0]", vt=mk_vt("t0", True, 32))
            else:
                dest = r.pure("items[0]", vt=mk_vt("t0", True, 32), cls="Register")
                r.stubs[("items[0]", "get_isa_name")] = isa
                r.stubs[("items[0]", "get_pred_num")] = Opaque("get_pred_num")
            return [dest, Tok("ASSIGN_OP", "="), r.pure("items[2]", vt=mk_vt("t2", True, 32))]
        fi, outs = r.run("assignment_expr", items)
        seen = set()
        for o in outs:
            if o.kind == "raise":
                continue
            sig = None
            for ev in o.events:
                if ev[0] == "call" and ev[1] == "ext.set_token_meta_data" and ev[2] and ev[2][0] == "pred_write":
                    pn = ev[3].get("pred_num")
                    sig = ("pred_write", "get_pred_num" if isinstance(pn, Opaque) else pn)
            seen.add(sig)
        ctx.check(f"assignment_expr[dest {isa or 'not a register'}] predicate write signal", seen == {exp}, str(exp), str(seen), fn_where(idx, fi))
    # ... on every kind of assignment to it: compound operators and the outer target of a chain `P0 = RdV = 0`
    am13 = idx.enum_table("AssignmentType")
    variants = [(f"operator {op}", op, False) for op in ("+=", "|=", "&=", "^=", "<<=")] + [("outer target of a chained assignment", "=", True)]
    for vname, op, chained in variants:
        for isa, exp in (("P0", ("pred_write", "get_pred_num")), ("Pd", ("pred_write", -1))):
            r = Runner(idx)
            def items(isa=isa, op=op, chained=chained):
                dest = r.pure("items[0]", vt=mk_vt("t0", True, 32), cls="Register")
                r.stubs[("items[0]", "get_isa_name")] = isa
                r.stubs[("items[0]", "get_pred_num")] = Opaque("get_pred_num")
                if chained:
                    src = AObj("Assignment", {"src": r.pure("inner.src"), "dest": r.pure("inner.dest", cls="Register"), "assign_type": EnumV("AssignmentType", "ASSIGN", "=")}, label="items[2]", opaque=True)
                else:
                    src = r.pure("items[2]", vt=mk_vt("t2", True, 32))
                return [dest, Tok("ASSIGN_OP", op), src]
            fi, outs = r.run("assignment_expr", items, may_subclass=chained)
            seen = set()
            for o in outs:
                if o.kind == "raise":
                    continue
                sig = None
                for ev in o.events:
                    if ev[0] == "call" and ev[1] == "ext.set_token_meta_data" and ev[2] and ev[2][0] == "pred_write":
                        pn = ev[3].get("pred_num")
                        sig = ("pred_write", "get_pred_num" if isinstance(pn, Opaque) else pn)
                seen.add(sig)
            ctx.check(f"assignment_expr[dest {isa}, {vname}] predicate write signal", seen == {exp}, str(exp), str(seen), fn_where(idx, fi))
    # get_pred_num returns the digit
    gp = idx.func("Register.get_pred_num")
    for name, exp in (("P0", 0), ("P3", 3), ("P2_new", 2)):
        outs = Interp(idx).explore(lambda i: i.call_function(gp, [], self_obj=AObj("Register", {"isa_name": name, "name": name}, label="reg")))
        ctx.check(f"Register.get_pred_num[{name}]", [o.value for o in outs] == [exp], str(exp), str([outcome_text(o) for o in outs]), fn_where(idx, gp))


@rule("R13.5", "C13", "transform_insn collects attributes per part: reset before each part's transform, get_meta after it", min_instances=2)
def r13_5(ctx):
    idx = _get_idx(ctx)
    fi = idx.func("Compiler.transform_insn")
    ps = paths_of(fi.node)
    loops = []
    for p in ps:
        for e in p.events:
            if e.kind == "loop":
                loops.append(e)
    ctx.need(loops, "transform_insn has no per-part loop")
    checked = 0
    for lp in loops[:1]:
        header = lp.node
        ctx.check("transform_insn iterates over (ast, behaviour) pairs of the parsed instruction", header[0] == "for" and "parsed_insns.asts" in U(header[2]),
                  "for pt, text in zip(parsed_insns.asts, parsed_insns.behaviors)", U(header[2]), fn_where(idx, fi))
        for bp in lp.extra:
            names = [call_name(e.node) for e in bp.events if e.kind == "call"]
            if "self.transformer.transform" not in names:
                # no-op branch: still must reset before reporting
                ok = "self.transformer.reset" in names and names.index("self.transformer.reset") < names.index("self.transformer.ext.get_noped_meta") if "self.transformer.ext.get_noped_meta" in names else False
                ctx.check("per-part order (no-op part)", ok, "reset < get_noped_meta", str([n for n in names if n and n.startswith('self.transformer')]), fn_where(idx, fi))
                checked += 1
                continue
            i_t = names.index("self.transformer.transform")
            resets = [i for i, n in enumerate(names) if n == "self.transformer.reset"]
            metas = [i for i, n in enumerate(names) if n == "self.transformer.ext.get_meta"]
            ok = any(i < i_t for i in resets) and len(metas) == 1 and metas[0] > i_t and not any(i_t < i < metas[0] for i in resets)
            ctx.check("per-part order (translated part)", ok, "reset < transform < get_meta (no reset in between)", str([n for n in names if n and n.startswith('self.transformer')]), fn_where(idx, fi))
            checked += 1
    ctx.need(checked >= 2, "loop body paths of transform_insn not recognised")
    # the record returned for this call is built from this call's own parts (never a stored earlier result)
    rets = [p for p in ps if p.outcome == "return"]
    ctx.need(rets, "transform_insn has no returning path")
    for p in rets:
        kinds = [(e.kind, call_tail(e.node) if e.kind == "call" else None) for e in p.events]
        has_loop = any(k == "loop" for k, _ in kinds)
        i_loop = next((i for i, (k, _) in enumerate(kinds) if k == "loop"), None)
        i_rec = next((i for i, (k, t) in enumerate(kinds) if k == "call" and t == "RZILInstruction"), None)
        ok = has_loop and i_rec is not None and i_loop < i_rec
        guards = [("" if pol else "not ") + U(g) for g, pol in p.guards]
        ctx.check("every returning path of transform_insn runs the per-part loop and builds its record from it", ok, "loop over the parts, then RZILInstruction(insn, rzil, meta, trees)",
                  f"path under {guards[:3]} returns {U(p.value)[:50] if p.value is not None else None} without " + ("the per-part loop" if not has_loop else "building a record"), fn_where(idx, fi), nontrivial=False)
    recs = [e.node for p in rets for e in p.events if e.kind == "call" and call_tail(e.node) == "RZILInstruction"]
    # which list receives get_meta() in the loop?  that list must be the record's attribute argument
    sinks = {U(n.func.value) for n in ast.walk(fi.node) if isinstance(n, ast.Call) and isinstance(n.func, ast.Attribute) and n.func.attr == "append" and n.args
             and isinstance(n.args[0], ast.Call) and call_tail(n.args[0]) == "get_meta"}
    ctx.need(len(sinks) == 1, f"transform_insn: list receiving get_meta() not identified ({sorted(sinks)})")
    ctor_params = [a.arg for a in idx.func("RZILInstruction.__init__").node.args.args[1:]]
    ctx.need("meta" in ctor_params, f"RZILInstruction.__init__ has no meta parameter: {ctor_params}")
    for c in recs[:1]:
        args = [U(a) for a in c.args]
        kw = {k.arg: U(k.value) for k in c.keywords}
        i = ctor_params.index("meta")
        got = args[i] if i < len(args) else kw.get("meta")
        ctx.check("the record carries the per-part attribute list filled in the loop", got in sinks, f"meta argument = {sorted(sinks)[0]}", str(got), fn_where(idx, fi))


@rule("R13.6", "C13", "the attributes describe the construct that was transformed, not how it was printed: flags are only set while the tree is transformed, never from the emission phase", min_instances=1)
def r13_6(ctx):
    from .c16 import phase_separation

    phase_separation(ctx)


@rule("R13.7", "C13", "the attribute flags of a part never survive into the next one: reset() restores them on every path, whatever the rest of the transformer's state looks like", min_instances=3)
def r13_7(ctx):
    from .c14 import reset_is_unconditional

    reset_is_unconditional(ctx)


def extension_ownership(ctx):
    """the attribute flags live in the extension object; a transform reports its own part only if no other transformer (a routine body's,
    another compiler's) writes into the same object.  Rule: every store into an attribute that holds an extension is a fresh construction,
    and it is the transformer's own (`self.<attr> = Ext(...)`); an extension is never handed from one object to another."""
    idx = _get_idx(ctx)
    ext_classes = {c for c, ci in idx.classes.items() if idx.resolve_method(c, "set_token_meta_data") and idx.resolve_method(c, "get_meta")}
    ctx.need(ext_classes, "no class with set_token_meta_data and get_meta found")

    def ctor_of(v):
        return call_tail(v) if isinstance(v, ast.Call) else None

    def is_fresh(v, depth=0):
        """a constructor call, or a call of a function of the package every return of which is one"""
        if isinstance(v, ast.IfExp):
            return is_fresh(v.body, depth) and is_fresh(v.orelse, depth)
        c = ctor_of(v)
        if c is None or depth > 2:
            return False
        if c in idx.classes:
            return True
        cands = [f for f in idx.funcs.values() if f.name == c]
        rets = [r.value for f in cands for r in ast.walk(f.node) if isinstance(r, ast.Return)]
        return bool(cands) and bool(rets) and all(r is not None and is_fresh(r, depth + 1) for r in rets)

    def yields_ext(v, depth=0):
        """an extension constructor call, or a call of a function every return of which is one (a factory)"""
        c = ctor_of(v)
        if c is None or depth > 2:
            return False
        if c in ext_classes:
            return True
        cands = [f for f in idx.funcs.values() if f.name == c]
        rets = [r_.value for f in cands for r_ in ast.walk(f.node) if isinstance(r_, ast.Return)]
        return bool(cands) and bool(rets) and all(r_ is not None and yields_ext(r_, depth + 1) for r_ in rets)

    holders = set()
    stores = []
    for q, fi in idx.funcs.items():
        for n in ast.walk(fi.node):
            tv = []
            if isinstance(n, ast.Assign):
                tv = [(t, n.value) for t in n.targets]
            elif isinstance(n, ast.AnnAssign) and n.value is not None:
                tv = [(n.target, n.value)]
            elif isinstance(n, ast.Call) and call_tail(n) == "setattr" and len(n.args) == 3 and isinstance(n.args[1], ast.Constant):
                stores.append((fi, n, U(n.args[0]), n.args[1].value, n.args[2]))
                continue
            for t, v in tv:
                for t_ in (t.elts if isinstance(t, ast.Tuple) else [t]):
                    if isinstance(t_, ast.Attribute):
                        stores.append((fi, n, U(t_.value), t_.attr, v))
                        if yields_ext(v):
                            holders.add(t_.attr)
    ctx.need(holders, "no attribute is ever given an extension object")
    seen = 0
    for fi, n, recv, attr, v in stores:
        if attr not in holders:
            continue
        seen += 1
        fresh = is_fresh(v)
        own = recv == "self"
        ctx.check(f"store into .{attr} in {fi.qual}: a fresh extension of the object's own", fresh and own, f"self.{attr} = <Extension>(...)", f"{recv}.{attr} = {U(v)[:60]}", idx.where(n, fi.path))
    ctx.need(seen >= 1, "no store into an extension attribute seen")
    # the extension's flags are written by the extension's own methods only (nobody reaches into another object's flags)
    r13 = set(FLAGS) | {"preds_written"}
    for q, fi in idx.funcs.items():
        if fi.cls in ext_classes or any(fi.cls in idx.subclasses(e) for e in ext_classes if fi.cls):
            continue
        for n in ast.walk(fi.node):
            ts = []
            if isinstance(n, ast.Assign):
                ts = n.targets
            elif isinstance(n, (ast.AugAssign, ast.AnnAssign)):
                ts = [n.target]
            for t in ts:
                if isinstance(t, ast.Attribute) and t.attr in r13 and isinstance(t.value, ast.Attribute) and t.value.attr in holders:
                    ctx.check(f"{fi.qual} writes the flag {t.attr} of an extension from outside", False, "flags are written by the extension's own methods", U(n)[:80], idx.where(n, fi.path))
    ctx.check("flags of an extension are written by its own methods only (scan done)", True, "scan", "scan", "rzilcompiler/")


@rule("R13.8", "C13", "a transformer owns its extension: the object that collects the attribute flags is built fresh by its transformer and never handed to another one (a routine body compiled in between leaves no flags behind)", min_instances=2)
def r13_8(ctx):
    extension_ownership(ctx)


@rule("R13.9", "C13", "the NEW attribute follows the operand's spelling for every alias register: `<alias>_NEW` is a new-value read, also for the program counter", min_instances=12)
def r13_9(ctx):
    from .c07 import r07_7

    r07_7(ctx)


@rule("R13.10", "C13", "the attributes of a part are its own whatever way the previous compilation ended: every entry point resets the transformer (flags and written predicates) on every exit, also an exceptional one", min_instances=2)
def r13_10(ctx):
    from .c14 import r14_2

    r14_2(ctx)
