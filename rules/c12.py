"""C12 - IL node ownership is linear: one consuming use, DUP for the rest."""
from __future__ import annotations

import ast
import re

from sa.absint import AObj, EnumV, FlagV, Interp, Opaque, Sym, Tok, to_text
from sa.cbmodel import Runner
from sa.pyindex import get_index
from sa.report import PROP_ASSUMPTIONS, PROP_EXPLANATION, rule
from sa.symex import U, call_name, call_tail, paths_of
from sa.template import normalise

from .c02 import ctor, lab
from .c07 import reg_obj
from .common import fn_where, interval_compare, mk_pure, mk_vt, outcome_text

PROP_EXPLANATION["C12"] = (
    "The counter protocol of every il_read implementation is interpreted abstractly over the COUNTER domain (state 0 -> raw "
    "variable, state >= 1 -> DUP(variable), the counter grows on every call), single initialisation of PureExec/Hybrid likewise; "
    "every emit_* loop is checked to append each non-empty initialiser it generates (must-use); a who-may-call rule restricts the "
    "callers of il_read/il_exec/il_write to the emission closure, so that no comment text, constructor or grammar callback consumes "
    "a read; the register initialise/read tables must agree (what is initialised is what reads consume). That every effect object has "
    "exactly one parent is not decided."
)


def seq_calls(idx, fi, mk_obj, n=3, hook=None):
    box = {}

    def once(i):
        o = mk_obj()
        box["o"] = o
        return [i.call_function(fi, [], self_obj=o) for _ in range(n)]

    outs = Interp(idx, call_hook=hook).explore(once)
    return outs, box


@rule("R12.1", "C12", "DUP protocol: the first read of a variable-holding pure is raw, every later read is DUP(var); inlined nodes re-render; the counter grows on every read", min_instances=10)
def r12_1(ctx):
    idx = get_index(ctx.env)
    cases = [
        ("GlobalVar", lambda: AObj("GlobalVar", {"reads": 0, "name": "Rs", "isa_name": None}, label="self"), ["Rs", "DUP(Rs)", "DUP(Rs)"]),
        ("PureExec", lambda: AObj("PureExec", {"reads": 0, "inlined": False, "name": "op_ADD_3", "isa_name": None, "ops": []}, label="self"), ["op_ADD_3", "DUP(op_ADD_3)", "DUP(op_ADD_3)"]),
        ("Parameter", lambda: AObj("Parameter", {"reads": 0, "name": "t", "isa_name": None, "value_type": mk_vt("pt", False, 32)}, label="self"), ["t", "DUP(t)", "DUP(t)"]),
        ("Parameter[external]", lambda: AObj("Parameter", {"reads": 0, "name": "bundle", "isa_name": None, "value_type": mk_vt("pt", False, 64, ("EXTERNAL",))}, label="self"), ["bundle", "bundle", "bundle"]),
        # whatever further flags the parameter's type carries (a statement-expression valued by the parameter flags it in place)
        ("Parameter[pure|hybrid value]", lambda: AObj("Parameter", {"reads": 0, "name": "t", "isa_name": None, "value_type": mk_vt("pt", False, 32, ("PURE", "HYBRID_LVAR"))}, label="self"), ["t", "DUP(t)", "DUP(t)"]),
        ("Parameter[pure|const]", lambda: AObj("Parameter", {"reads": 0, "name": "t", "isa_name": None, "value_type": mk_vt("pt", False, 32, ("PURE", "CONST"))}, label="self"), ["t", "DUP(t)", "DUP(t)"]),
        ("Parameter[pure|bool]", lambda: AObj("Parameter", {"reads": 0, "name": "t", "isa_name": None, "value_type": mk_vt("pt", False, 1, ("PURE", "BOOL"))}, label="self"), ["t", "DUP(t)", "DUP(t)"]),
        ("LocalVar", lambda: AObj("LocalVar", {"reads": 0, "name": "x", "isa_name": None}, label="self"), ['VARL("x")'] * 3),
        ("LetVar[inlined]", lambda: AObj("Number", {"reads": 0, "inlined": True, "value": 5, "value_type": mk_vt("t", True, 32)}, label="self"), ["SN(32, 5)"] * 3),
        ("Register[R]", lambda: reg_obj("Rs", "R", idx), ["Rs", "DUP(Rs)", "DUP(Rs)"]),
        ("Register[Rx]", lambda: reg_obj("Rx", "RW", idx), ["READ_REG(pkt, Rx_op, false)"] * 3),
        ("Register[W]", lambda: reg_obj("Rd", "W", idx), ["READ_REG(pkt, Rd_op, true)"] * 3),
        # registers whose access class is settled by their first use (explicit / alias registers, with and without .new)
        ("Register[alias, access unknown]", lambda: reg_obj("usr", "UNKNOWN", idx, is_alias=True), ["usr", "DUP(usr)", "DUP(usr)"]),
        ("Register[explicit, access unknown]", lambda: reg_obj("R31", "UNKNOWN", idx, is_explicit=True), ["R31", "DUP(R31)", "DUP(R31)"]),
        ("Register[explicit pair, access unknown]", lambda: reg_obj("R1:0", "UNKNOWN", idx, is_explicit=True), ["R1_0", "DUP(R1_0)", "DUP(R1_0)"]),
        ("Register[alias .new, access unknown]", lambda: reg_obj("lr", "UNKNOWN", idx, is_alias=True, is_new=True), ["lr_new", "DUP(lr_new)", "DUP(lr_new)"]),
        ("Register[PR]", lambda: reg_obj("Rss", "PR", idx), ["Rss", "DUP(Rss)", "DUP(Rss)"]),
    ]
    for name, mk, exp in cases:
        cls = name.split("[")[0]
        cls = {"LetVar": "LetVar"}.get(cls, cls)
        fi = idx.func(f"{cls}.il_read")
        outs, box = seq_calls(idx, fi, mk)
        got = [[normalise(to_text(x)) for x in o.value] if o.kind == "return" else outcome_text(o) for o in outs]
        ctx.check(f"{name}.il_read x3", got == [exp], str(exp), str(got), fn_where(idx, fi))
        if name in ("GlobalVar", "PureExec", "Parameter", "Register[R]", "Register[alias, access unknown]", "Register[explicit, access unknown]"):
            ctx.check(f"{name}: read counter grows by one per read", box["o"].fields.get("reads") == 3, "reads == 3", str(box["o"].fields.get("reads")), fn_where(idx, fi), nontrivial=False)
    # inlined PureExec re-renders through resolve_lets
    fi = idx.func("PureExec.il_read")
    def hook(interp, callee, args, kwargs, text):
        if getattr(callee, "name", None) == "resolve_lets" or getattr(callee, "qual", "").endswith(":resolve_lets"):
            return Opaque("resolve_lets(ops, self)")
        return NotImplemented
    outs, _ = seq_calls(idx, fi, lambda: AObj("PureExec", {"reads": 0, "inlined": True, "ops": []}, label="self"), 2, hook)
    got = [[to_text(x) for x in o.value] if o.kind == "return" else outcome_text(o) for o in outs]
    ctx.check("PureExec[inlined].il_read re-renders", got == [["<resolve_lets(ops, self)>"] * 2], "resolve_lets(self.ops, self) every time", str(got), fn_where(idx, fi))
    # non-inlined literal bound by LET: raw on first LET, DUP later
    fr = idx.func("resolve_lets")
    def once(i):
        let = AObj("Number", {"inlined": False, "reads": 0, "name": "c", "isa_name": None}, label="c")
        cons = AObj("PureExec", {}, label="consumer", opaque=True)
        return [i.call_function(fr, [[let], cons]), i.call_function(fr, [[let], cons])]
    outs = Interp(idx).explore(once)
    got = [[normalise(to_text(x)) for x in o.value] if o.kind == "return" else outcome_text(o) for o in outs]
    exp = ['LET("c", c, <consumer.il_exec()>)', 'LET("c", DUP(c), <consumer.il_exec()>)']
    ctx.check("resolve_lets: LET value raw once, then DUP", got == [exp], str(exp), str(got), fn_where(idx, fr))
    immediate_read_protocol(ctx)


def immediate_read_protocol(ctx):
    """an immediate is copied into its IL variable once (the copy-assignment consumes the fetched C value); every other read - also the
    source of a later assignment, after the behaviour may have changed the immediate - reads the IL variable"""
    idx = get_index(ctx.env)
    fim = idx.func("Immediate.il_read")
    def once2(i):
        o = AObj("Immediate", {"reads": 0, "assign_reads": 0, "assign_usage": True, "name": "s", "isa_name": "s"}, label="self")
        a = i.call_function(fim, [], self_obj=o)
        b = i.call_function(fim, [], self_obj=o)
        o.fields["assign_usage"] = True
        c = i.call_function(fim, [], self_obj=o)
        return [a, b, c]
    outs = Interp(idx).explore(once2)
    got = [[to_text(x) for x in o.value] if o.kind == "return" else outcome_text(o) for o in outs]
    ctx.check("Immediate: raw pure only for the first copy-assignment", got == [["s", 'VARL("s")', 'VARL("s")']], "['s', 'VARL(\"s\")', 'VARL(\"s\")']", str(got), fn_where(idx, fim))
    fa = idx.func("Assignment.il_write")
    et = idx.enum_table("EffectType")
    def once3(i):
        imm = AObj("Immediate", {"reads": 0, "assign_reads": 0, "assign_usage": False, "name": "s", "isa_name": "s"}, label="imm")
        a = AObj("Assignment", {"type": EnumV("EffectType", "SETL", et["SETL"]), "dest": imm, "src": imm}, label="self")
        return i.call_function(fa, [], self_obj=a)
    outs = Interp(idx).explore(once3)
    got = {normalise(outcome_text(o)) for o in outs}
    ctx.check("the immediate's copy-assignment consumes the raw pure", got == {'SETL("s", s)'}, 'SETL("s", s)', str(sorted(got)), fn_where(idx, fa))
    # the IL variable of an immediate carries the immediate's own letter, case preserved (#u and #U are two operands)
    fv = idx.resolve_method("Immediate", "vm_id")
    ctx.need(fv is not None, "Immediate.vm_id not found")
    names = {}
    for letter in ("s", "S", "u", "U", "r", "R"):
        outs = Interp(idx).explore(lambda i, letter=letter: i.call_function(fv, [], self_obj=AObj("Immediate", {"name": letter, "isa_name": letter, "reads": 0}, label="self")))
        names[letter] = sorted({to_text(o.value) if o.kind == "return" else "RAISE" for o in outs})
    ok = all(v == [f'"{k}"'] for k, v in names.items())
    ctx.check("immediates of different letters (and cases) have different IL variables", ok, "vm_id() == the quoted letter", str(names), fn_where(idx, fv))


def external_parameter_checks(ctx):
    """pkt / hi / bundle are Parameter objects that live as long as the Compiler: what a read of them prints must not depend on
    how often they were read before (they are plugin C values, never DUP'ed)"""
    idx = get_index(ctx.env)
    fi = idx.func("Parameter.il_read")
    for nm, groups in (("bundle", ("EXTERNAL",)), ("pkt", ("EXTERNAL",)), ("hi", ("EXTERNAL", "CONST"))):
        for start in (0, 1, 7):
            outs, _ = seq_calls(idx, fi, lambda nm=nm, groups=groups, start=start: AObj("Parameter", {"reads": start, "name": nm, "isa_name": None, "value_type": mk_vt("pt", False, 64, groups)}, label="self"), 2)
            got = [[normalise(to_text(x)) for x in o.value] if o.kind == "return" else outcome_text(o) for o in outs]
            ctx.check(f"external parameter {nm} read after {start} earlier reads", got == [[nm, nm]], str([nm, nm]), str(got), fn_where(idx, fi))


def single_initialisation_per_class(ctx):
    """every operation class prints its declaration at most once (the per-statement layout asks every operation below a statement for
    it, so an operation that several statements reach is asked several times): the class's own il_init_var, wherever it is defined"""
    idx = get_index(ctx.env)

    def hook(interp, callee, args, kwargs, text):
        from sa.absint import BoundMethod
        if isinstance(callee, BoundMethod) and callee.finfo.name in ("il_exec", "il_write", "il_read") and callee.obj is not None and callee.obj.label == "self":
            return Opaque(f"{callee.finfo.name}()")
        return NotImplemented
    classes = sorted(c for c in idx.subclasses("PureExec") if c in idx.classes and "Hybrid" not in idx.mro(c))
    ctx.need(len(classes) >= 8, f"operation classes: only {len(classes)} found")
    for c in classes:
        fi = idx.resolve_method(c, "il_init_var")
        if fi is None:
            continue
        for inlined in (False, True):
            mk = lambda c=c, inlined=inlined: AObj(c, {"inlined": inlined, "init_counter": 0, "lets": [], "name": "op_3", "isa_name": None, "ops": [], "reads": 0}, label="self")
            try:
                outs, _ = seq_calls(idx, fi, mk, 3, hook)
                got = [[normalise(to_text(x)) for x in o.value] if o.kind == "return" else outcome_text(o) for o in outs]
            except Exception as e:
                got = [f"not evaluable: {type(e).__name__}: {e}"]
            ok = len(got) == 1 and isinstance(got[0], list) and len(got[0]) == 3 and got[0][1] == "" and got[0][2] == "" and (got[0][0] == "" or (not inlined and got[0][0].startswith("RzILOpPure *op_3 = ")))
            ctx.check(f"{c}.il_init_var x3 [{'inlined' if inlined else 'own variable'}]", ok, "'' when inlined; otherwise the declaration at most once, then ''", str(got)[:140], fn_where(idx, fi), nontrivial=(fi.cls == c))


def single_effect_declaration_per_hybrid_class(ctx):
    """every hybrid class (calls, x++, statement-expressions, routines) declares its effect at most once, through whichever of the three
    initialisers the layouts use - the class's own method, wherever it is defined (a class that overrides one of them must keep the
    once-guard: each enclosing statement of the statement layout asks again)"""
    idx = get_index(ctx.env)

    def hook(interp, callee, args, kwargs, text):
        from sa.absint import BoundMethod
        if isinstance(callee, BoundMethod) and callee.finfo.name in ("il_exec", "il_write", "il_read") and callee.obj is not None and callee.obj.label == "self":
            return Opaque(f"{callee.finfo.name}()")
        return NotImplemented
    classes = sorted(c for c in idx.subclasses("Hybrid") if c in idx.classes)
    ctx.need(len(classes) >= 4, f"hybrid classes: only {classes}")
    for c in classes:
        for m in ("il_init_var", "il_init_effect_var"):
            fi = idx.resolve_method(c, m)
            if fi is None:
                continue
            mk = lambda c=c: AObj(c, {"effect_init_count": 0, "pure_init_count": 0, "init_counter": 0, "name": "h_3", "isa_name": None, "ops": [], "reads": 0, "inlined": False, "lets": [],
                                      "value_type": mk_vt("t", True, 32)}, label="self")
            try:
                outs, _ = seq_calls(idx, fi, mk, 3, hook)
                got = [[normalise(to_text(x)) for x in o.value] if o.kind == "return" else outcome_text(o) for o in outs]
            except Exception as e:
                got = [f"not evaluable: {type(e).__name__}: {e}"]
            ok = len(got) == 1 and isinstance(got[0], list) and len(got[0]) == 3 and got[0][1] == "" and got[0][2] == ""
            ctx.check(f"{c}.{m} x3", ok, "the declaration at most once, then ''", str(got)[:160], fn_where(idx, fi), nontrivial=(fi.cls == c))


@rule("R12.2", "C12", "single initialisation: a PureExec / Hybrid prints its initialiser at most once", min_instances=3)
def r12_2(ctx):
    single_effect_declaration_per_hybrid_class(ctx)
    idx = get_index(ctx.env)
    def hook(interp, callee, args, kwargs, text):
        from sa.absint import BoundMethod
        if isinstance(callee, BoundMethod) and callee.finfo.name in ("il_exec", "il_write") and callee.obj is not None and callee.obj.label == "self":
            return Opaque(f"{callee.finfo.name}()")
        return NotImplemented
    fi = idx.func("PureExec.il_init_var")
    outs, _ = seq_calls(idx, fi, lambda: AObj("PureExec", {"inlined": False, "init_counter": 0, "lets": [], "name": "op_3", "isa_name": None}, label="self"), 3, hook)
    got = [[normalise(to_text(x)) for x in o.value] if o.kind == "return" else outcome_text(o) for o in outs]
    ctx.check("PureExec.il_init_var x3", got == [["RzILOpPure *op_3 = <il_exec()>;", "", ""]], "initialiser once, then ''", str(got), fn_where(idx, fi))
    fi = idx.func("Hybrid.il_init_var")
    outs, _ = seq_calls(idx, fi, lambda: AObj("Hybrid", {"effect_init_count": 0, "name": "c_call_4"}, label="self"), 3, hook)
    got = [[normalise(to_text(x)) for x in o.value] if o.kind == "return" else outcome_text(o) for o in outs]
    ctx.check("Hybrid.il_init_var x3", got == [["RzILOpEffect *c_call_4 = <il_write()>;", "", ""]], "initialiser once, then ''", str(got), fn_where(idx, fi))
    single_initialisation_per_class(ctx)
    # Register.il_init_var is reached only from the READ block
    callers = sorted({fi2.qual for fi2 in idx.funcs.values() for n in ast.walk(fi2.node) if isinstance(n, ast.Call) and call_tail(n) == "il_init_var" and fi2.cls == "RZILTransformer"})
    exp = ["RZILTransformer.emit_exec_block", "RZILTransformer.emit_final_seq_return", "RZILTransformer.emit_read_block", "RZILTransformer.emit_stmt_blocks", "RZILTransformer.emit_write_block"]
    ctx.check("initialisers are requested only by the emit functions", callers == exp, str(exp), str(callers), "rzilcompiler/Transformer/RZILTransformer.py")


@rule("R12.3", "C12", "everything generated is emitted: in every emit_* loop each non-empty initialiser is appended to the output", min_instances=5)
def r12_3(ctx):
    idx = get_index(ctx.env)
    for q in ("emit_read_block", "emit_exec_block", "emit_write_block", "emit_stmt_blocks"):
        fi = idx.func(f"RZILTransformer.{q}")
        ps = paths_of(fi.node)
        loops = []
        def collect(evs):
            for e in evs:
                if e.kind == "loop":
                    loops.append(e)
                    for bp in e.extra:
                        collect(bp.events)
        for p in ps:
            collect(p.events)
        ctx.need(loops, f"{q}: loop not found")
        n = 0
        for lp in loops:
            for bp in lp.extra:
                inits = [e for e in bp.events if e.kind == "call" and call_tail(e.node) == "il_init_var"]
                if not inits:
                    continue
                res = bp.env.get("res")
                res_txt = U(res) if res is not None else ""
                for e in inits:
                    call_txt = U(e.node)
                    used = call_txt in res_txt
                    # allowed skips: the initialiser is empty / a Hybrid in the EXEC block (printed by the WRITE block)
                    empty_guard = any((not pol) and U(g) == call_txt for g, pol in bp.guards)
                    hybrid_skip = q == "emit_exec_block" and any(pol and U(g).startswith("isinstance(") and "Hybrid" in U(g) for g, pol in bp.guards)
                    n += 1
                    ctx.check(f"{q}: initialiser `{call_txt[:40]}` on path [{bp.guard_text()[:50]}]", used or empty_guard or hybrid_skip, "appended to res, or empty", "generated but not appended" if not (used or empty_guard or hybrid_skip) else "ok", fn_where(idx, fi), nontrivial=used)
        ctx.need(n >= 1, f"{q}: no initialiser call found in its loop")
        # ... and nothing is skipped before its initialiser was even asked for: in a loop that prints initialisers every iteration
        # does so (the one reviewed skip: hybrids in the EXEC block - the WRITE block prints them)
        for lp in loops:
            emitting = any(any(e.kind == "call" and isinstance(e.node, ast.Call) and call_tail(e.node).startswith("il_init") for e in bp.events) for bp in lp.extra)
            if not emitting:
                continue
            for bp in lp.extra:
                if any(e.kind == "call" and isinstance(e.node, ast.Call) and call_tail(e.node).startswith("il_init") for e in bp.events):
                    continue
                reviewed = q == "emit_exec_block" and any(pol and U(g).startswith("isinstance(") and "Hybrid" in U(g) for g, pol in bp.guards)
                ctx.check(f"{q}: iteration skipped without printing [{bp.guard_text()[:60]}]", reviewed, "every operand of the list is initialised (hybrids of the EXEC block are printed by the WRITE block)",
                          f"skipped when {bp.guard_text()[:80]}: the other layout / later blocks still refer to the operand", fn_where(idx, fi))
        rets = [p for p in ps if p.outcome == "return"]
        ctx.check(f"{q} returns the accumulated text", all(U(p.value).startswith("@loopphi(") or U(p.value) == "res" or "res" in U(p.value) for p in rets), "return res", str({U(p.value)[:40] for p in rets}), fn_where(idx, fi), nontrivial=False)
    fe = idx.func("RZILTransformer.emit_final_seq_return")
    src = U(fe.node)
    ctx.check("the instruction sequence's own initialiser is emitted in both layouts", src.count("res += instruction_sequence.il_init_var()") == 2, "2 x res += instruction_sequence.il_init_var()", str(src.count("instruction_sequence.il_init_var()")), fn_where(idx, fe))


ALLOWED_CONSUMERS = {"il_read", "il_exec", "il_write", "il_init_var", "il_init_pure_var", "il_init_effect_var", "resolve_lets", "build_arg_list", "get_op_var", "effect_var", "read_param"}


@rule("R12.4", "C12", "who may consume: il_read / il_exec / il_write are called only from the emission closure (never from callbacks, constructors or __str__)", min_instances=30)
def r12_4(ctx):
    idx = get_index(ctx.env)
    n = 0
    for fi in idx.funcs.values():
        for node in ast.walk(fi.node):
            if isinstance(node, ast.Call) and call_tail(node) in ("il_read", "il_exec", "il_write") and isinstance(node.func, ast.Attribute):
                n += 1
                ok = fi.name in ALLOWED_CONSUMERS
                ctx.check(f"{fi.qual} calls {call_tail(node)}", ok, "caller belongs to the emission closure", "consumes a read outside emission" if not ok else "ok", fn_where(idx, fi), nontrivial=False)
    ctx.need(n >= 30, f"only {n} consumer call sites found")
    # and the closure itself is entered only from fbody's emit functions
    for m in ("il_init_var",):
        pass
    fj = idx.func("RZILTransformer.jump")
    ctx.check("callbacks name operands without reading them", "pure_var()" in U(fj.node) and ".il_read(" not in U(fj.node), "jump uses pure_var()", "differs", fn_where(idx, fj))


@rule("R12.5", "C12", "registers: what the READ block initialises is exactly what reads consume (initialise / read tables agree)", min_instances=7)
def r12_5(ctx):
    from .c07 import r07_2

    r07_2(ctx)  # the access class comes from the register letter: a write-only letter (d, e) classified as read-write gets a READ_REG nobody consumes
    idx = get_index(ctx.env)
    fi = idx.func("Register.il_init_var")
    fr = idx.func("Register.il_read")
    for name, access in (("Rs", "R"), ("Rss", "PR"), ("Rd", "W"), ("Rdd", "PW"), ("Rx", "RW"), ("Rxx", "PRW"), ("Ry", "RW"), ("Ryy", "PRW"), ("Rz", "RW"), ("gp", "R"), ("pc", "R"), ("pc_new", "R"), ("gp_new", "R"),
                         ("gp", "W"), ("gp", "RW"), ("pc", "W"), ("pc", "RW"), ("R31", "W"), ("R31", "RW")):
        kw = {"is_alias": True} if name in ("gp", "pc") else {"is_explicit": True, "reg_number": 31} if name == "R31" else {}
        if name.endswith("_new"):
            kw = {"is_alias": True, "is_new": True}
            name = name[:-4]
        outs = Interp(idx).explore(lambda i: i.call_function(fi, [], self_obj=reg_obj(name, access, idx, **kw)))
        init_txt = " ".join(outcome_text(o) for o in outs)
        has_pure = "RzILOpPure *" in init_txt
        outs = Interp(idx).explore(lambda i: i.call_function(fr, [], self_obj=reg_obj(name, access, idx, **kw)))
        read_txt = {outcome_text(o) for o in outs}
        name = name + ("_new" if kw.get("is_new") else "")
        consumes = read_txt == {name}
        if has_pure:
            declared = sorted(set(re.findall(r"RzILOpPure \*(\w+) =", init_txt)))
            ctx.check(f"register {name} ({access}): the variable the READ block declares is the one reads use", declared == [name], f"RzILOpPure *{name} = ...", str(declared), fn_where(idx, fi))
        # the operand variable: a write (WRITE_REG(bundle, <op>, ...)) and a register-file read (READ_REG(pkt, <op>, ...)) name it
        fo = idx.func("Register.get_op_var")
        outs = Interp(idx).explore(lambda i: i.call_function(fo, [], self_obj=reg_obj(name[:-4] if kw.get("is_new") else name, access, idx, **kw)))
        opvars = {outcome_text(o).lstrip("&") for o in outs}
        uses_op = ("W" in access) or any("READ_REG" in t for t in read_txt)
        if uses_op:
            declared_ops = set(re.findall(r"const HexOp \*?(\w+) =", init_txt))
            ctx.check(f"register {name} ({access}): the operand variable writes / register-file reads name is declared", bool(opvars) and opvars <= declared_ops, f"const HexOp {sorted(opvars)} = ...",
                      f"declared operands: {sorted(declared_ops)}", fn_where(idx, fi))
        ctx.check(f"register {name} ({access}): initialised pure <=> reads consume it", has_pure == consumes, "pure initialised iff il_read returns the variable", f"initialises pure={has_pure}, read -> {sorted(read_txt)}", fn_where(idx, fr))
    ctx.note("not decided statically: a readable register that is only passed by reference (or only used in sizeof) is initialised in the READ block "
             "but never consumed (leaked pure), e.g. { RdV = get_corresponding_CS(pkt, MuV); } - whether a read happens depends on the program")


@rule("R12.6", "C12", "value arguments are always consumed through il_read (also when the argument is a borrowed parameter)", min_instances=3)
def r12_6(ctx):
    idx = get_index(ctx.env)
    fi = idx.func("build_arg_list")
    pure = lambda: mk_vt("pp", False, 32)
    ext = lambda: mk_vt("pe", False, 64, ("EXTERNAL",))
    for name, mk, exp in (
        ("borrowed pure parameter forwarded as a value", lambda: ([AObj("Parameter", {}, label="x", opaque=True)], [pure()]), "<x.il_read()>"),
        ("plain pure", lambda: ([mk_pure("a")], [pure()]), "<a.il_read()>"),
        ("external parameter forwarded by name", lambda: ([AObj("Parameter", {}, label="bundle", opaque=True)], [ext()]), "<bundle.get_name()>"),
    ):
        def once(i, mk=mk):
            a, p = mk()
            return i.call_function(fi, [a, p])
        outs = Interp(idx).explore(once)
        obs = " | ".join(sorted({normalise(outcome_text(o)) for o in outs}))
        ctx.check(f"build_arg_list[{name}]", obs == exp, exp, obs, fn_where(idx, fi))


@rule("R12.7", "C12", "a folded-away hybrid disappears completely: its pending entry, the sequence and both members are removed (nothing initialised is left unused)", min_instances=2)
def r12_7(ctx):
    idx = get_index(ctx.env)
    fi = idx.func("ILOpsHolder.update_hybrid_ref")
    for order in ("hybrid first", "set_tmp first"):
        removed = []
        box = {}
        def hook(interp, callee, args, kwargs, text):
            from sa.absint import BoundMethod
            if isinstance(callee, BoundMethod) and callee.finfo.name == "rm_op_by_name":
                removed.append(to_text(args[0]))
                return None
            return NotImplemented
        def once(i):
            removed.clear()
            pure = AObj("LocalVar", {"name": "h_tmp0", "isa_name": None}, label="h_tmp0")
            hyb = AObj("PostfixIncDec", {"name": "op_INC_5", "references_set": {pure}}, label="hybrid")
            pure.fields["hybrid_owner"] = hyb
            set_tmp = AObj("Assignment", {"name": "op_ASSIGN_hybrid_tmp_7"}, label="set_tmp")
            ops = [hyb, set_tmp] if order == "hybrid first" else [set_tmp, hyb]
            seq = AObj("Sequence", {"name": "seq_8", "effect_ops": ops}, label="seq")
            d = {"h_tmp0": seq}
            box["d"] = d
            return i.call_function(fi, [pure], self_obj=AObj("ILOpsHolder", {"hybrid_effect_dict": d}, label="holder"))
        outs = Interp(idx, call_hook=hook).explore(once)
        ok = all(o.kind == "return" for o in outs) and sorted(removed) == ["op_ASSIGN_hybrid_tmp_7", "op_INC_5", "seq_8"] and not box["d"]
        ctx.check(f"update_hybrid_ref[{order}] removes sequence, hybrid and temporary assignment", ok, "removes seq_8, op_INC_5, op_ASSIGN_hybrid_tmp_7 and the pending entry", f"removed {sorted(removed)}, pending {sorted(box['d'])}", fn_where(idx, fi))


@rule("R12.8", "C12", "one node per operand name: the holder indexes every node by the name its look-ups use (get_name), so a repeated operand is the same node and shares its read counter", min_instances=8)
def r12_8(ctx):
    from sa.absint import OpaqueMethod

    idx = get_index(ctx.env)
    pt = idx.enum_table("PureType")

    def hook(interp, callee, args, kwargs, text):
        if isinstance(callee, OpaqueMethod):
            if callee.attr == "get_name":
                return "NAME"
            if callee.attr in ("pure_var", "effect_var", "vm_id", "get_isa_name", "__str__"):
                return "OTHER_" + callee.attr
        return NotImplemented

    def run(method, node):
        box = {}

        def once(i):
            h = AObj("ILOpsHolder", {"read_ops": {}, "exec_ops": {}, "write_ops": {}, "let_ops": {}, "hybrid_effect_dict": {}, "op_count": 0}, label="holder")
            box["h"] = h
            return i.call_function(idx.func(f"ILOpsHolder.{method}"), [node()], self_obj=h)

        outs = Interp(idx, call_hook=hook).explore(once)
        h = box["h"]
        keys = {d: sorted(h.fields[d].keys()) for d in ("read_ops", "exec_ops", "write_ops") if isinstance(h.fields.get(d), dict) and h.fields[d]}
        return outs, keys

    named_operands_resolve_to_their_node(ctx)
    nodes_are_never_copied(ctx)
    for member, dicts in (("GLOBAL", ["read_ops"]), ("LOCAL", ["read_ops"]), ("LET", ["read_ops"]), ("EXEC", ["exec_ops"])):
        ctx.need(member in pt, f"PureType.{member} missing")
        outs, keys = run("add_pure", lambda: AObj("Pure", {"type": EnumV("PureType", member, pt[member])}, label="p", opaque=True))
        ctx.check(f"add_pure[{member}] index", keys == {d: ["NAME"] for d in dicts} and all(o.kind != "raise" for o in outs), str({d: ["NAME"] for d in dicts}), str(keys), fn_where(idx, idx.func("ILOpsHolder.add_pure")))
    outs, keys = run("add_effect", lambda: AObj("Effect", {}, label="e", opaque=True))
    ctx.check("add_effect index", keys == {"write_ops": ["NAME"]}, "{'write_ops': ['NAME']}", str(keys), fn_where(idx, idx.func("ILOpsHolder.add_effect")))
    outs, keys = run("add_hybrid", lambda: AObj("Hybrid", {}, label="h", opaque=True))
    ctx.check("add_hybrid index", keys == {"exec_ops": ["NAME"], "write_ops": ["NAME"]}, "{'exec_ops': ['NAME'], 'write_ops': ['NAME']}", str(keys), fn_where(idx, idx.func("ILOpsHolder.add_hybrid")))
    # look-ups: by the plain name in every dictionary
    for method in ("has_op", "get_op_by_name"):
        fi = idx.func(f"ILOpsHolder.{method}")
        for d in ("read_ops", "exec_ops", "write_ops"):
            def once(i, d=d):
                f = {"read_ops": {}, "exec_ops": {}, "write_ops": {}, "let_ops": {}}
                f[d] = {"NAME": "node"}
                return i.call_function(fi, ["NAME"], self_obj=AObj("ILOpsHolder", f, label="holder"))
            outs = Interp(idx).explore(once)
            got = [o.value if o.kind != "raise" else "RAISE" for o in outs]
            exp = [True] if method == "has_op" else ["node"]
            ctx.check(f"{method} finds an entry of {d} by its name", got == exp, str(exp), str(got), fn_where(idx, fi))


def nodes_are_never_copied(ctx):
    """an IR node is its identity: the declaration-once counters, the read counter that decides raw use / DUP(), the unique name.  A copy of a
    node is a second node for the same C variable (declared twice, or consumed raw twice).  Only type objects are copied."""
    idx = get_index(ctx.env)
    node_classes = set(idx.subclasses("Pure")) | set(idx.subclasses("Effect"))
    bad = []
    n = 0
    for q, fi in sorted(idx.funcs.items()):
        if ".Tests" in fi.module:
            continue
        for c in ast.walk(fi.node):
            if not (isinstance(c, ast.Call) and call_tail(c) in ("copy", "deepcopy") and c.args):
                continue
            if isinstance(c.func, ast.Attribute) and U(c.func.value) not in ("copy",):
                continue  # a method named copy of some object (dict.copy, list.copy)
            n += 1
            arg = U(c.args[0])
            params = {a.arg: U(a.annotation) if a.annotation is not None else "" for a in fi.node.args.args}
            type_like = "type" in arg.lower() or params.get(arg, "") in ("ValueType",) or fi.module.endswith("ValueType") and params.get(arg, "x") in ("ValueType", "")
            # what is copied is a node when the expression says so: an element of the callback's items, an operand field of a node, an
            # entry of the parameter / operand tables, or a name annotated with a node class (copies of plain lists, dicts, strings pass)
            ann = params.get(arg, "")
            node_like = any(k in arg for k in ("items[", ".src", ".dest", ".ops[", "parameters[", "read_ops[", "exec_ops[", "write_ops[", ".va", ".data_var", ".control", ".compound")) \
                or ann in node_classes or arg in ("op", "hybrid", "pure", "effect", "assignment", "assig", "inner", "then_p", "else_p")
            if node_like and not type_like:
                bad.append(f"{q}:{c.lineno} {U(c)[:50]}")
    ctx.check("copy / deepcopy is applied to type objects only, never to an IR node", not bad, "nodes are shared by identity", "; ".join(bad[:3]) or f"{n} copies, all of type objects", "rzilcompiler/")


def named_operands_resolve_to_their_node(ctx):
    """a name in the text that denotes a parameter or an operand already in the holder yields THAT node (not a copy): the read counter that
    decides between the raw use and DUP() lives in the node"""
    from sa.cbmodel import Runner
    from sa.absint import Tok

    idx = get_index(ctx.env)
    for where in ("parameter", "operand in the holder"):
        r = Runner(idx)
        box = {}

        def over(where=where):
            node = AObj("Parameter" if where == "parameter" else "Variable", {"name": "x", "reads": 0}, label="the node", opaque=True)
            box["n"] = node
            h = AObj("ILOpsHolder", {"read_ops": {} if where == "parameter" else {"x": node}, "exec_ops": {}, "write_ops": {}, "let_ops": {}, "hybrid_effect_dict": {}}, label="holder", opaque=True)
            return {"parameters": {"x": node} if where == "parameter" else {}, "il_ops_holder": h}
        fi, outs = r.run("identifier", lambda: [Tok("IDENTIFIER", "x")], self_over=over)
        got = ["RAISE" if o.kind == "raise" else "the node" if o.value is box["n"] else f"another object ({lab_(o.value)})" for o in outs]
        ctx.check(f"identifier naming a {where} yields the registered node itself", got == ["the node"], "the node (identity)", str(got), fn_where(idx, fi))


def lab_(v):
    return getattr(v, "label", None) or type(v).__name__


@rule("R12.9", "C12", "every effect handed to a sequence is referenced by it (only Empty, which declares nothing, is dropped)", min_instances=20)
def r12_9(ctx):
    from .c05 import r05_2

    r05_2(ctx)


@rule("R12.10", "C12", "what is folded away leaves nothing behind: the dead arm of a constant ?: is taken out of the holder whatever kind of operand it is; pending effects of an earlier (failed) behaviour never reach the next one", min_instances=20)
def r12_10(ctx):
    idx = get_index(ctx.env)
    fi = idx.func("RZILTransformer.simplify_conditional_expr")
    kinds = sorted(c for c in idx.subclasses("Pure") if c in idx.classes)
    ctx.need(len(kinds) >= 15, f"value classes: only {len(kinds)} found")
    for cname in kinds:
        for cond_val, dead in ((1, "items[2]"), (0, "items[1]")):
            r = Runner(idx, keep_real=("simplify_conditional_expr",))
            removed = []

            def args(cname=cname, cond_val=cond_val):
                cond = AObj("Number", {"value": cond_val, "name": "c", "isa_name": None, "inlined": True, "reads": 0, "value_type": mk_vt("tc", True, 32)}, label="c")
                a = r.pure("items[1]", cls=cname)
                b = r.pure("items[2]", cls=cname)
                for lbl in ("items[1]", "items[2]"):
                    r.stubs[(lbl, "get_name")] = "name_of_" + lbl
                return [[cond, a, b]]

            f2, outs = r.run("simplify_conditional_expr", args, args_list=True)
            ok = bool(outs)
            obs = []
            for o in outs:
                rm = [to_text(e[2][0]) for e in o.events if e[0] == "call" and str(e[1]).endswith("rm_op_by_name") and e[2]]
                obs.append(sorted(rm))
                if o.kind == "raise" or ("name_of_" + dead) not in rm:
                    ok = False
            ctx.check(f"constant ?: [{'then' if cond_val else 'else'} arm live, dead arm is a {cname}] removes the dead arm", ok, f"rm_op_by_name(name of {dead}) on every path", str(obs)[:120], fn_where(idx, fi), nontrivial=False)
    from .c11 import r11_6

    r11_6(ctx)
    no_conversion_of_removed_operands(ctx)


CONSUMING_READS = ("il_read", "il_exec", "effect_var", "pure_var_consumed")


@rule("R12.11", "C12", "every printed occurrence of an operand is a read of its own: no emission method prints the result of one il_read() twice, and none keeps such a result in an attribute", min_instances=30)
def r12_11(ctx):
    idx = get_index(ctx.env)
    classes = set(idx.subclasses("Pure")) | set(idx.subclasses("Effect"))
    n = 0
    for cname in sorted(classes):
        if cname not in idx.classes:
            continue
        for m, node in idx.classes[cname].methods.items():
            if not (m.startswith("il_") or m in ("get_reg_read_code", "get_rzil_val")):
                continue
            fi = idx.func(f"{cname}.{m}")
            n += 1
            # (a) path check: the returned text, with local bindings substituted, mentions each il_read() call site once
            dup = []
            try:
                ps = paths_of(fi.node)
            except Exception as e:
                ctx.need(False, f"{cname}.{m}: path enumeration failed: {e}")
            for p in ps:
                if p.outcome != "return" or p.value is None:
                    continue
                seen = {}
                for c in ast.walk(p.value):
                    if isinstance(c, ast.Call) and isinstance(c.func, ast.Attribute) and c.func.attr == "il_read":
                        seen[id(c)] = seen.get(id(c), 0) + 1
                for k, v in seen.items():
                    if v > 1:
                        dup.append(f"path [{p.guard_text()[:50]}] prints one {[U(c) for c in ast.walk(p.value) if id(c) == k][0]} {v} times")
                # (c) every read that is made is printed: a read whose text is thrown away still counts as the operand's first use, so the
                # occurrence that IS printed becomes DUP(x) and the raw pure is never consumed
                printed = {id(c) for c in ast.walk(p.value)}
                for e in p.events:
                    if e.kind == "call" and isinstance(e.node, ast.Call) and isinstance(e.node.func, ast.Attribute) and e.node.func.attr == "il_read" and id(e.node) not in printed:
                        dup.append(f"path [{p.guard_text()[:50]}] reads {U(e.node)} (line {e.lineno}) and does not print it")
            # (b) no read result stored in an attribute
            kept = [U(s_)[:60] for s_ in ast.walk(fi.node) if isinstance(s_, ast.Assign) and any(isinstance(t, ast.Attribute) for t in s_.targets)
                    and any(isinstance(c, ast.Call) and isinstance(c.func, ast.Attribute) and c.func.attr == "il_read" for c in ast.walk(s_.value))]
            ctx.check(f"{cname}.{m}: one read per printed occurrence", not dup and not kept, "each occurrence of an operand in the text comes from its own il_read() call",
                      "; ".join(dup[:2] + [f"keeps a read result: {k}" for k in kept[:1]]) or "ok", fn_where(idx, fi), nontrivial=bool(dup or kept) or any(isinstance(c, ast.Attribute) and c.attr == "il_read" for c in ast.walk(fi.node)))
    ctx.need(n >= 30, f"only {n} emission methods inspected")


@rule("R12.12", "C12", "everything initialised is used, part by part: each part of an instruction starts from a fully reset transformer (no effect of an earlier part in its sequence), and an effect that was built is referenced by the effect built from it whatever its condition is", min_instances=10)
def r12_12(ctx):
    from .c05 import branch_emits_both_arms
    from .c14 import r14_5

    r14_5(ctx)
    branch_emits_both_arms(ctx)
    from .c09 import literal_classes_are_inlined

    literal_classes_are_inlined(ctx)  # a literal that is declared instead of inlined is initialised and never consumed by the effect that prints its value
    from .c06 import r06_7, ternary_guard_checks

    r06_7(ctx)  # the sequence chk_hybrid_dep hands back is the one that is stored / returned: a dropped wrapper is an initialised effect nobody references, and its members get two owners
    from .c06 import arm_statement_effects_taken_once

    arm_statement_effects_taken_once(ctx)  # an effect handed to an arm is no longer pending: nobody sequences it a second time
    ternary_guard_checks(ctx, pending=False)  # the statement of a ({...}) arm is referenced through its guard (else the statement's effect is initialised and its text rendered a second time)


CONVERTING_HELPERS = {"promotion_cast", "init_a_cast", "cast_operands", "add_op"}


def no_conversion_of_removed_operands(ctx):
    """a constant folder that takes an operand out of the holder must not have built anything from it before: the conversion node would
    stay registered and refer to an operand that is declared nowhere (the block layout prints every registered operation)"""
    idx = get_index(ctx.env)
    n = 0
    for q in ("simplify_unary_expr", "simplify_arithmetic_expr", "simplify_compare_expr", "simplify_conditional_expr"):
        fi = idx.func(f"RZILTransformer.{q}")
        bad = []
        for p in paths_of(fi.node):
            removed = set()
            converted = []
            for e in p.events:
                if e.kind != "call" or not isinstance(e.node, ast.Call):
                    continue
                t = call_tail(e.node)
                if t == "rm_op_by_name" and e.node.args:
                    removed.add(U(e.node.args[0]).replace(".get_name()", ""))
                elif t in CONVERTING_HELPERS:
                    for a in list(e.node.args) + [k.value for k in e.node.keywords]:
                        converted.append((U(a), U(e.node)[:50], e.lineno))
            for arg, call, ln in converted:
                if arg in removed:
                    bad.append(f"line {ln}: {call} builds on {arg}, which this path removes")
        n += 1
        ctx.check(f"{q}: nothing is built from an operand the path removes", not bad, "removed operands are not converted / registered again", "; ".join(sorted(set(bad))[:2]) or "ok", fn_where(idx, fi))
    ctx.need(n == 4, "folders not found")


@rule("R12.13", "C12", "an operand is taken out of the holder only when nothing else names it: a register removed while an earlier statement still holds it comes back as a second node for the same C variable, and both are consumed raw (who-may-remove; removal guarded by literal-ness or a use count)", min_instances=4)
def r12_13(ctx):
    from .c09 import r09_3

    r09_3(ctx)


def every_operand_is_consumed(ctx):
    """printing an operation consumes each of its operands: the text of `il_exec` reads every operand that owns an IL variable at least once,
    whatever the other operands are - a literal that decides the result (x && 0), the same node in two positions (c ? x : x).  An operand
    whose read is skipped or thrown away stays initialised and is never consumed (leak)."""
    from .c02 import members_by_value, run_il_exec
    from .common import outcome_text

    idx = get_index(ctx.env)

    def lit(label, v, signed=True, w=32):
        return AObj("Number", {"value": v, "value_type": mk_vt("t" + label, signed, w), "name": label, "isa_name": None, "inlined": True, "reads": 0}, label=label)

    def var(label, w=32, groups=("PURE",)):
        return mk_pure(label, mk_vt("t" + label, True, w, groups), cls="LocalVar")

    specs = []
    for cls, enum, field in (("ArithmeticOp", "ArithmeticType", "arith_type"), ("BitOp", "BitOperationType", "op_type"), ("CompareOp", "CompareOpType", "op_type"), ("BooleanOp", "BooleanOpType", "op_type")):
        mem = members_by_value(idx, enum)
        for spelled, m in sorted(mem.items(), key=lambda kv: str(kv[0])):
            unary = (cls == "BitOp" and spelled in ("~", "-")) or (cls == "BooleanOp" and spelled == "!")
            shapes = [("x", lambda: [var("x")])] if unary else [
                ("x, y", lambda: [var("x"), var("y")]), ("x, 0", lambda: [var("x"), lit("c0", 0)]), ("x, 1", lambda: [var("x"), lit("c1", 1)]), ("0, y", lambda: [lit("c0", 0), var("y")]),
                ("1, y", lambda: [lit("c1", 1), var("y")]), ("x, x", lambda: (lambda v: [v, v])(var("x"))), ("truth value, 0", lambda: [var("x", 1, ("PURE", "BOOL")), lit("c0", 0)])]
            for sname, mk in shapes:
                specs.append((f"{cls} {spelled} ({sname})", cls, lambda mk=mk, m=m, field=field: {field: m, "ops": mk(), "value_type": mk_vt("tr", True, 32)}))
    for sname, mk in (("c, x, y", lambda: [var("c"), var("x"), var("y")]), ("c, x, x", lambda: (lambda v: [var("c"), v, v])(var("x"))), ("truth value, x, x", lambda: (lambda v: [var("c", 1, ("PURE", "BOOL")), v, v])(var("x"))),
                      ("c, 1, 1", lambda: [var("c"), lit("c1", 1), lit("c1b", 1)])):
        specs.append((f"Ternary ({sname})", "Ternary", lambda mk=mk: {"ops": mk(), "value_type": mk_vt("tr", True, 32)}))
    n = 0
    for name, cls, fields in specs:
        box = {}

        def f2(fields=fields):
            d = fields()
            box["ops"] = d["ops"]
            return d
        try:
            fi, outs = run_il_exec(idx, cls, f2)
        except Exception as e:
            continue  # operand shapes the class does not take (a unary member with two operands): not an instance
        for o in outs:
            if o.kind == "raise":
                continue
            n += 1
            text = outcome_text(o)
            missing = sorted({x.label for x in box["ops"] if isinstance(x, AObj) and x.opaque and f"<{x.label}.il_read()>" not in text})
            ctx.check(f"{name}: every variable operand is read by the printed term", not missing, "each operand's il_read() is part of the text", f"{text[:70]} - not read: {missing}" if missing else "ok", fn_where(idx, fi),
                      nontrivial=("0" in name or "1" in name or "x, x" in name))
    ctx.check("operation templates inspected", n >= 60, ">= 60 (class, member, operand shape) instances", str(n), "rzilcompiler/Transformer/Pures/", nontrivial=False)


@rule("R12.14", "C12", "printing an operation consumes every operand that owns an IL variable - also when a literal decides the result or the same node stands in two positions", min_instances=60)
def r12_14(ctx):
    every_operand_is_consumed(ctx)


@rule("R12.15", "C12", "a register that is only written gets no READ_REG of its own: an assignment makes an operand without access letter (explicit, alias) write-only", min_instances=5)
def r12_15(ctx):
    from .c07 import write_property_table

    write_property_table(ctx)
