"""C07 - operands are bound to the right architectural resource, width and .new flag."""
from __future__ import annotations

import ast
import re

from oracles import tables as O
from sa.absint import AObj, ClassRef, EnumV, FlagV, Interp, Opaque, Sym, Tok, to_text
from sa.cbmodel import Runner
from sa.larkmodel import get_grammar, transformer_callbacks
from sa.pyindex import get_index
from sa.report import PROP_ASSUMPTIONS, PROP_EXPLANATION, rule
from sa.symex import U, call_name, call_tail, paths_of
from sa.template import normalise

from .c02 import ctor, lab, members_by_value, run_il_exec
from .common import IntervalSym, fn_where, interval_compare, mk_pure, mk_vt, outcome_text

PROP_EXPLANATION["C07"] = (
    "Every clause is a table agreement: register letter -> width / class, access letter -> access class, immediate letter -> "
    "signedness, alias -> width, load/store spelling -> (sign, width), plus the emission templates (ISA2REG / EXPLICIT2OP / ALIAS2OP / "
    "NREG2OP / READ_REG / WRITE_REG / ISA2IMM / LOADW / STOREW / jump) and the dataflow of the .new flag from the production to "
    "the template hole. Tables are extracted by abstract interpretation over the finite letter sets of the grammar."
)
EXT = "HexagonTransformerExtension"
ACCESS = ["SRC_REG", "DEST_REG", "SRC_DEST_REG", "SRC_REG_PAIR", "DEST_REG_PAIR", "SRC_DEST_REG_PAIR"]
SAMPLE_LETTER = {"SRC_REG": "s", "DEST_REG": "d", "SRC_DEST_REG": "x", "SRC_REG_PAIR": "ss", "DEST_REG_PAIR": "dd", "SRC_DEST_REG_PAIR": "xx"}


def vt_sig(v):
    if isinstance(v, AObj) and v.cls == "ValueType":
        return (v.fields.get("_signed"), v.fields.get("_bit_width"))
    return to_text(v)


def reg_type_via_hex_reg(idx, toks, is_new=False, is_explicit=False):
    """sign and width the extension gives a register built from these tokens (through hex_reg, whatever helpers it uses)"""
    fh = idx.func("HexagonTransformerExtension.hex_reg")

    def once(i):
        ext = AObj("HexagonTransformerExtension", {"transformer": AObj("RZILTransformer", {"il_ops_holder": Opaque("holder")}, label="tr", opaque=True)}, label="ext")
        return i.call_function(fh, [toks, is_new, is_explicit], self_obj=ext)
    res = set()
    for o in Interp(idx).explore(once):
        if o.kind == "raise":
            res.add("RAISE")
        else:
            v = o.value
            vt = v.fields.get("value_type") if isinstance(v, AObj) else None
            res.add(vt_sig(vt) if vt is not None else "?")
    return fh, res


@rule("R07.1", "C07", "register letter x access class -> architectural width (pairs doubled), signed", min_instances=40)
def r07_1(ctx):
    idx = get_index(ctx.env)
    gm = get_grammar(ctx.env)
    from .c17 import char_class

    letters = char_class(gm.terminals["REG_TYPE"]["value"])
    ctx.need(letters, "REG_TYPE letters not recognised")
    for L in sorted(letters):
        for acc in ACCESS:
            fi, obs = reg_type_via_hex_reg(idx, [Tok("REG_TYPE", L), Tok(acc, SAMPLE_LETTER[acc])])
            if L not in O.REG_WIDTH:
                exp = "RAISE"
            else:
                exp = (True, O.REG_WIDTH[L] * (2 if "PAIR" in acc else 1))
                if L == "Q" and "PAIR" in acc:
                    exp = "RAISE"  # pairs of vector predicates are rejected when the register node is built (no register class for them)
            ctx.check(f"reg type {L}, {acc}", obs == {exp}, str(exp), str(sorted(map(str, obs))), fn_where(idx, fi))


@rule("R07.2", "C07", "access letters: grammar terminals = QEMU's letter sets; RegisterAccessType values = terminal names; hex_reg maps the token type to the access class", min_instances=14)
def r07_2(ctx):
    idx = get_index(ctx.env)
    gm = get_grammar(ctx.env)
    from .c17 import char_class, term_literals

    for tname, letters in O.ACCESS_LETTERS.items():
        t = gm.terminals.get(tname)
        ctx.need(t is not None, f"terminal {tname} missing")
        got = (char_class(t["value"]) if t["kind"] == "re" else {t["value"]}) if all(len(x) == 1 for x in letters) else term_literals(gm, tname)
        ctx.check(f"{tname} letters", got == letters, str(sorted(letters)), str(sorted(got or [])), gm.where(tname))
    # pairs are exactly doubled letters of the matching single class
    for single, pair in (("SRC_REG", "SRC_REG_PAIR"), ("DEST_REG", "DEST_REG_PAIR"), ("SRC_DEST_REG", "SRC_DEST_REG_PAIR")):
        s = char_class(gm.terminals[single]["value"]) or set()
        p = term_literals(gm, pair) or set()
        ok = all(len(x) == 2 and x[0] == x[1] and x[0] in s for x in p)
        ctx.check(f"{pair} spellings are doubled {single} letters", ok, "xx with x in the single-letter class", str(sorted(p)), gm.where(pair))
    tbl = idx.enum_table("RegisterAccessType")
    vals = {v for v in tbl.values() if v != "UNKNOWN"}
    ctx.check("RegisterAccessType values = access terminal names", vals == set(ACCESS), str(sorted(ACCESS)), str(sorted(vals)), "rzilcompiler/Transformer/Pures/Register.py")
    exp_members = {"R": "SRC_REG", "W": "DEST_REG", "RW": "SRC_DEST_REG", "PR": "SRC_REG_PAIR", "PW": "DEST_REG_PAIR", "PRW": "SRC_DEST_REG_PAIR", "UNKNOWN": "UNKNOWN"}
    ctx.check("RegisterAccessType member meaning", tbl == exp_members, str(exp_members), str(tbl), "rzilcompiler/Transformer/Pures/Register.py")
    # _reg production: REG_TYPE followed by exactly one access terminal
    shapes = sorted(" ".join(s[0] for s in a.symbols) for a in gm.rules["_reg"])
    ctx.check("_reg production", shapes == sorted(f"REG_TYPE {a}" for a in ACCESS), "REG_TYPE <access terminal>", str(shapes), gm.where("_reg"))
    # hex_reg: name = joined tokens, access from the token type, is_new as passed
    fi = idx.func(f"{EXT}.hex_reg")
    for acc, letter in [(a_, l_) for a_ in ACCESS for l_ in sorted(O.ACCESS_LETTERS[a_])]:
        for is_new in (True, False):
            SAMPLE_LETTER = {acc: letter}

            def hook(interp, callee, args, kwargs, text):
                if isinstance(callee, ClassRef) and callee.name == "Register":
                    return AObj("Register", {"args": args, "kwargs": kwargs}, label="Register(...)", opaque=True)
                return NotImplemented
            def once(i, acc=acc, is_new=is_new, SAMPLE_LETTER=SAMPLE_LETTER):
                e = AObj(EXT, {"transformer": AObj("RZILTransformer", {"il_ops_holder": AObj("ILOpsHolder", {}, label="holder", opaque=True)}, label="tr")}, label="ext")
                return i.call_function(fi, [[Tok("REG_TYPE", "R"), Tok(acc, SAMPLE_LETTER[acc])], is_new], self_obj=e)
            outs = Interp(idx, call_hook=hook).explore(once)
            obs = set()
            for o in outs:
                if o.kind == "raise":
                    obs.add("RAISE")
                    continue
                if not (isinstance(o.value, AObj) and "args" in o.value.fields):
                    # not a freshly built register: something stored is handed out - under which name was it looked up?
                    m = re.search(r"\[([^\[\]]+)\]>*$", to_text(o.value))
                    final_name = "R" + SAMPLE_LETTER[acc] + ("_new" if is_new else "")
                    if m and m.group(1) == final_name:
                        continue  # the stored operand of exactly this spelling (name and .new suffix): same register
                    obs.add(("a stored operand of another spelling", to_text(o.value)[:60], f"wanted {final_name}"))
                    continue
                a, k = o.value.fields["args"], o.value.fields["kwargs"]
                acc_v = k.get("access", a[1] if len(a) > 1 else None)
                obs.add((to_text(a[0]) if a else to_text(k.get("name")), acc_v.value if isinstance(acc_v, EnumV) else to_text(acc_v), k.get("is_new"), bool(k.get("is_explicit")), vt_sig(k.get("v_type"))))
            exp = ("R" + SAMPLE_LETTER[acc], acc, is_new, False, (True, 64 if "PAIR" in acc else 32))
            ctx.check(f"hex_reg[R{SAMPLE_LETTER[acc]},{'new' if is_new else 'plain'}]", obs == {exp}, str(exp), str(sorted(map(str, obs))), fn_where(idx, fi))
    # explicit registers go through the same function: signed like every register, width by class / pair, access unknown
    for name, toks, is_new, exp_w in (("R31", ("R", "SRC_DEST_REG", "31"), False, 32), ("P1", ("P", "SRC_DEST_REG", "1"), True, 8), ("R3:2", ("R", "SRC_DEST_REG_PAIR", "3:2"), False, 64),
                                     ("C9", ("C", "SRC_DEST_REG", "9"), False, 32), ("M1", ("M", "SRC_DEST_REG", "1"), False, 32)):
        def hook(interp, callee, args, kwargs, text):
            if isinstance(callee, ClassRef) and callee.name == "Register":
                return AObj("Register", {"args": args, "kwargs": kwargs}, label="Register(...)", opaque=True)
            return NotImplemented
        def once(i, name=name, toks=toks, is_new=is_new):
            e = AObj(EXT, {"transformer": AObj("RZILTransformer", {"il_ops_holder": AObj("ILOpsHolder", {}, label="holder", opaque=True)}, label="tr")}, label="ext")
            return i.call_function(fi, [[Tok("REG_TYPE", toks[0]), Tok(toks[1], toks[2]), Tok("__ANON_0", name)], is_new], {"is_explicit": True}, self_obj=e)
        outs = Interp(idx, call_hook=hook).explore(once)
        obs = set()
        for o in outs:
            if o.kind == "raise" or not (isinstance(o.value, AObj) and "args" in o.value.fields):
                obs.add(("RAISE" if o.kind == "raise" else to_text(o.value)[:40],))
                continue
            a, k = o.value.fields["args"], o.value.fields["kwargs"]
            acc_v = k.get("access", a[1] if len(a) > 1 else None)
            obs.add((to_text(a[0]) if a else to_text(k.get("name")), acc_v.value if isinstance(acc_v, EnumV) else to_text(acc_v), k.get("is_new"), bool(k.get("is_explicit")), vt_sig(k.get("v_type"))))
        exp = (name, "UNKNOWN", is_new, True, (True, exp_w))
        ctx.check(f"hex_reg[explicit {name}{'_NEW' if is_new else ''}]", obs == {exp}, str(exp), str(sorted(map(str, obs))), fn_where(idx, fi))
    # .new flag dataflow from the productions
    for cb, exp in (("new_reg", "True"), ("reg", "False")):
        f2 = idx.func(f"RZILTransformer.{cb}")
        calls = [n for n in ast.walk(f2.node) if isinstance(n, ast.Call) and call_tail(n) in ("hex_reg", "reg")]
        ok = False
        if cb == "new_reg":
            ok = len(calls) == 1 and call_tail(calls[0]) == "hex_reg" and U(calls[0].args[1]) == "True"
        else:
            ok = len(calls) == 1 and call_tail(calls[0]) == "reg"
        ctx.check(f"{cb} callback passes is_new={exp}", ok, f"is_new={exp}", U(calls[0]) if calls else "?", fn_where(idx, f2))
    f3 = idx.func(f"{EXT}.reg")
    rets = [U(p.value) for p in paths_of(f3.node) if p.outcome == "return"]
    ctx.check("ext.reg is hex_reg(items, False)", rets == ["self.hex_reg(items, False)"], "self.hex_reg(items, False)", str(rets), fn_where(idx, f3))
    rv = [" ".join(s[0] for s in a.symbols) for a in gm.rules["_reg_variant"]]
    ctx.check(".new operands are spelled <reg>N, plain ones <reg>V", "new_reg N" in rv and "reg V" in rv, "new_reg N / reg V", str(rv), gm.where("_reg_variant"))


def mk_register(idx, name, access="R", is_new=False, is_explicit=False, is_alias=False, width=32):
    acc = EnumV("RegisterAccessType", access, idx.enum_table("RegisterAccessType")[access])

    def once(interp):
        return interp.construct("Register", [name, acc, mk_vt("tr", True, width)], {"is_new": is_new, "is_explicit": is_explicit, "is_reg_alias": is_alias})

    return Interp(idx).explore(once)


@rule("R07.3", "C07", "register class table and explicit register number (minimum of the pair)", min_instances=24)
def r07_3(ctx):
    idx = get_index(ctx.env)
    fi = idx.func("Register.get_reg_class")
    cases = []
    for L, cls in O.REG_CLASS.items():
        cases.append((f"{L}5", cls, 5))
        cases.append((f"{L}s", cls, None))
    for L, cls in O.REG_CLASS_PAIR.items():
        cases.append((f"{L}5:4", cls, 4))
        cases.append((f"{L}ss", cls, None))
        cases.append((f"{L}31:30", cls, 30))
        cases.append((f"{L}1:0", cls, 0))  # the pair that contains register number 0
    cases.append(("P3", O.REG_CLASS["P"], 3))
    cases.append(("R10", O.REG_CLASS["R"], 10))
    # explicit registers whose two digits are equal are single registers (pairs are spelled Rdd or Rn:m)
    for nm in ("R11", "R22", "R00", "C11", "V11", "V22"):
        cases.append((nm, O.REG_CLASS[nm[0]], int(nm[1:])))
    for name, cls, num in cases:
        outs = mk_register(idx, name, is_explicit=num is not None)
        obs = set()
        for o in outs:
            if o.kind == "raise":
                obs.add(("RAISE", None))
            else:
                obs.add((o.value.fields.get("reg_class"), o.value.fields.get("reg_number")))
        ctx.check(f"register {name}", obs == {(cls, num)}, str((cls, num)), str(sorted(map(str, obs))), fn_where(idx, fi))
    outs = mk_register(idx, "Qss")
    ctx.check("register Qss (vector predicate pair) rejected", all(o.kind == "raise" for o in outs), "raises", str([outcome_text(o)[:30] for o in outs]), fn_where(idx, fi))
    outs = mk_register(idx, "Xs")
    ctx.check("register of unknown class rejected", all(o.kind == "raise" for o in outs), "raises", str([outcome_text(o)[:30] for o in outs]), fn_where(idx, fi))


def reg_obj(name, access, idx, is_new=False, is_explicit=False, is_alias=False, reads=0, **extra):
    acc = EnumV("RegisterAccessType", access, idx.enum_table("RegisterAccessType")[access])
    f = {"name": name + ("_new" if is_new else ""), "isa_name": name + ("_new" if is_new else ""), "access": acc, "is_new": is_new, "is_explicit": is_explicit or is_alias, "is_reg_alias": is_alias,
         "is_n_reg": name[0] == "N", "isa_id": name[1], "reg_number": Sym("NUM"), "reg_class": "HEX_REG_CLASS_X", "reads": reads, "value_type": mk_vt("tr", True, 32)}
    f.update(extra)
    return AObj("Register", f, label="self")


@rule("R07.4", "C07", "operand-slot and access templates: ISA2REG / EXPLICIT2OP / ALIAS2OP / NREG2OP / READ_REG / WRITE_REG with the .new hole from is_new", min_instances=12)
def r07_4(ctx):
    # resource lint: macros that take plugin objects (packet, operand slot ...) announce them as such - the modifier register of circular
    # addressing reaches HEX_GET_CORRESPONDING_CS as its operand slot, not as its value
    import json

    mp = ctx.env.repo / "Resources" / "Hexagon" / "qemu_rzil_macros.json"
    ctx.need(mp.is_file(), "anchor missing: Resources/Hexagon/qemu_rzil_macros.json")
    macros = json.loads(mp.read_text()).get("macros", {})
    for name, kinds in sorted(O.PLUGIN_OBJECT_PARAMS.items()):
        m = macros.get(name)
        if m is None:
            continue
        got = [str(p_).replace("const ", "").strip() for p_ in m.get("params", [])]
        ok = len(got) == len(kinds) and all(g.startswith(k) for g, k in zip(got, kinds))
        ctx.check(f"macro table entry {name}: plugin-object parameters", ok, str(kinds), str(got), "Resources/Hexagon/qemu_rzil_macros.json")
    idx = get_index(ctx.env)
    fa = idx.func("Register.il_isa_to_assoc_name")
    for is_new in (True, False):
        b = str(is_new).lower()
        sfx = "_new" if is_new else ""
        cases = [
            ("plain", reg_obj("Rs", "R", idx, is_new=is_new), f"const HexOp *Rs{sfx}_op = ISA2REG(hi, 's', {b});"),
            ("explicit", reg_obj("R31", "R", idx, is_new=is_new, is_explicit=True, reg_number=31), f"const HexOp R31{sfx}_op = EXPLICIT2OP(31, HEX_REG_CLASS_X, {b});"),
            ("alias", reg_obj("gp", "R", idx, is_new=is_new, is_alias=True), f"const HexOp gp{sfx}_op = ALIAS2OP(HEX_REG_ALIAS_GP, {b});"),
            ("N register", reg_obj("Ns", "R", idx, is_new=is_new), f"const HexOp Ns{sfx}_op = NREG2OP(bundle, 's');"),
        ]
        for kind, obj, exp in cases:
            outs = Interp(idx).explore(lambda i, obj=obj: i.call_function(fa, [], self_obj=obj))
            obs = " | ".join(sorted({normalise(outcome_text(o)) for o in outs}))
            ctx.check(f"operand declaration [{kind}, {'new' if is_new else 'plain'}]", obs == normalise(exp), exp, obs, fn_where(idx, fa))
        fr = idx.func("Register.get_reg_read_code")
        outs = Interp(idx).explore(lambda i: i.call_function(fr, [], self_obj=reg_obj("Rs", "R", idx, is_new=is_new)))
        obs = " | ".join(sorted({normalise(outcome_text(o)) for o in outs}))
        ctx.check(f"register read [{'new' if is_new else 'plain'}]", obs == f"READ_REG(pkt, Rs{sfx}_op, {b})", f"READ_REG(pkt, Rs{sfx}_op, {b})", obs, fn_where(idx, fr))
    # pairs with ':' are valid C identifiers
    fo = idx.func("Register.get_op_var")
    outs = Interp(idx).explore(lambda i: i.call_function(fo, [], self_obj=reg_obj("R5:4", "R", idx, is_explicit=True)))
    ctx.check("operand variable of R5:4", [o.value for o in outs] == ["&R5_4_op"], "&R5_4_op", str([outcome_text(o) for o in outs]), fn_where(idx, fo))
    # every WRITE_REG / READ_REG site passes the same context argument
    sites = {}
    for fi in idx.funcs.values():
        for n in ast.walk(fi.node):
            if isinstance(n, ast.JoinedStr) or (isinstance(n, ast.Constant) and isinstance(n.value, str)):
                txt = "".join(v.value for v in n.values if isinstance(v, ast.Constant)) if isinstance(n, ast.JoinedStr) else n.value
                for macro in ("WRITE_REG(", "READ_REG("):
                    if macro in txt:
                        first = txt.split(macro, 1)[1].split(",", 1)[0].strip()
                        sites.setdefault(macro, set()).add((fi.qual, first))
    w = {f for _, f in sites.get("WRITE_REG(", set())}
    r_ = {f for _, f in sites.get("READ_REG(", set())}
    ctx.check("all WRITE_REG sites pass the instruction bundle", w == {"bundle"} and len(sites.get("WRITE_REG(", ())) >= 2, "{'bundle'} at >= 2 sites", str(sorted(sites.get("WRITE_REG(", ()))), "rzilcompiler/Transformer/")
    ctx.check("all READ_REG sites pass the packet", r_ == {"pkt"} and len(sites.get("READ_REG(", ())) >= 2, "{'pkt'} at >= 2 sites", str(sorted(sites.get("READ_REG(", ()))), "rzilcompiler/Transformer/")
    consts = {k: idx.const_str(k) for k in ("isa_to_reg_fnc", "isa_explicit_to_op", "isa_alias_to_op", "hexagon_isa_n_reg_to_op", "isa_to_imm_fnc", "hexagon_c_call_prefix")}
    exp = {"isa_to_reg_fnc": "ISA2REG", "isa_explicit_to_op": "EXPLICIT2OP", "isa_alias_to_op": "ALIAS2OP", "hexagon_isa_n_reg_to_op": "NREG2OP", "isa_to_imm_fnc": "ISA2IMM", "hexagon_c_call_prefix": "HEX_"}
    ctx.check("plugin macro names", consts == exp, str(exp), str(consts), "rzilcompiler/Transformer/PluginInfo.py")


def immediate_lookup_by_exact_letter(ctx):
    """`siV` and `SiV` are two immediates: a mention is bound to the operand registered under exactly its letter (case preserved) - a
    registered lower-case immediate is not handed out for the upper-case letter, and the other way round"""
    idx = get_index(ctx.env)
    for have, ask in (("s", "S"), ("S", "s"), ("u", "U"), ("r", "R"), ("s", "s"), ("U", "U")):
        r = Runner(idx)
        box = {}

        def over(have=have):
            old = AObj("Immediate", {"name": have, "isa_name": have}, label=f"registered #{have}", opaque=True)
            box["old"] = old
            h = AObj("ILOpsHolder", {"read_ops": {have: old}, "exec_ops": {}, "write_ops": {}, "let_ops": {}, "hybrid_effect_dict": {}}, label="holder", opaque=True)
            r.stubs[("ext", "imm")] = lambda a: r.pure("fresh immediate", vt=mk_vt("ti", True, 32), cls="Immediate")
            return {"il_ops_holder": h, "imm_set_effect_list": []}
        fi, outs = r.run("imm", lambda ask=ask: [Tok("IMMEDIATE", ask)], self_over=over)
        got = sorted({"RAISE" if o.kind == "raise" else ("the registered one" if o.value is box["old"] else "a fresh one") for o in outs})
        exp = ["the registered one"] if have == ask else ["a fresh one"]
        ctx.check(f"mention of #{ask} while #{have} is registered", got == exp, exp[0], str(got), fn_where(idx, fi), nontrivial=(have != ask))


@rule("R07.5", "C07", "immediates: letter -> signedness; fetched by ISA2IMM(hi, '<letter>') with the matching SN/UN and C cast", min_instances=10)
def r07_5(ctx):
    immediate_lookup_by_exact_letter(ctx)
    idx = get_index(ctx.env)
    gm = get_grammar(ctx.env)
    from .c17 import char_class

    letters = char_class(gm.terminals["IMMEDIATE"]["value"])
    ctx.check("IMMEDIATE letters", letters == O.IMM_LETTERS, str(sorted(O.IMM_LETTERS)), str(sorted(letters or [])), gm.where("IMMEDIATE"))
    fi = idx.func("get_value_type_by_isa_imm")
    for L in sorted(O.IMM_LETTERS):
        outs = Interp(idx).explore(lambda i, L=L: i.call_function(fi, [[Tok("IMMEDIATE", L)]]))
        obs = {("RAISE" if o.kind == "raise" else vt_sig(o.value)) for o in outs}
        ctx.check(f"immediate {L}", obs == {(L in O.IMM_SIGNED, 32)}, str((L in O.IMM_SIGNED, 32)), str(sorted(map(str, obs))), fn_where(idx, fi))
    f2 = idx.func("Immediate.il_init_var")
    for signed in (True, False):
        obj = AObj("Immediate", {"v_type": mk_vt("ti", signed, 32), "value_type": mk_vt("ti", signed, 32), "name": "s", "isa_name": "s"}, label="self")
        outs = Interp(idx).explore(lambda i, obj=obj: i.call_function(f2, [], self_obj=obj))
        obs = " | ".join(sorted({normalise(outcome_text(o)) for o in outs}))
        exp = f"RzILOpPure *s = {'SN' if signed else 'UN'}(32, ({'st32' if signed else 'ut32'}) ISA2IMM(hi, 's'));"
        ctx.check(f"Immediate.il_init_var[{'signed' if signed else 'unsigned'}]", obs == normalise(exp), exp, obs, fn_where(idx, f2))
    f3 = idx.func(f"{EXT}.imm")
    names = [U(n) for n in ast.walk(f3.node) if isinstance(n, ast.Call) and call_name(n) in ("get_value_type_by_isa_imm", "Immediate")]
    ctx.check("ext.imm types the immediate by its letter", names == ["get_value_type_by_isa_imm(items)", "Immediate(name, v_type)"], "Immediate(items[0], get_value_type_by_isa_imm(items))", str(names), fn_where(idx, f3))
    ops = [" ".join(s[0] for s in a.symbols) for a in gm.rules["op"]]
    ctx.check("immediates are spelled <letter>iV", "imm IV" in ops and gm.literal("IV") == "iV", "imm iV", str(ops), gm.where("op"))


@rule("R07.6", "C07", "memory and jump lowering: LOADW(width, ea) typed (sign,width); STOREW(ea, data); jump records the taken flag and a 32 bit target", min_instances=10)
def r07_6(ctx):
    idx = get_index(ctx.env)
    gm = get_grammar(ctx.env)
    ctx.check("mem_load production layout", [c.name for c in gm.rules["mem_load"][0].children] == ["MEM_LOAD", "SIGN_TYPE", "BIT_WIDTH", "_argument_expr_list"], "[MEM_LOAD, SIGN, WIDTH, args]", str([c.name for c in gm.rules["mem_load"][0].children]), gm.where("mem_load"))
    ctx.check("mem_store production layout", [c.name for c in gm.rules["mem_store"][0].children] == ["MEM_STORE", "SIGN_TYPE", "BIT_WIDTH", "_argument_expr_list"], "[MEM_STORE, SIGN, WIDTH, args]", str([c.name for c in gm.rules["mem_store"][0].children]), gm.where("mem_store"))
    for sign in ("s", "u"):
        for width in ("8", "16", "32", "64"):
            r = Runner(idx)
            fi, outs = r.run("mem_load", lambda: [Tok("MEM_LOAD", "mem_load_"), Tok("SIGN_TYPE", sign), Tok("BIT_WIDTH", width), r.pure("items[3]")])
            for o in outs:
                if o.kind == "raise":
                    ctx.check(f"mem_load[{sign}{width}]", False, "MemLoad node", "RAISE", fn_where(idx, fi))
                    continue
                v = o.value
                ok = isinstance(v, AObj) and v.cls == "MemLoad"
                acc = ctor(v, "acc_type") if ok else None
                vt = acc.fields.get("val_type") if isinstance(acc, AObj) else None
                sig = vt_sig(vt) if vt is not None else "?"
                ctx.check(f"mem_load[{sign}{width}]", ok and lab(ctor(v, "va")) == "items[3]" and sig == (sign == "s", width), f"MemLoad(va=items[3], type=({sign},{width}))", f"va={lab(ctor(v, 'va')) if ok else '?'}, type={sig}", fn_where(idx, fi))
    f2, outs = run_il_exec(idx, "MemLoad", lambda: {"va": mk_pure("ea"), "acc_type": AObj("MemAccessType", {"val_type": mk_vt("tm", True, Sym("W"))}, label="acc")})
    obs = " | ".join(sorted({normalise(outcome_text(o)) for o in outs}))
    ctx.check("MemLoad.il_exec", obs == "LOADW(<W>, <ea.il_read()>)", "LOADW(<W>, <ea.il_read()>)", obs, fn_where(idx, f2))
    from .c03 import memload_typing

    memload_typing(ctx)  # the node's own type is the access type, for every width and sign
    f3, outs = run_il_exec(idx, "MemStore", lambda: {"va": mk_pure("ea"), "data_var": mk_pure("data")}, method="il_write")
    obs = " | ".join(sorted({normalise(outcome_text(o)) for o in outs}))
    ctx.check("MemStore.il_write", obs == "STOREW(<ea.il_read()>, <data.il_read()>)", "STOREW(<ea.il_read()>, <data.il_read()>)", obs, fn_where(idx, f3))
    f4, outs = run_il_exec(idx, "Jump", lambda: {"target": mk_pure("ta")}, method="il_write")
    obs = " | ".join(sorted({normalise(outcome_text(o)) for o in outs}))
    exp = 'SEQ2(SETL("jump_flag", IL_TRUE), SETL("jump_target", <ta.il_read()>))'
    ctx.check("Jump.il_write", obs == exp, exp, obs, fn_where(idx, f4))
    # 32 bit jump target and store data conversion: shared with C03's context obligations
    from .c03 import clean
    for name, lo, hi, exp in (("W<32", 1, 31, ("Conv((u,32),items[1])",)), ("W>32", 33, 128, ("Conv((u,32),items[1])",)), ("W=32", 32, 32, ("items[1]", "Conv((u,32),items[1])"))):
        r = Runner(idx, sym_compare=interval_compare())
        fi, outs = r.run("jump", lambda: [Tok("JUMP", "JUMP"), r.pure("items[1]", vt=mk_vt("t1", True, IntervalSym("W", lo, hi)))])
        for o in outs:
            t = "RAISE" if o.kind == "raise" else clean(lab(ctor(o.value, "target"))) if isinstance(o.value, AObj) and o.value.cls == "Jump" else lab(o.value)
            ctx.check(f"jump target width[{name}]", t in exp, " or ".join(exp), t, fn_where(idx, fi))
    for sign in ("s", "u"):
        r = Runner(idx, sym_compare=interval_compare())
        fi, outs = r.run("mem_store", lambda: [Tok("MEM_STORE", "mem_store_"), Tok("SIGN_TYPE", sign), Tok("BIT_WIDTH", "16"), r.pure("items[3]"), r.pure("items[4]", vt=mk_vt("t4", True, 32))])
        for o in outs:
            if o.kind == "raise":
                continue
            v = o.value
            ok = isinstance(v, AObj) and v.cls == "MemStore"
            d = clean(lab(ctor(v, "data_var"))) if ok else lab(v)
            ctx.check(f"mem_store[{sign}16] stores ({sign},16) data at items[3]", ok and d == f"Conv(({sign},16),items[4])" and lab(ctor(v, "va")) == "items[3]", f"MemStore(items[3], Conv(({sign},16),items[4]))", d, fn_where(idx, fi))


@rule("R07.7", "C07", "register aliases: 64 bit for upcycle/pktcount/utimer (with and without _NEW), 32 bit otherwise, unsigned; pc reads the packet address", min_instances=12)
def r07_7(ctx):
    idx = get_index(ctx.env)
    fi = idx.func(f"{EXT}.reg_alias")
    for alias in ("UPCYCLE", "PKTCOUNT", "UTIMER", "GP", "LR", "SP", "PC", "USR", "LC0", "SA1", "M0", "CS1"):
        for is_new in (True, False):
            def hook(interp, callee, args, kwargs, text):
                if isinstance(callee, ClassRef) and callee.name == "Register":
                    return AObj("Register", {"args": args, "kwargs": kwargs}, label="Register(...)", opaque=True)
                return NotImplemented
            def once(i, alias=alias, is_new=is_new):
                holder = AObj("ILOpsHolder", {"read_ops": {}}, label="holder")
                e = AObj(EXT, {"transformer": AObj("RZILTransformer", {"il_ops_holder": holder}, label="tr"), "uses_new": False}, label="ext")
                return i.call_function(fi, [[Tok("__ANON_1", alias), AObj("Tree", {}, label="postfix") if is_new else None]], self_obj=e)
            outs = Interp(idx, call_hook=hook).explore(once)
            obs = set()
            for o in outs:
                if o.kind == "raise":
                    obs.add("RAISE")
                    continue
                a, k = o.value.fields["args"], o.value.fields["kwargs"]
                vt = k.get("v_type", a[2] if len(a) > 2 else None)
                obs.add((to_text(a[0]), vt_sig(vt), k.get("is_new"), k.get("is_reg_alias")))
            exp = (alias.lower(), (False, 64 if alias.lower() in O.ALIAS_64 else 32), is_new, True)
            ctx.check(f"alias {alias}{'_NEW' if is_new else ''}", obs == {exp}, str(exp), str(sorted(map(str, obs))), fn_where(idx, fi))
    f2 = idx.func("Register.il_init_var")
    outs = Interp(idx).explore(lambda i: i.call_function(f2, [], self_obj=reg_obj("pc", "UNKNOWN", idx, is_alias=True)))
    obs = {outcome_text(o) for o in outs}
    ctx.check("pc alias reads the packet address", obs == {"RzILOpPure *pc = U32(pkt->pkt_addr);"}, "RzILOpPure *pc = U32(pkt->pkt_addr);", str(sorted(obs)), fn_where(idx, f2))
    # ... but PC_NEW is an operand like every other .new alias (ALIAS2OP(..., true) / READ_REG(..., true))
    outs = Interp(idx).explore(lambda i: i.call_function(f2, [], self_obj=reg_obj("pc", "UNKNOWN", idx, is_alias=True, is_new=True)))
    obs = {normalise(outcome_text(o).replace("\n", " ")) for o in outs}
    exp_new = "const HexOp pc_new_op = ALIAS2OP(HEX_REG_ALIAS_PC, true); RzILOpPure *pc_new = READ_REG(pkt, &pc_new_op, true);"
    ctx.check("PC_NEW alias is read as a .new operand", obs == {normalise(exp_new)}, exp_new, str(sorted(obs)), fn_where(idx, f2))
    f3 = idx.func("Register.get_alias_enum")
    for is_new in (True, False):
        outs = Interp(idx).explore(lambda i: i.call_function(f3, [], self_obj=reg_obj("gp", "UNKNOWN", idx, is_alias=True, is_new=is_new)))
        ctx.check(f"alias enum name[{'new' if is_new else 'plain'}]", [o.value for o in outs] == ["HEX_REG_ALIAS_GP"], "HEX_REG_ALIAS_GP", str([outcome_text(o) for o in outs]), fn_where(idx, f3))


@rule("R07.8", "C07", "explicit registers: name/number/.new flag from the spelling; pair spellings (Rn:m) get the doubled width", min_instances=6)
def r07_8(ctx):
    idx = get_index(ctx.env)
    for name, has_new, pair in (("R31", False, False), ("P0", True, False), ("C9", False, False), ("R11:10", False, True), ("C7:6", True, True), ("V3:2", False, True)):
        r = Runner(idx)
        box = {}
        def stub(args, box=box):
            box["call"] = args
            return r.pure("reg", cls="Register")
        r.stubs[("ext", "hex_reg")] = stub
        fi, outs = r.run("explicit_reg", lambda: [Tok("__ANON_0", name), Tok("_NEW", "_NEW") if has_new else None])
        ok_call = False
        width = None
        for o in outs:
            for ev in o.events:
                if ev[0] == "call" and ev[1] == "ext.hex_reg":
                    toks, kw = ev[2][0], ev[3]
                    ok_call = (str(toks[-1]) == name and kw.get("is_new") == has_new and kw.get("is_explicit") is True and str(toks[0]) == name[0])
                    # width the extension will compute from these tokens
                    _, width = reg_type_via_hex_reg(idx, toks, has_new, True)
        ctx.check(f"explicit register {name}{'_NEW' if has_new else ''}: name, class letter and .new flag", ok_call, f"hex_reg([.., '{name}'], is_new={has_new}, is_explicit=True)", "call shape differs" if not ok_call else "ok", fn_where(idx, fi))
        base = O.REG_WIDTH.get(name[0])
        exp = {(True, base * (2 if pair else 1))} if base else {"RAISE"}
        ctx.check(f"explicit register {name}: width", width == exp, str(sorted(map(str, exp))), str(sorted(map(str, width or []))), fn_where(idx, fi))


def assignment_marks_target_written(ctx):
    """every form of assignment marks its register target as written (the READ block declares the operand of a written register; a
    compound assignment writes its target like a plain one)"""
    idx = get_index(ctx.env)
    fa = idx.resolve_method("Assignment", "__init__")
    ctx.need(fa is not None, "Assignment.__init__ not found")
    for tname, tval in sorted(idx.enum_table("AssignmentType").items()):
        for rname, kw, acc0 in (("pc", {"is_alias": True}, "R"), ("R31", {"is_explicit": True}, "UNKNOWN"), ("Rx", {}, "R")):
            box = {}
            def once4(i, tname=tname, tval=tval, rname=rname, kw=kw, acc0=acc0):
                o = reg_obj(rname, acc0, idx, **kw)
                o.fields["type"] = EnumV("PureType", "GLOBAL", idx.enum_table("PureType").get("GLOBAL"))
                box["o"] = o
                node = AObj("Assignment", {}, label="node")
                i.call_function(fa, ["n", EnumV("AssignmentType", tname, tval), o, mk_pure("src", mk_vt("ts", True, 32))], self_obj=node)
                return o.fields.get("access")
            outs = Interp(idx).explore(once4)
            got = sorted({o.value.member if o.kind == "return" and isinstance(o.value, EnumV) else "RAISE" for o in outs})
            ctx.check(f"{rname} {tval} ...: the target is marked as written", bool(got) and all(g in ("W", "RW", "PW", "PRW") for g in got), "a write access class", str(got), fn_where(idx, fa), nontrivial=(tname != "ASSIGN"))


def write_property_table(ctx):
    """what an assignment makes of its target's access class: a source becomes read-write, an operand without access letter (explicit,
    alias) write-only - a write-only register gets no READ_REG of its own in the READ block"""
    idx = get_index(ctx.env)
    fw = idx.func("Register.add_write_property")
    for name, access, exp in (("Rs", "R", "RW"), ("Rss", "PR", "PRW"), ("gp", "UNKNOWN", "W"), ("P0", "UNKNOWN", "PW"), ("Rd", "W", "W"), ("R31", "UNKNOWN", "W"), ("R1:0", "UNKNOWN", "W")):
        box = {}
        def once(i, name=name, access=access):
            o = reg_obj(name, access, idx, is_explicit=name[1:2].isdigit(), is_alias=(name == "gp"))
            box["o"] = o
            return i.call_function(fw, [], self_obj=o)
        Interp(idx).explore(once)
        acc = box["o"].fields["access"]
        ctx.check(f"add_write_property[{name},{access}]", isinstance(acc, EnumV) and acc.member == exp, exp, acc.member if isinstance(acc, EnumV) else str(acc), fn_where(idx, fw))



@rule("R07.9", "C07", "register read/initialise decision table over access class, Rx operands and write-only registers", min_instances=12)
def r07_9(ctx):
    idx = get_index(ctx.env)
    fi = idx.func("Register.il_init_var")
    fr = idx.func("Register.il_read")
    decl = "const HexOp *{n}_op = ISA2REG(hi, '{l}', false);"
    init = "RzILOpPure *{n} = READ_REG(pkt, {n}_op, false);"
    for name, access, exp_init, exp_read in (
        ("Rs", "R", decl.format(n="Rs", l="s") + " " + init.format(n="Rs"), "Rs"),
        ("Rss", "PR", decl.format(n="Rss", l="s") + " " + init.format(n="Rss"), "Rss"),
        ("Rd", "W", decl.format(n="Rd", l="d"), "READ_REG(pkt, Rd_op, true)"),
        ("Rdd", "PW", decl.format(n="Rdd", l="d"), "READ_REG(pkt, Rdd_op, true)"),
        ("Rx", "RW", decl.format(n="Rx", l="x"), "READ_REG(pkt, Rx_op, false)"),
        ("Ry", "RW", decl.format(n="Ry", l="y") + " " + init.format(n="Ry"), "Ry"),
        ("Ryy", "PRW", decl.format(n="Ryy", l="y") + " " + init.format(n="Ryy"), "Ryy"),
    ):
        outs = Interp(idx).explore(lambda i: i.call_function(fi, [], self_obj=reg_obj(name, access, idx)))
        obs = " | ".join(sorted({normalise(outcome_text(o).replace("\n", " ")) for o in outs}))
        ctx.check(f"Register.il_init_var[{name},{access}]", obs == normalise(exp_init), exp_init, obs, fn_where(idx, fi))
        outs = Interp(idx).explore(lambda i: i.call_function(fr, [], self_obj=reg_obj(name, access, idx)))
        obs = " | ".join(sorted({normalise(outcome_text(o)) for o in outs}))
        ctx.check(f"Register.il_read[{name},{access}] first read", obs == exp_read, exp_read, obs, fn_where(idx, fr))
    # an alias / explicit register of unknown access becomes readable on its first read
    box = {}
    def once(i):
        o = reg_obj("gp", "UNKNOWN", idx, is_alias=True)
        box["o"] = o
        return i.call_function(fr, [], self_obj=o)
    outs = Interp(idx).explore(once)
    acc = box["o"].fields["access"]
    ctx.check("unknown access becomes R on first read", isinstance(acc, EnumV) and acc.member == "R" and [o.value for o in outs] == ["gp"], "access R, value gp", f"{acc.member if isinstance(acc, EnumV) else acc}, {[outcome_text(o) for o in outs]}", fn_where(idx, fr))
    write_property_table(ctx)

    # an explicit / alias register that the behaviour both reads and writes: the assignment runs add_write_property() while the
    # tree is transformed, every read is rendered afterwards - a read must still yield the value from before the instruction
    for name, kw in (("R31", {"is_explicit": True}), ("lr", {"is_alias": True})):
        box = {}
        def once2(i, name=name, kw=kw):
            o = reg_obj(name, "UNKNOWN", idx, **kw)
            box["o"] = o
            i.call_function(idx.func("Register.add_write_property"), [], self_obj=o)
            return i.call_function(fr, [], self_obj=o)
        outs = Interp(idx).explore(once2)
        obs = sorted({normalise(outcome_text(o)) for o in outs})
        new_reads = [x for x in obs if "true" in x]
        ctx.check(f"explicit/alias register {name} read and written in one behaviour: the read is of the old value", not new_reads, "READ_REG(..., false) or the variable initialised from it",
                  f"{obs}: the register's access class is W once any assignment to it was seen, and W registers are read as .new", fn_where(idx, fr))


    # x++ / x-- on such a register: building the node must not turn the register into a written one before its own read is rendered
    # (the value of x++ and the operand of INC are reads of the OLD value)
    fpi = idx.resolve_method("PostfixIncDec", "__init__")
    ctx.need(fpi is not None, "PostfixIncDec.__init__ not found")
    ht = {m: EnumV("HybridType", m, v) for m, v in idx.enum_table("HybridType").items()}
    for name, kw in (("R3", {"is_explicit": True}), ("lc0", {"is_alias": True}), ("Rx", {})):
        for hname in ("INC", "DEC"):
            box = {}
            def once3(i, name=name, kw=kw, hname=hname):
                o = reg_obj(name, "UNKNOWN" if kw else "RW", idx, **kw)
                o.fields.setdefault("type", EnumV("PureType", "GLOBAL", idx.enum_table("PureType").get("GLOBAL")))
                box["o"] = o
                node = AObj("PostfixIncDec", {}, label="node")
                i.call_function(fpi, ["op_" + hname, o, o.fields["value_type"], ht[hname]], self_obj=node)
                return i.call_function(fr, [], self_obj=o)
            outs = Interp(idx).explore(once3)
            obs = sorted({normalise(outcome_text(o)) for o in outs})
            ok = bool(obs) and not any("true" in x for x in obs) and not any(o.kind == "raise" for o in outs)
            ctx.check(f"{name}{'++' if hname == 'INC' else '--'}: the operand is read as the old value", ok, "READ_REG(..., false) or the variable initialised from it", str(obs)[:140], fn_where(idx, fpi), nontrivial=bool(kw))
    assignment_marks_target_written(ctx)
    # who marks a register as written: the assignment that writes it, nobody else (the mark decides whether reads are .new reads)
    callers = sorted(fi.qual for fi in idx.funcs.values() if ".Tests" not in fi.module and fi.qual != "Register.add_write_property"
                     and any(isinstance(n, ast.Call) and call_tail(n) == "add_write_property" for n in ast.walk(fi.node)))
    ctx.check("registers are marked as written by assignments only", callers == ["Assignment.__init__"], "['Assignment.__init__']", str(callers), "rzilcompiler/Transformer/Effects/Assignment.py")


@rule("R07.10", "C07", "memory accesses, jumps and returns are lowered alike for every kind of address / data / target operand", min_instances=10)
def r07_10(ctx):
    from .c12 import immediate_read_protocol

    immediate_read_protocol(ctx)  # an immediate operand is bound to its IL variable after the first copy
    from .c03 import r03_3

    r03_3(ctx)  # a store writes the width of the access: the data operand is brought to the access type whatever its own width is
    from .c05 import statement_operand_kind_independence

    statement_operand_kind_independence(ctx)


@rule("R07.11", "C07", "how an operand is resolved follows from its spelling alone: N<x>N operands are new-value operands (NREG2OP), every other letter class goes through ISA2REG also with .new; a register named twice is one object (the holder files operands under the name it looks them up by); an immediate keeps its type however it is used", min_instances=20)
def r07_11(ctx):
    from .c03 import init_a_cast_kind_independence
    from .c12 import r12_8

    idx = get_index(ctx.env)
    # Register.__init__: the new-value flag
    fi = idx.resolve_method("Register", "__init__")
    ctx.need(fi is not None, "Register.__init__ not found")
    acc = lambda m: EnumV("RegisterAccessType", m, idx.enum_table("RegisterAccessType")[m])
    for name, is_new, exp in (("Ns", True, True), ("Nt", True, True), ("Pt", True, False), ("Ps", True, False), ("Rs", True, False), ("Rt", True, False), ("Pu", True, False),
                              ("Rs", False, False), ("Rss", False, False), ("Nt", False, True)):
        def once(i, name=name, is_new=is_new):
            o = AObj("Register", {}, label="self")
            i.call_function(fi, [name, acc("R"), mk_vt("tr", True, 32), is_new], self_obj=o)
            return o.fields.get("is_n_reg")
        outs = Interp(idx).explore(once)
        got = sorted({str(o.value) if o.kind == "return" else "RAISE" for o in outs})
        ctx.check(f"register {name}{'N' if is_new else 'V'}: new-value operand (resolved through the producer)", got == [str(exp)], str(exp), str(got), fn_where(idx, fi))
    r12_8(ctx)
    init_a_cast_kind_independence(ctx)


@rule("R07.12", "C07", "which bank / slot an operand's read names is fixed by the operand (spelling, access class), never by the order in which the nodes happen to be printed: printing one node stores nothing into another node that printing reads", min_instances=1)
def r07_12(ctx):
    from .c16 import r16_5

    r16_5(ctx)


@rule("R07.13", "C07", "an operand is resolved for the behaviour that names it: no operand object (with its access class and written flag) of an earlier compilation survives an entry point - every entry point resets the transformer on every exit", min_instances=2)
def r07_13(ctx):
    from .c14 import r14_2

    r14_2(ctx)


@rule("R07.14", "C07", "the size the compiler reports for an operand (sizeof) is its own width in bytes - a predicate register is 1 byte, sizeof does not promote its operand", min_instances=6)
def r07_14(ctx):
    from .c09 import r09_4

    r09_4(ctx)


@rule("R07.15", "C07", "every alias name is told from its `_NEW` postfix (shared with the grammar rules of C17): `HEX_REG_ALIAS_LC0_NEW` is the alias LC0 read as a new value", min_instances=3)
def r07_15(ctx):
    from .c17 import postfix_literal_checks

    postfix_literal_checks(ctx)
