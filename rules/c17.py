"""C17 - the grammar parses behaviours with C structure (precedence, associativity, alternative order, token classes)."""
from __future__ import annotations

import ast
import re

from oracles import tables as O
from sa.larkmodel import get_grammar
from sa.pyindex import get_index
from sa.report import PROP_ASSUMPTIONS, PROP_EXPLANATION, rule
from sa.symex import U

from .common import fn_where

PROP_EXPLANATION["C17"] = (
    "The operator table (level, associativity, operand levels) is derived from the compiled Lark rules by following the "
    "unit-production chain from assignment_expr to primary_expr and compared with C11 Annex A.2.1; alternative orders and "
    "terminal priorities the repository relies on for Earley ambiguity resolution, and the token classes, are checked on "
    "the grammar model. Determinism across hash seeds and the Earley resolver itself are third-party behaviour (trusted as documented)."
)
PROP_ASSUMPTIONS["C17"] = ["Lark resolves ambiguity by terminal priority, then by earlier alternative (documented behaviour, confirmed once by hand)"]

# C11 A.2.1, lowest precedence first; all binary levels are left associative
BINARY_LEVELS = [
    {"||"}, {"&&"}, {"|"}, {"^"}, {"&"}, {"==", "!="}, {"<", ">", "<=", ">="}, {"<<", ">>"}, {"+", "-"}, {"*", "/", "%"},
]
ASSIGN_OPS = {"=", "*=", "/=", "%=", "+=", "-=", "<<=", ">>=", "&=", "^=", "|="}


def term_literals(gm, name) -> set[str] | None:
    """literal spellings of a terminal: a plain string, or an alternation of plain strings."""
    t = gm.terminals.get(name)
    if t is None:
        return None
    if t["kind"] == "str":
        return {t["value"]}
    if gm.literal(name) is not None:
        return {gm.literal(name)}  # whole-word keyword: word(?!\w)
    # alternation of escaped literals: (?:a|b|c)
    pat = t["value"]
    import re._parser as sp

    try:
        tree = sp.parse(pat)
    except Exception:
        return None

    def lits(seq):
        out = ""
        for op, arg in seq:
            if op is sp.LITERAL:
                out += chr(arg)
            else:
                return None
        return out

    items = list(tree)
    if len(items) == 1 and items[0][0] is sp.SUBPATTERN:
        items = list(items[0][1][3])
    if len(items) == 1 and items[0][0] is sp.BRANCH:
        res = set()
        for br in items[0][1][1]:
            l = lits(br)
            if l is None:
                return None
            res.add(l)
        return res
    l = lits(items)
    return {l} if l is not None else None


def unit_next(gm, rule):
    """(index, next rule) of the unit alternative `rule: next` if any."""
    for a in gm.rules.get(rule, []):
        if len(a.symbols) == 1 and not a.symbols[0][1]:
            return a.order, a.symbols[0][0]
    return None, None


def derive_tower(gm, top="assignment_expr", bottom="primary_expr"):
    chain = []
    cur = top
    seen = set()
    while cur and cur not in seen:
        seen.add(cur)
        idx_, nxt = unit_next(gm, cur)
        chain.append((cur, idx_, nxt))
        if cur == bottom:
            break
        cur = nxt
    return chain


@rule("R17.1", "C17", "operator precedence / associativity table derived from the grammar = C11 A.2.1", min_instances=25)
def r17_1(ctx):
    gm = get_grammar(ctx.env)
    chain = derive_tower(gm)
    names = [c[0] for c in chain]
    ctx.need(len(chain) >= 14 and names[-1] == "primary_expr", f"unit-production chain from assignment_expr does not reach primary_expr: {names}")
    # level 0: assignment (right associative): unary ASSIGN assignment
    top, _, nxt = chain[0]
    alts = [a for a in gm.rules[top] if len(a.symbols) != 1]
    shapes = sorted(" ".join(n for n, _, _ in a.symbols) for a in alts)
    unary_name = next((n for n in names if gm.rules.get(n) and any(s[0] == "UNARY_OP" for a in gm.rules[n] for s in a.symbols)), None)
    exp = [f"{unary_name} ASSIGN_OP {top}"]
    ctx.check("assignment level shape (right associative, lhs is a unary expression)", shapes == exp, str(exp), str(shapes), gm.where(top))
    lits = term_literals(gm, "ASSIGN_OP") or set()
    # ASSIGN_OP is an alternation of named terminals; collect through the regex
    ctx.check("assignment operator spellings", lits == ASSIGN_OPS, str(sorted(ASSIGN_OPS)), str(sorted(lits)), gm.where("ASSIGN_OP"))
    # level 1: conditional (right associative)
    cond, _, lor = chain[1]
    alts = [a for a in gm.rules[cond] if len(a.symbols) != 1]
    shapes = sorted(" ".join(n for n, _, _ in a.symbols) for a in alts)
    exp = [f"{lor} QMARK expr COLON {cond}"]
    ctx.check("conditional level shape (condition binds tighter, else-branch right associative)", shapes == exp, str(exp), str(shapes), gm.where(cond))
    ctx.check("conditional operator literals", gm.literal("QMARK") == "?" and gm.literal("COLON") == ":", "? :", f"{gm.literal('QMARK')} {gm.literal('COLON')}", gm.where(cond))
    # binary levels
    levels = chain[2:12]
    for i, (name, _, nxt) in enumerate(levels):
        expect_ops = BINARY_LEVELS[i]
        alts = [a for a in gm.rules[name] if len(a.symbols) != 1]
        ops = set()
        shape_ok = True
        bad = []
        for a in alts:
            syms = a.symbols
            if len(syms) == 3 and syms[0][0] == name and syms[2][0] == nxt and syms[1][1]:
                l = term_literals(gm, syms[1][0])
                if l and len(l) == 1:
                    ops |= l
                else:
                    shape_ok = False
                    bad.append(a.text())
            else:
                shape_ok = False
                bad.append(a.text())
        key = f"binary level {i} ({'/'.join(sorted(expect_ops))})"
        ctx.check(key + " operators", ops == expect_ops, str(sorted(expect_ops)), str(sorted(ops)), gm.where(name))
        ctx.check(key + " left associative with tighter right operand", shape_ok, f"{name} OP {nxt}", "; ".join(bad) or "ok", gm.where(name))
    # cast level
    cast, _, unary = chain[12]
    alts = [a for a in gm.rules[cast] if len(a.symbols) != 1]
    shapes = sorted(" ".join(n for n, _, _ in a.symbols) for a in alts)
    ctx.check("cast level shape", shapes == [f"LPAR type_name RPAR {cast}"], f"( type_name ) {cast}", str(shapes), gm.where(cast))
    # unary level
    un, _, postfix = chain[13]
    alts = [a for a in gm.rules[un] if len(a.symbols) != 1]
    shapes = sorted(" ".join(n for n, _, _ in a.symbols) for a in alts)
    exp = sorted([f"INC_OP {un}", f"DEC_OP {un}", f"UNARY_OP {cast}", f"SIZEOF {un}", "SIZEOF LPAR type_name RPAR", "ALIGNOF LPAR type_name RPAR"])
    ctx.check("unary level shape (prefix operators apply to a cast expression)", shapes == exp, str(exp), str(shapes), gm.where(un))
    # postfix level: left recursive
    alts = [a for a in gm.rules[postfix] if len(a.symbols) > 1 and a.symbols[0][0] != "LPAR"]
    ok = all(a.symbols[0][0] == postfix for a in alts)
    ctx.check("postfix level is left recursive", ok and len(alts) >= 6, f"{postfix} <suffix>", str([a.text() for a in alts if a.symbols[0][0] != postfix]) if not ok else "ok", gm.where(postfix))
    ctx.check("postfix ++/-- spellings", gm.literal("INC_OP") == "++" and gm.literal("DEC_OP") == "--", "++ --", f"{gm.literal('INC_OP')} {gm.literal('DEC_OP')}", gm.where("INC_OP"))
    # primary: parenthesised expression
    prim = chain[-1][0]
    shapes = [" ".join(n for n, _, _ in a.symbols) for a in gm.rules[prim]]
    ctx.check("primary level has ( expr )", "LPAR expr RPAR" in shapes, "( expr )", str(shapes), gm.where(prim))
    # expr: comma is the loosest operator, statement-expression is an expr
    shapes = sorted(" ".join(n for n, _, _ in a.symbols) for a in gm.rules["expr"])
    ctx.check("expr level shape", shapes == sorted([chain[0][0], f"expr COMMA {chain[0][0]}", "gcc_extended_expr"]), "assignment | expr , assignment | ({...})", str(shapes), gm.where("expr"))


@rule("R17.2", "C17", "& versus &&: distinct terminals at their own levels; address-of pattern cannot swallow &&; UNARY_OP only as prefix", min_instances=5)
def r17_2(ctx):
    gm = get_grammar(ctx.env)
    ctx.check("BIT_AND_OP literal", gm.literal("BIT_AND_OP") == "&", "&", str(gm.literal("BIT_AND_OP")), gm.where("BIT_AND_OP"))
    ctx.check("AND_OP literal", gm.literal("AND_OP") == "&&", "&&", str(gm.literal("AND_OP")), gm.where("AND_OP"))
    uses = {}
    for r, alts in gm.rules.items():
        for a in alts:
            for n, is_term, _ in a.symbols:
                if n in ("BIT_AND_OP", "AND_OP", "UNARY_OP"):
                    uses.setdefault(n, set()).add(" ".join(s[0] for s in a.symbols))
    ctx.check("BIT_AND_OP used only as binary and-operator", uses.get("BIT_AND_OP") == {"and_expr BIT_AND_OP equality_expr"}, "and_expr BIT_AND_OP equality_expr", str(sorted(uses.get("BIT_AND_OP", []))), gm.where("and_expr"))
    ctx.check("AND_OP used only as logical and-operator", uses.get("AND_OP") == {"logical_and_expr AND_OP inclusive_or_expr"}, "logical_and_expr AND_OP inclusive_or_expr", str(sorted(uses.get("AND_OP", []))), gm.where("logical_and_expr"))
    ctx.check("UNARY_OP used only as prefix of a cast expression", uses.get("UNARY_OP") == {"UNARY_OP cast_expr"}, "UNARY_OP cast_expr", str(sorted(uses.get("UNARY_OP", []))), gm.where("unary_expr"))
    # UNARY_OP = & | * | + | - | ~ | ! : one character each; the address-of `&` only where it is not part of `&&`, and WITHOUT the
    # characters next to it (a terminal `[^&]&[^&]` swallows its neighbours: `a&~b` lexes as the "operator" `a&~` applied to b,
    # `1&ctpop64(x)` calls tpop64)
    t = gm.terminals.get("UNARY_OP")
    ctx.need(t is not None and t["kind"] == "re", "terminal UNARY_OP missing")
    try:
        ux = re.compile(t["value"])
    except re.error as e:
        ctx.need(False, f"UNARY_OP pattern does not compile: {e}")
    singles = {c for c in "*+-~!&@#%^|/<>=?:.,;()[]{}" if ux.fullmatch(c)}
    ctx.check("UNARY_OP single-character operators", singles == {"*", "+", "-", "~", "!", "&"}, "& * + - ~ !", str(sorted(singles)), gm.where("UNARY_OP"))
    probes = ["a&b", "a&~b", "a & b", "(a)&b", "1&ctpop64(x)", "a&&b", "a && b", "x = &y;", "a&-b", "f(&a, &b)", "a&(b)", "a &b", "a& b"]
    bad = []
    n_amp = 0
    for text in probes:
        for pos in range(len(text)):
            m = ux.match(text, pos)
            if not m:
                if text[pos] == "&" and "&&" not in text[max(0, pos - 1):pos + 2]:
                    bad.append(f"{text!r}: the lone & at {pos} is not matched")
                continue
            if m.end() - m.start() != 1:
                bad.append(f"{text!r}: matches {m.group(0)!r} at {pos}")
            elif m.group(0) == "&":
                n_amp += 1
                if "&&" in text[max(0, pos - 1):pos + 2]:
                    bad.append(f"{text!r}: matches one half of && at {pos}")
    ctx.check("address-of `&` is one character, and never one half of `&&`", not bad and n_amp >= 10, "every UNARY_OP match is one character long; a lone & matches, an & next to another & does not",
              "; ".join(bad[:4]) or f"{n_amp} lone ampersands matched", gm.where("PTR") if "PTR" in gm.text else gm.where("UNARY_OP"))


@rule("R17.3", "C17", "alternative orders and terminal priorities the ambiguity resolution relies on", min_instances=20)
def r17_3(ctx):
    gm = get_grammar(ctx.env)
    chain = derive_tower(gm)
    for name, idx_, nxt in chain[:-1]:
        ctx.check(f"{name}: unit alternative listed first", idx_ == 0, "unit alternative is alternative 0", f"alternative {idx_}", gm.where(name),
                  note="type names also lex as IDENTIFIER: `(int32_t) -b` is a cast only because the unit alternative wins")
    # op: identifier last
    ops = gm.rules.get("op", [])
    ctx.need(ops, "rule op missing")
    names = [a.symbols[0][0] for a in ops]
    ctx.check("op: identifier is the last alternative", names and names[-1] == "identifier", "identifier last", str(names), gm.where("op"))
    ctx.check("op: register variants first", names and names[0] == "_reg_variant", "_reg_variant first", str(names), gm.where("op"))
    st = [a.symbols[0][0] for a in gm.rules.get("stmt", [])]
    ctx.need("compound_stmt" in st and "expr_stmt" in st, "stmt alternatives changed")
    ctx.check("stmt: compound statement preferred over expression statement", st.index("compound_stmt") < st.index("expr_stmt"), "compound_stmt before expr_stmt", str(st), gm.where("stmt"))
    ctx.check("stmt: labeled and jump statements preferred over expression statement", st.index("jump_stmt") < st.index("expr_stmt") and st.index("labeled_stmt") < st.index("expr_stmt"), "before expr_stmt", str(st), gm.where("stmt"))
    ex = [" ".join(s[0] for s in a.symbols) for a in gm.rules.get("expr", [])]
    ctx.check("expr: plain assignment expression preferred over statement-expression", ex and ex[0] == "assignment_expr" and ex[-1] == "gcc_extended_expr", "assignment_expr first, gcc_extended_expr last", str(ex), gm.where("expr"))
    idp = gm.terminals.get("IDENTIFIER", {}).get("priority", 0)
    for kw in ("JUMP", "MEM_LOAD", "MEM_STORE"):
        t = gm.terminals.get(kw)
        ctx.need(t is not None, f"terminal {kw} missing")
        ctx.check(f"terminal priority {kw} > IDENTIFIER", t["priority"] > idp, f"> {idp}", str(t["priority"]), gm.where(kw))
    for other, t in gm.terminals.items():
        if other != "IDENTIFIER" and t["priority"] < idp:
            ctx.check(f"terminal priority {other} >= IDENTIFIER", False, f">= {idp}", str(t["priority"]), gm.where(other))
    pf = [" ".join(s[0] for s in a.symbols) for a in gm.rules.get("postfix_expr", [])]
    ctx.check("postfix_expr: primary first", pf and pf[0] == "primary_expr", "primary_expr first", str(pf[:2]), gm.where("postfix_expr"))
    # the children of a statement node are told apart by position (for: init, condition, step, body; if: condition, then, else):
    # every alternative of these rules has a fixed number of children - no inlined sub-rule that contributes a child in one
    # derivation and none in another (an empty for-clause must leave its slot behind)
    n_fixed = 0
    for rname in ("iteration_stmt", "selection_stmt", "labeled_stmt", "conditional_expr", "cast_expr", "init_declarator", "declaration"):
        for a in gm.rules.get(rname, []):
            var = [c.name for c in a.children if c.kind == "splice" and len(gm._counts.get(c.name, {None})) != 1]
            n_fixed += 1
            if var:
                ctx.check(f"{rname}: `{a.text()[:70]}` has a fixed number of children", False, "one child per role", f"inlined {var} contribute {sorted(map(str, gm._counts.get(var[0], [])))} children", gm.where(rname))
    ctx.check("statement alternatives have one child per role (scan done)", n_fixed >= 8, ">= 8 alternatives inspected", str(n_fixed), gm.where("iteration_stmt"), nontrivial=False)
    # compound_stmt / gcc_extended_expr, selection
    cs = [" ".join(s[0] for s in a.symbols) for a in gm.rules.get("_reg_variant", [])]
    ctx.check("_reg_variant order (alias, .new, plain, explicit)", cs == ["HEX_REG_ALIAS_ reg_alias", "new_reg N", "reg V", "explicit_reg"], "alias, new, plain, explicit", str(cs), gm.where("_reg_variant"))


@rule("R17.4", "C17", "dangling else binds to the nearest if", min_instances=1)
def r17_4(ctx):
    dangling_else_checks(ctx)


def dangling_else_checks(ctx):
    gm = get_grammar(ctx.env)
    alts = gm.rules.get("selection_stmt", [])
    no_else = next((a.order for a in alts if [s[0] for s in a.symbols][:1] == ["IF"] and "ELSE" not in [s[0] for s in a.symbols]), None)
    with_else = next((a.order for a in alts if "ELSE" in [s[0] for s in a.symbols]), None)
    ctx.need(no_else is not None and with_else is not None, "selection_stmt has no if / if-else alternatives")
    ctx.check("selection_stmt: `if` without else listed before `if ... else`", no_else < with_else, "if-without-else first (outer if prefers no else)",
              f"if-else is alternative {with_else}, if is alternative {no_else}", gm.where("selection_stmt"))
    for a in alts:
        names = [s[0] for s in a.symbols]
        if "ELSE" in names:
            ctx.check("if-else shape", names == ["IF", "LPAR", "expr", "RPAR", "stmt", "ELSE", "stmt"], "IF ( expr ) stmt ELSE stmt", " ".join(names), gm.where("selection_stmt"))


def char_class(pattern: str):
    """set of single characters a regex like /[stuvw]/ matches (None if not a single char class)."""
    import re._parser as sp

    tree = list(sp.parse(pattern))
    if len(tree) == 1 and tree[0][0] is sp.SUBPATTERN:
        tree = list(tree[0][1][3])
    if len(tree) == 1 and tree[0][0] is sp.IN:
        out = set()
        for op, arg in tree[0][1]:
            if op is sp.LITERAL:
                out.add(chr(arg))
            elif op is sp.RANGE:
                out |= {chr(c) for c in range(arg[0], arg[1] + 1)}
            else:
                return None
        return out
    if len(tree) == 1 and tree[0][0] is sp.LITERAL:
        return {chr(tree[0][1])}
    return None


@rule("R17.5", "C17", "token classes: register/immediate/access letters, number bases, keyword spellings", min_instances=14)
def r17_5(ctx):
    gm = get_grammar(ctx.env)
    for tname, letters in O.ACCESS_LETTERS.items():
        t = gm.terminals.get(tname)
        ctx.need(t is not None, f"terminal {tname} missing")
        if all(len(x) == 1 for x in letters):
            got = char_class(t["value"]) if t["kind"] == "re" else {t["value"]}
        else:
            got = term_literals(gm, tname)
        ctx.check(f"{tname} letters", got == letters, str(sorted(letters)), str(sorted(got)) if got else "unrecognised pattern " + t["value"], gm.where(tname))
    t = gm.terminals.get("IMMEDIATE")
    ctx.need(t is not None, "terminal IMMEDIATE missing")
    got = char_class(t["value"])
    ctx.check("IMMEDIATE letters", got == O.IMM_LETTERS, str(sorted(O.IMM_LETTERS)), str(sorted(got)) if got else t["value"], gm.where("IMMEDIATE"))
    t = gm.terminals.get("REG_TYPE")
    got = char_class(t["value"]) if t else None
    ctx.check("REG_TYPE letters", got == set("CNPRMQVO"), "C N P R M Q V O", str(sorted(got)) if got else "?", gm.where("REG_TYPE"))
    ctx.check("SIGN_TYPE letters", char_class(gm.terminals["SIGN_TYPE"]["value"]) == {"s", "u"}, "s u", str(char_class(gm.terminals["SIGN_TYPE"]["value"])), gm.where("SIGN_TYPE"))
    bw = term_literals(gm, "BIT_WIDTH")
    ctx.check("BIT_WIDTH spellings", bw == {"1", "2", "4", "8", "16", "32", "64"}, "1 2 4 8 16 32 64", str(sorted(bw or [])), gm.where("BIT_WIDTH"))
    terminal_probe(ctx, gm, "HEX_NUMBER", ["0x0", "0x10", "0XfF", "0xdeadBEEF", "0x7fffffffffffffff"], ["10", "0", "x10", "0y10", "0x1g", "1x0", "0x_1"])
    terminal_probe(ctx, gm, "DEC_NUMBER", ["0", "7", "10", "31", "4294967296", "1_000"], ["010", "007", "00", "0x10", "08", "_1", "1a", "-1", "1.5"])
    post = term_literals(gm, "INT_POST_TYPE")
    ctx.check("INT_POST_TYPE spellings", post == {"LL", "ULL", "U", "u", "ull", "ll"}, "LL ULL U u ull ll", str(sorted(post or [])), gm.where("INT_POST_TYPE"))
    # keywords used by the transformer's string comparisons
    for term, lit in (("IF", "if"), ("ELSE", "else"), ("FOR", "for"), ("WHILE", "while"), ("DO", "do"), ("SWITCH", "switch"), ("RETURN", "return"),
                      ("BREAK", "break"), ("CONTINUE", "continue"), ("GOTO", "goto"), ("SIZEOF", "sizeof"), ("CONST", "const"),
                      ("JUMP", "JUMP"), ("MEM_LOAD", "mem_load_"), ("MEM_STORE", "mem_store_"), ("NOP", "__NOP")):
        ctx.check(f"keyword {term}", gm.literal(term) == lit, lit, str(gm.literal(term)), gm.where(term))
    # operand suffix letters: .new operands end in N, plain ones in V, immediates in iV
    rv = {" ".join(s[0] for s in a.symbols) for a in gm.rules.get("_reg_variant", [])}
    ctx.check("register suffix letters", gm.literal("N") == "N" and gm.literal("V") == "V" and gm.literal("IV") == "iV" and gm.literal("HEX_REG_ALIAS_") == "HEX_REG_ALIAS_",
              "N / V / iV / HEX_REG_ALIAS_", f"{gm.literal('N')} {gm.literal('V')} {gm.literal('IV')} {gm.literal('HEX_REG_ALIAS_')}", gm.where("_reg_variant"))
    er = [a for a in gm.rules.get("explicit_reg", [])]
    ctx.need(er, "explicit_reg missing")
    anon = er[0].symbols[0][0]
    terminal_probe(ctx, gm, anon, ["R0", "R1", "R31", "R30", "P0", "P3", "C1", "M0", "M1", "V0", "Q3", "G1", "S2", "R1:0", "R31:30", "R3:2", "C1:0"], ["RsV", "Rd", "R", "P", "r0", "R_0", "R0:", "R:0", "X1", "R1:", "R311", "R1:0:1"], label="explicit register pattern")
    ctx.check("explicit register keeps its tokens (`!rule`) and has a _NEW placeholder", all(a.keep_all for a in er) and {len(a.children) for a in er} == {2}, "keep_all_tokens, 2 children", str([(a.keep_all, len(a.children)) for a in er]), gm.where("explicit_reg"))
    postfix_literal_checks(ctx)
    terminal_probe(ctx, gm, "IDENTIFIER", ["a", "EA", "tmp", "_x", "x_1", "RsV", "fLSBNEW0", "HEX_REG_ALIAS_P3_0", "A1"], ["1a", "9", "a-b", "a.b", "", "a b", "$x", "a+"])


def terminal_probe(ctx, gm, tname, yes, no, label=None):
    """a terminal is checked by what it matches, not by how its pattern is spelled: it takes every spelling of `yes` as a whole and none
    of `no`"""
    t = gm.terminals.get(tname)
    ctx.need(t is not None, f"terminal {tname} missing")
    if t["kind"] == "str":
        bad = [f"{x!r} not accepted" for x in yes if x != t["value"]] + [f"{x!r} accepted" for x in no if x == t["value"]]
    else:
        try:
            rx_ = re.compile(t["value"], re.I if "i" in t["flags"] else 0)
        except re.error as e:
            ctx.check(label or f"{tname} spellings", False, "a valid pattern", f"{t['value']!r}: {e}", gm.where(tname))
            return
        bad = [f"{x!r} not accepted" for x in yes if not rx_.fullmatch(x)] + [f"{x!r} accepted" for x in no if rx_.fullmatch(x)]
    ctx.check(label or f"{tname} spellings", not bad, f"accepts {yes[:6]}..., rejects {no[:6]}...", "; ".join(bad[:5]) or "ok", gm.where(tname))


def postfix_literal_checks(ctx):
    """a pattern terminal that is followed by a literal postfix (`<alias name>` `_NEW`, `<explicit register>` `_NEW`): Lark's dynamic lexer
    tries only the longest match of the pattern, so the pattern must stop in front of the postfix - otherwise the postfix is never seen and
    the word silently falls to the catch-all identifier.  Probes: the alias / register names of the dialect."""
    gm = get_grammar(ctx.env)
    names = set(O.ALIAS_PROBES)
    hdr = ctx.env.repo / "Resources" / "Hexagon" / "Preprocessor" / "patches_macros.h"
    if hdr.is_file():
        names |= {m for m in re.findall(r"HEX_REG_ALIAS_([A-Z0-9]+)\b", hdr.read_text(errors="replace")) if not m.endswith("_NEW")}
    probes = sorted(names) + ["R0", "R31", "P3", "C9", "R1:0", "R17:16", "M1", "V0", "Q3", "G1", "S2"]

    def lit_of(sym):
        t = gm.terminals.get(sym)
        if t is not None:
            return t["value"] if t["kind"] == "str" else None
        alts = gm.rules.get(sym, [])
        vals = {lit_of(a.symbols[0][0]) if len(a.symbols) == 1 else None for a in alts}
        return vals.pop() if len(vals) == 1 else None

    pairs = 0
    for rname, alts in gm.rules.items():
        for a in alts:
            syms = [x[0] for x in a.symbols]
            for n_, (t_, nx) in enumerate(zip(syms, syms[1:])):
                t = gm.terminals.get(t_)
                lit = lit_of(nx)
                if t is None or t["kind"] != "re" or not lit:
                    continue
                try:
                    rx = re.compile(t["value"], re.I if "i" in t["flags"] else 0)
                except re.error:
                    continue
                ws = [w for w in probes if rx.fullmatch(w)]
                if not ws:
                    continue
                pairs += 1
                bad = [f"{w}{lit}: the pattern takes {rx.match(w + lit).group(0)!r}" for w in ws if rx.match(w + lit).end() != len(w)]
                ctx.check(f"{rname}: /{t['value']}/ stops in front of the postfix {lit!r} ({len(ws)} probe names)", not bad, f"the name, then {lit!r}", "; ".join(bad[:4]) or "stops", gm.where(rname))
    ctx.check("pattern terminals followed by a literal postfix were found (alias and explicit register names before _NEW)", pairs >= 2, ">= 2 (pattern, postfix) pairs", str(pairs), gm.where("reg_alias"))
    # the alias names of the dialect are classified as alias names
    al = gm.rules.get("reg_alias", [])
    ctx.need(al, "rule reg_alias missing")
    t0 = gm.terminals.get(al[0].symbols[0][0])
    if t0 is not None and t0["kind"] == "re":
        rx = re.compile(t0["value"])
        miss = [w for w in sorted(names) if not rx.fullmatch(w)]
        ctx.check("every alias name of the dialect matches the alias name pattern", not miss, "all match", f"not matched: {miss[:6]}" if miss else "all match", gm.where("reg_alias"))


@rule("R17.6", "C17", "both Lark parser construction sites use the same grammar file and options", min_instances=2)
def r17_6(ctx):
    idx = get_index(ctx.env)
    sites = []
    for q in ("Compiler.set_lark_parser", "parse_single"):
        fi = idx.func(q)
        calls = [n for n in ast.walk(fi.node) if isinstance(n, ast.Call) and isinstance(n.func, ast.Name) and n.func.id == "Lark"]
        ctx.need(len(calls) == 1, f"{q}: expected exactly one Lark(...) construction, found {len(calls)}")
        c = calls[0]
        kw = sorted((k.arg, U(k.value)) for k in c.keywords)
        sites.append((q, kw, len(c.args), fi))
    ctx.check("Lark options agree", sites[0][1] == sites[1][1] and sites[0][2] == sites[1][2] == 1, str(sites[0][1]), str(sites[1][1]), f"{sites[1][3].path.relative_to(idx.repo)}:{sites[1][3].node.lineno}")
    exp = [("parser", "'earley'"), ("start", "'fbody'")]
    for q, kw, _, fi in sites:
        ctx.check(f"{q}: Lark(grammar, start='fbody', parser='earley')", kw == exp, str(exp), str(kw), f"{fi.path.relative_to(idx.repo)}:{fi.node.lineno}")
    # same grammar file
    paths = []
    for q in ("Compiler.set_lark_parser", "Parser.parse"):
        fi = idx.func(q)
        gp = [U(n) for n in ast.walk(fi.node) if isinstance(n, ast.Call) and U(n.func) == "Conf.get_path"]
        paths.append((q, gp, fi))
    ctx.check("grammar file agrees", paths[0][1] == paths[1][1] == ["Conf.get_path(InputFile.GRAMMAR, 'Hexagon')"], "Conf.get_path(InputFile.GRAMMAR, 'Hexagon') at both sites", f"{paths[0][1]} vs {paths[1][1]}", f"{paths[1][2].path.relative_to(idx.repo)}:{paths[1][2].node.lineno}")
    tbl = idx.enum_table("InputFile")
    ctx.check("InputFile.GRAMMAR path", tbl.get("GRAMMAR") == "<REPO>/Resources/<ARCH>/grammar.lark", "<REPO>/Resources/<ARCH>/grammar.lark", str(tbl.get("GRAMMAR")), "rzilcompiler/Configuration.py")
    # the Lark object is used as it is: nothing sits between the text and the Earley parser (a wrapper could cache,
    # normalise or rewrite the text and make the tree depend on earlier inputs)
    def lark_call(n):
        return isinstance(n, ast.Call) and isinstance(n.func, ast.Name) and n.func.id == "Lark"

    for fi in idx.funcs.values():
        if fi.module.endswith("Tests") or ".Tests." in fi.module:
            continue
        body_calls = [n for n in ast.walk(fi.node) if lark_call(n)]
        if not body_calls:
            continue
        direct = {}
        for n in ast.walk(fi.node):
            if isinstance(n, ast.Assign) and lark_call(n.value):
                for t in n.targets:
                    direct[U(t)] = n.value
        bound = set(id(v) for v in direct.values())
        for c in body_calls:
            ctx.check(f"{fi.qual}: the Lark instance is bound as it is", id(c) in bound, "<name> = Lark(...)", "the Lark(...) object is wrapped or passed on inside another expression", fn_where(idx, fi))
    fc = idx.func("Compiler.set_lark_parser")
    vals = []
    for fi in idx.funcs.values():
        if fi.cls != "Compiler":
            continue
        local = {U(t): n.value for n in ast.walk(fi.node) if isinstance(n, ast.Assign) for t in n.targets}
        for n in ast.walk(fi.node):
            if isinstance(n, ast.Assign) and any(U(t) == "self.parser" for t in n.targets):
                v = n.value
                if isinstance(v, ast.Name) and v.id in local:
                    v = local[v.id]
                vals.append((fi, v))
    ctx.need(vals, "no assignment to Compiler.parser found")
    for fi, v in vals:
        ctx.check("Compiler.parser is the Lark instance itself", lark_call(v) or (isinstance(v, ast.Constant) and v.value is None), "self.parser = Lark(...)", U(v)[:80], fn_where(idx, fi))
    text_reaches_parser_unmodified(ctx)


def text_reaches_parser_unmodified(ctx):
    """the text handed to .parse() is the caller's text: the parameter itself, never re-bound on the way (no trimming, no normalising -
    what the parser does not get, nobody translates and nobody rejects)"""
    idx = get_index(ctx.env)
    n = 0
    for q, recv in (("Compiler.compile_c_stmt", "self.parser"), ("Compiler.compile_sub_routine", "self.parser")):
        if not idx.has_func(q):
            continue
        fi = idx.func(q)
        pcs = [n_ for n_ in ast.walk(fi.node) if isinstance(n_, ast.Call) and isinstance(n_.func, ast.Attribute) and n_.func.attr == "parse" and U(n_.func.value) == recv]
        params = {a.arg for a in fi.node.args.args}
        for c in pcs:
            n += 1
            rebound = {t.id for n_ in ast.walk(fi.node) for t in ast.walk(n_) if isinstance(n_, (ast.Assign, ast.AugAssign, ast.AnnAssign)) and isinstance(t, ast.Name) and isinstance(t.ctx, ast.Store)
                       and t.id in params and n_.lineno < c.lineno}
            ok = len(c.args) == 1 and isinstance(c.args[0], ast.Name) and c.args[0].id in params and not c.keywords and c.args[0].id not in rebound
            ctx.check(f"{q} parses its text argument unmodified", ok, "self.parser.parse(<parameter>), the parameter never assigned to",
                      U(c)[:60] + (f"; parameter {sorted(rebound)} is re-bound before" if rebound else ""), fn_where(idx, fi), nontrivial=False)
    ctx.need(n >= 2, "parse() calls of the Compiler not found")


@rule("R17.7", "C17", "the tree filed under an instruction's name is the tree of that instruction's text, whatever the pool's schedule: results are keyed by the name each task returns, never by arrival position", min_instances=8)
def r17_7(ctx):
    from .c18 import r18_2

    r18_2(ctx)


def keyword_literal(t):
    """the word a keyword terminal stands for: a plain string, or a regex of the form word(?!\\w) / word\\b"""
    if t["kind"] == "str":
        return t["value"], False
    m = re.fullmatch(r"([A-Za-z_]\w*)(\(\?!\\w\)|\(\?!\[A-Za-z0-9_\]\)|\\b)", t["value"])
    if m:
        return m.group(1), True
    return None, False


@rule("R17.8", "C17", "keywords are whole words: a keyword terminal cannot match the beginning of a longer identifier (`elsewhere` is one identifier, not `else where`)", min_instances=1)
def r17_8(ctx):
    gm = get_grammar(ctx.env)
    ident = gm.terminals.get("IDENTIFIER")
    ctx.need(ident is not None and ident["kind"] == "re", "IDENTIFIER terminal not found")
    open_ended = []
    n = 0
    for name, t in sorted(gm.terminals.items()):
        word, bounded = keyword_literal(t)
        if word is None or word not in O.C11_KEYWORDS:
            continue  # pieces of operand spellings (R + dd + V, mem_load_ + u + 32) are meant to continue without a boundary
        if not re.fullmatch(ident["value"], word):
            continue
        n += 1
        if not bounded:
            open_ended.append(f"{name}={word!r}")
    # ... and nothing but a word character keeps a keyword from matching: `return(x);`, `if(c)`, `sizeof(x)`, `else{`, `break;` are
    # the keyword followed by a token of its own (evaluated on the terminal patterns, whatever look-ahead they spell)
    refused = []
    special = {"INTEGER": "int", "BOOL": "_Bool"}
    for name, t in sorted(gm.terminals.items()):
        word, bounded = keyword_literal(t)
        if word is None:
            # a pattern of a shape the model does not read: the terminal's NAME still says which keyword it is
            word = special.get(name, name.lower())
        if word not in O.C11_KEYWORDS or t["kind"] != "re":
            continue
        try:
            rx_ = re.compile(t["value"])
        except re.error:
            continue
        if rx_.match(word + " ") is None and rx_.match(word) is None:
            continue  # not a keyword terminal after all
        m = rx_.match(word + "x1")
        if m is not None and m.end() >= len(word):
            refused.append(f"{name} matches the beginning of {word + 'x1'!r}")
        for follower in (" ", ";", "(", ")", "{", "}", "*", "-", "\n", "\t", "", "+", "!", "~", "&", ","):
            m = rx_.match(word + follower)
            if m is None or m.end() != len(word):
                refused.append(f"{name} does not match in {word + follower!r}")
    ctx.check("a keyword is recognised in front of every non-word character", not refused, "the keyword matches before ( ; ) { * blank, end of text ...", "; ".join(refused[:4]) or "ok", gm.where("IDENTIFIER"))
    ctx.need(n >= 30, f"only {n} C keyword terminals found")
    ctx.check("keyword terminals end at a word boundary", not open_ended, "every keyword is a regex `word(?!\\w)` (or `word\\b`)",
              f"{len(open_ended)} plain string keywords, e.g. {open_ended[:6]}: an identifier that starts with one of them is split (`intermediate = 1` parses as `int ermediate = 1`, `elsewhere = 2` after an if as its else branch)",
              gm.where("IDENTIFIER"))


def _matchers(gm):
    """terminal name -> function(text) -> bool (full match), from the terminal patterns of the grammar file"""
    out = {}
    for name, t in gm.terminals.items():
        if t["kind"] == "str":
            out[name] = (lambda s, v=t["value"]: s == v)
        else:
            fl = 0
            for f in t["flags"]:
                fl |= {"i": re.I, "m": re.M, "s": re.S, "x": re.X, "u": re.U, "l": 0}.get(f, 0)
            try:
                rx_ = re.compile(t["value"], fl)
            except re.error:
                continue
            out[name] = (lambda s, r=rx_: r.fullmatch(s) is not None)
    return out


# terminals whose priority over every terminal they share text with is wanted: the operand-spelling prefixes and the macro-like
# keywords must not be read as (the beginning of) a plain identifier or register-alias name
REVIEWED_PRIORITISED = {"MEM_LOAD", "MEM_STORE", "WRITE_PRED", "JUMP"}


@rule("R17.9", "C17", "terminal priorities are summed over a derivation and compared BEFORE alternative order (Lark ForestSumVisitor): a terminal that shares text with another terminal carries the same priority, except for the reviewed keyword-over-identifier pairs", min_instances=4)
def r17_9(ctx):
    gm = get_grammar(ctx.env)
    match = _matchers(gm)
    prios = {n: t["priority"] for n, t in gm.terminals.items()}
    # probe texts: every literal terminal, every keyword word, and those spellings extended on either side (a text another terminal
    # tokenises as ONE token while the literal makes it two: `-` + `1.0` against a signed float)
    lits = {n: gm.literal(n) for n in gm.terminals}
    tails = ["", "x", "1", "1.0", "0x1", "_a", "V", "32"]
    n_pairs = 0
    for name, lit in sorted(lits.items()):
        if lit is None:
            continue
        rivals = set()
        for tail in tails:
            for text in {lit + tail, tail + lit}:
                for other, m in match.items():
                    if other != name and m(text):
                        rivals.add(other)
        for other in sorted(rivals):
            n_pairs += 1
            if prios[name] == prios[other] == 0:
                continue
            if name in REVIEWED_PRIORITISED or other in REVIEWED_PRIORITISED:
                hi, lo = (name, other) if name in REVIEWED_PRIORITISED else (other, name)
                if lo in REVIEWED_PRIORITISED:
                    continue
                ctx.check(f"priority {hi} over {lo}", prios[hi] > prios[lo], f"{hi} > {lo}", f"{hi}={prios[hi]}, {lo}={prios[lo]}", gm.where(hi))
            else:
                ctx.check(f"priority of {name} ({lit!r}) and {other}, which can cover the same text", prios[name] == prios[other] == 0,
                          "no priority on either: the competing readings are decided by alternative order, as reviewed (R17.3)",
                          f"{name}={prios[name]}, {other}={prios[other]}: every derivation using the prioritised token now beats its rivals whatever the alternative order says "
                          f"(`(int32_t) -x` turns into a subtraction from an identifier named int32_t when SUB_OP outranks UNARY_OP)", gm.where(name))
    ctx.check("terminal pairs that share text", n_pairs >= 60, ">= 60 pairs inspected", str(n_pairs), gm.where("IDENTIFIER"), nontrivial=False)
    ctx.need(len(REVIEWED_PRIORITISED & set(prios)) >= 3, "the prioritised operand-spelling terminals are missing")


def _short_sequences(gm, limit=2):
    """nonterminal -> set of terminal-name tuples of length <= limit it derives (least fixpoint)"""
    seqs = {n: set() for n in gm.rules}
    changed = True
    while changed:
        changed = False
        for n, alts in gm.rules.items():
            for a in alts:
                cur = {()}
                for sym, is_term, _ in a.symbols:
                    opts = {(sym,)} if is_term else seqs.get(sym, set())
                    cur = {x + y for x in cur for y in opts if len(x) + len(y) <= limit}
                    if not cur:
                        break
                if not cur <= seqs[n]:
                    seqs[n] |= cur
                    changed = True
    return seqs


def _alt_sequences(gm, a, seqs, limit=2):
    cur = {()}
    for sym, is_term, _ in a.symbols:
        opts = {(sym,)} if is_term else seqs.get(sym, set())
        cur = {x + y for x in cur for y in opts if len(x) + len(y) <= limit}
    return cur


@rule("R17.10", "C17", "a statement that consists of one word (`cancel_slot;`, `break;`, `continue;`, `return;`) is read as that statement, not as an expression statement on an identifier of that name", min_instances=3)
def r17_10(ctx):
    gm = get_grammar(ctx.env)
    match = _matchers(gm)
    ctx.need("IDENTIFIER" in match and "stmt" in gm.rules, "IDENTIFIER / stmt missing")
    seqs = _short_sequences(gm)
    alts = gm.rules["stmt"]
    per_alt = [(a, _alt_sequences(gm, a, seqs)) for a in alts]
    words = {}
    for a, ss in per_alt:
        for s in ss:
            if len(s) == 2:
                w = gm.literal(s[0])
                if w is not None and s[0] != "IDENTIFIER" and match["IDENTIFIER"](w) and gm.terminals[s[0]]["priority"] <= gm.terminals["IDENTIFIER"]["priority"]:
                    words.setdefault((s[0], s[1], w), []).append(a)
    ctx.need(words, "no one-word statements found in the grammar")

    def rank(a):
        # Lark's Earley: a stmt item completed by the SCANNER (the alternative itself ends with a terminal) enters the column before the
        # completer runs, and of two equal families (same span, same symbols) only the first one added is kept (PackedNode.__eq__
        # compares (left, right); SymbolNode.__eq__ compares (symbol, start, end)); among completer-made ones the alternative order decides
        return (0 if a.symbols and a.symbols[-1][1] else 1, a.order)

    for (t0, t1, w), kw_alts in sorted(words.items()):
        rivals = [a for a, ss in per_alt if ("IDENTIFIER", t1) in ss and a not in kw_alts]
        if not rivals:
            ctx.check(f"`{w};`", True, "keyword statement", "no competing identifier reading", gm.where("stmt"))
            continue
        best_kw = min(kw_alts, key=rank)
        best_rv = min(rivals, key=rank)
        ctx.check(f"`{w};` is the {best_kw.text().split(': ', 1)[1]} statement", rank(best_kw) < rank(best_rv),
                  "the keyword alternative precedes the identifier reading, or it ends with the terminal that ends the statement (scanner-completed)",
                  f"keyword reading {best_kw.text()} rank {rank(best_kw)}; identifier reading {best_rv.text()} rank {rank(best_rv)}", gm.where("stmt"))


@rule("R17.11", "C17", "the trees of an instruction are those of its parts, in the order of the parts, whatever the process's hash seed: the worker parses each part in list order with its own parser and depends on nothing but its argument", min_instances=8)
def r17_11(ctx):
    from .c18 import r18_1, r18_3

    r18_1(ctx)
    r18_3(ctx)


def maximal_munch_checks(ctx):
    """C lexes the longest token; the Earley parser tries every tokenisation.  `a++ - 1` must not ALSO read as a + (+(-1)): the
    one-character terminals + and - never match one half of ++ / -- (the same discipline as & next to &&, R17.2)"""
    gm = get_grammar(ctx.env)
    match = {}
    for name in ("ADD_OP", "SUB_OP", "UNARY_OP"):
        t = gm.terminals.get(name)
        ctx.need(t is not None, f"terminal {name} missing")
        match[name] = re.compile(re.escape(t["value"]) if t["kind"] == "str" else t["value"])
    probes = ["a++ - 300", "a-- + 5", "a+++b", "a---b", "i++;", "x = y-- - z;", "a - -b", "a+ +b", "a+-b", "a - b", "-a + b", "a+b", "a++ + b", "a-- -b", "++a", "--a"]
    for name, rx_ in sorted(match.items()):
        bad = []
        singles = 0
        for text in probes:
            for pos, ch in enumerate(text):
                if ch not in "+-":
                    continue
                # C's longest-token rule on a run of equal signs: pairs from the left are ++ / --, an odd one out at the end is a sign
                start = pos
                while start > 0 and text[start - 1] == ch:
                    start -= 1
                end = pos
                while end + 1 < len(text) and text[end + 1] == ch:
                    end += 1
                run = end - start + 1
                doubled = not (run % 2 == 1 and pos == end)
                m = rx_.match(text, pos)
                hit = bool(m) and m.group(0) == ch
                wants = (ch == "+" and name in ("ADD_OP", "UNARY_OP")) or (ch == "-" and name in ("SUB_OP", "UNARY_OP"))
                if doubled and hit:
                    bad.append(f"{text!r}: matches one half of {text[max(0, pos - 1):pos + 2]!r} at {pos}")
                if not doubled and wants:
                    singles += 1
                    if not hit:
                        bad.append(f"{text!r}: the lone {ch!r} at {pos} is not matched")
        ctx.check(f"{name} never matches inside ++ / --", not bad and singles >= 5, "one half of ++ / -- is no operator of its own; lone signs are",
                  "; ".join(bad[:3]) or f"{singles} lone signs matched", gm.where(name))


@rule("R17.12", "C17", "longest-token lexing of + and -: `a++ - 1` has one reading, (a++) - 1", min_instances=3)
def r17_12(ctx):
    maximal_munch_checks(ctx)
