"""C18 - pooled parsing equals sequential parsing and isolates failures (repo-side conditions)."""
from __future__ import annotations

import ast

from sa.pyindex import free_module_state, get_index
from sa.report import PROP_ASSUMPTIONS, PROP_EXPLANATION, rule
from sa.symex import U, call_name, call_tail, paths_of

from .common import fn_where

PROP_EXPLANATION["C18"] = (
    "Schedule independence and failure isolation are reduced to structural conditions on Parser.py: the task function is pure "
    "(depends only on its argument), there is one task per (name, behaviours) item, results are merged under the name the task "
    "itself returns (or consumed in submission order), inside the pool's lifetime; the task wraps the whole per-part loop in a "
    "catch-all handler that returns a fresh record with no trees and the error's class name."
)
PROP_ASSUMPTIONS["C18"] = ["multiprocessing.Pool.imap/map deliver each task's own return value, in submission order", "Lark objects built from the same grammar text and options parse identically in every process"]


@rule("R18.1", "C18", "task purity: parse_single depends only on its argument (no module/class-level state, own parser built from the bundle)", min_instances=4)
def r18_1(ctx):
    idx = get_index(ctx.env)
    fi = idx.func("parse_single")
    state = free_module_state(idx, fi)
    ctx.check("parse_single uses no module-level mutable state", not state, "pure function of the bundle", str(state) or "pure", fn_where(idx, fi))
    params = [a.arg for a in fi.node.args.args]
    ctx.check("parse_single takes exactly the bundle", len(params) == 1, "one parameter", str(params), fn_where(idx, fi))
    b = params[0] if params else "bundle"
    # every free name is the parameter, a local, a builtin, or an imported class/function
    local = set(params)
    for n in ast.walk(fi.node):
        if isinstance(n, ast.Name) and isinstance(n.ctx, ast.Store):
            local.add(n.id)
        if isinstance(n, ast.ExceptHandler) and n.name:
            local.add(n.name)
    ann = set()
    for a in fi.node.args.args:
        if a.annotation is not None:
            ann |= {id(x) for x in ast.walk(a.annotation)}
    if fi.node.returns is not None:
        ann |= {id(x) for x in ast.walk(fi.node.returns)}
    for n in ast.walk(fi.node):
        if isinstance(n, ast.AnnAssign):
            ann |= {id(x) for x in ast.walk(n.annotation)}
    free = sorted({n.id for n in ast.walk(fi.node) if isinstance(n, ast.Name) and isinstance(n.ctx, ast.Load) and n.id not in local and id(n) not in ann})
    allowed = {"Lark", "ParsedInsn", "ParserException", "list", "dict", "Exception", "str", "type", "len", "range", "enumerate"}
    ctx.check("parse_single free names", set(free) <= allowed, f"subset of {sorted(allowed)}", str(free), fn_where(idx, fi))
    larks = [n for n in ast.walk(fi.node) if isinstance(n, ast.Call) and call_name(n) == "Lark"]
    ok = len(larks) == 1 and larks[0].args and U(larks[0].args[0]) in ("grammar", f"{b}.grammar")
    ctx.check("parse_single builds its parser from the bundle's grammar text", ok, "Lark(bundle.grammar, ...)", U(larks[0]) if larks else "no Lark()", fn_where(idx, fi))
    # no attribute stores on anything but locals created here
    stores = [U(n) for n in ast.walk(fi.node) if isinstance(n, ast.Attribute) and isinstance(n.ctx, ast.Store)]
    ctx.check("parse_single stores to no object attributes", not stores, "no attribute stores", str(stores), fn_where(idx, fi))


def resolve_local(p, e):
    return e


@rule("R18.3", "C18", "failure isolation: catch-all around the whole per-part loop; failed entry = fresh record with no trees + error name; success = one tree per part, in order", min_instances=6)
def r18_3(ctx):
    idx = get_index(ctx.env)
    failure_record_is_total(ctx)
    fi = idx.func("parse_single")
    ps = paths_of(fi.node)
    rets = [p for p in ps if p.outcome == "return"]
    raises = [p for p in ps if p.outcome == "raise"]
    ctx.need(rets, "parse_single has no returning path")
    b = fi.node.args.args[0].arg

    def norm(e):
        return U(e).replace(f"{b}.name", "NAME").replace(f"{b}.behavior", "BEH")

    exc_paths = [p for p in rets if any(U(g).startswith("@exception") for g, _ in p.guards)]
    ok_paths = [p for p in rets if p not in exc_paths]
    ctx.check("parse_single has a handler path", bool(exc_paths), "an except path that returns a record", f"{len(exc_paths)} handler paths", fn_where(idx, fi))
    tries = [n for n in ast.walk(fi.node) if isinstance(n, ast.Try)]
    ctx.need(len(tries) == 1, f"expected one try statement in parse_single, found {len(tries)}")
    t = tries[0]
    htypes = [U(h.type) if h.type is not None else "BaseException" for h in t.handlers]
    ctx.check("handler catches every exception", any(x in ("Exception", "BaseException") for x in htypes), "except Exception", str(htypes), fn_where(idx, fi))
    # all parser.parse calls are inside the try body
    parse_calls = [n for n in ast.walk(fi.node) if isinstance(n, ast.Call) and call_tail(n) == "parse"]
    inside = [n for s in t.body for n in ast.walk(s) if isinstance(n, ast.Call) and call_tail(n) == "parse"]
    ctx.check("every parser.parse call is inside the try body", parse_calls and len(parse_calls) == len(inside), "all inside try", f"{len(inside)}/{len(parse_calls)}", fn_where(idx, fi))
    unhandled = [p for p in raises if not any(U(g).startswith("@exception") for g, _ in p.guards)]
    ctx.check("no path raises out of parse_single", not raises, "exceptions are converted to records", f"{len(raises)} raising paths", fn_where(idx, fi))
    for p in exc_paths:
        v = p.value
        txt = norm(v)
        # {NAME: ParsedInsn(NAME, [], BEH, ParserException(e))}
        ok = isinstance(v, ast.Dict) and len(v.keys) == 1 and norm(v.keys[0]) == "NAME" and isinstance(v.values[0], ast.Call) and call_name(v.values[0]) == "ParsedInsn"
        rec = v.values[0] if ok else None
        args = [norm(a) for a in rec.args] if rec is not None else []
        kws = {k.arg: norm(k.value) for k in rec.keywords} if rec is not None else {}
        asts = args[1] if len(args) > 1 else kws.get("asts")
        exc = args[3] if len(args) > 3 else kws.get("exception")
        ctx.check("failed entry: keyed by the bundle's name", ok and args[:1] == ["NAME"], "{bundle.name: ParsedInsn(bundle.name, ...)}", txt[:120], fn_where(idx, fi))
        ctx.check("failed entry: no trees (fresh empty list)", asts in ("[]", "list()"), "asts = []", str(asts), fn_where(idx, fi))
        ctx.check("failed entry: carries the behaviours and the error's class name", (args[2:3] == ["BEH"] or kws.get("behaviors") == "BEH") and exc is not None and exc.startswith("ParserException("),
                  "ParsedInsn(name, [], behaviors, ParserException(e))", txt[:140], fn_where(idx, fi))
    def _cls_name(t):
        t = t or ""
        if t.startswith("str(") and t.endswith(")"):
            t = t[4:-1]
        return t.replace("exception.__class__", "type(exception)")
    pe = idx.func("ParserException.__init__")
    stores = {U(n.targets[0]): U(n.value) for n in ast.walk(pe.node) if isinstance(n, ast.Assign)}
    ctx.check("ParserException records the exception's class name", _cls_name(stores.get("self.name")) == "type(exception).__name__", "self.name = str(type(exception).__name__)", str(stores), fn_where(idx, pe))
    for p in ok_paths:
        v = p.value
        ok = isinstance(v, ast.Dict) and len(v.keys) == 1 and norm(v.keys[0]) == "NAME" and isinstance(v.values[0], ast.Call) and call_name(v.values[0]) == "ParsedInsn"
        rec = v.values[0] if ok else None
        args = [norm(a) for a in rec.args] if rec is not None else []
        ctx.check("successful entry: keyed by the bundle's name, no error", ok and args[:1] == ["NAME"] and len(args) == 3 and not rec.keywords and args[2] == "BEH", "{name: ParsedInsn(name, asts, behaviors)}", norm(v)[:140], fn_where(idx, fi))
        # asts is built by one append per behaviour, in order
        loops = [e for e in p.events if e.kind == "loop"]
        good = False
        for lp in loops:
            hdr = lp.node
            if hdr[0] == "for" and norm(hdr[2]) == "BEH":
                bodies = lp.extra
                if len(bodies) == 1:
                    calls = [U(e.node) for e in bodies[0].events if e.kind == "call"]
                    tgt = U(hdr[1])
                    evs = [e.node for e in bodies[0].events if e.kind == "call"]
                    good = (len(calls) == 2 and calls[0].endswith(f".parse({tgt}@iter)") and call_tail(evs[1]) == "append" and len(evs[1].args) == 1 and evs[1].args[0] is evs[0]
                            and isinstance(evs[1].func.value, ast.Name) and evs[1].func.value.id.split("@")[0] == args[1])
        # ... or by an order-preserving comprehension / map over the parts
        a1 = rec.args[1] if rec is not None and len(rec.args) > 1 else None
        if isinstance(a1, ast.ListComp) and len(a1.generators) == 1 and not a1.generators[0].ifs and not a1.generators[0].is_async and norm(a1.generators[0].iter) == "BEH" \
                and isinstance(a1.elt, ast.Call) and call_tail(a1.elt) == "parse" and len(a1.elt.args) == 1 and U(a1.elt.args[0]) == U(a1.generators[0].target):
            good = True
        if isinstance(a1, ast.Call) and call_name(a1) == "list" and len(a1.args) == 1 and isinstance(a1.args[0], ast.Call) and call_name(a1.args[0]) == "map" \
                and len(a1.args[0].args) == 2 and U(a1.args[0].args[0]).endswith(".parse") and norm(a1.args[0].args[1]) == "BEH":
            good = True
        ctx.check("successful entry: one tree per behaviour part, appended in order", good, "for b in behaviors: asts.append(parser.parse(b))", "loop shape not recognised" if not good else "ok", fn_where(idx, fi))
    pi = idx.func("ParsedInsn.__init__")
    stores = {U(n.targets[0] if isinstance(n, ast.Assign) else n.target): U(n.value) for n in ast.walk(pi.node) if isinstance(n, (ast.Assign, ast.AnnAssign))}
    ctx.check("ParsedInsn stores its arguments unchanged", stores.get("self.asts") == "asts" and stores.get("self.behaviors") == "behaviors" and stores.get("self.exception") == "exception" and stores.get("self.name") == "name",
              "self.x = x for name, asts, behaviors, exception", str(stores), fn_where(idx, pi))


@rule("R18.2", "C18", "keyed, ordered aggregation: one task per item; results merged under the task's own name inside the pool's lifetime", min_instances=6)
def r18_2(ctx):
    idx = get_index(ctx.env)
    fi = idx.func("Parser.parse")
    fn = fi.node
    param = [a.arg for a in fn.args.args if a.arg != "self"][0]
    # task list: (A) list comprehension over items(), or (B) a plain loop appending one bundle per item
    comps = [n for n in ast.walk(fn) if isinstance(n, ast.ListComp) and any(isinstance(c, ast.Call) and call_name(c) == "InsnParsingBundle" for c in ast.walk(n.elt))]
    lc = comps[0] if len(comps) == 1 else None
    task_list_name = None
    if lc is not None:
        gen = lc.generators[0]
        tgt = [U(x) for x in gen.target.elts] if isinstance(gen.target, ast.Tuple) else [U(gen.target)]
        ctx.check("one task per (name, behaviours) item", len(lc.generators) == 1 and U(gen.iter) == f"{param}.items()" and not gen.ifs and len(tgt) == 2, f"for name, beh in {param}.items()", U(gen.iter) + (" with filter" if gen.ifs else ""), fn_where(idx, fi))
        call = lc.elt if isinstance(lc.elt, ast.Call) else None
        args = [U(a) for a in call.args] if call is not None else []
        ctx.check("task carries the grammar, the item's name and all its behaviours", call is not None and len(args) == 3 and args[1:] == tgt, f"InsnParsingBundle(grammar, {', '.join(tgt)})", U(lc.elt), fn_where(idx, fi))
        task_list_name = U(comps_target(fn, lc))
    else:
        loops = [n for n in ast.walk(fn) if isinstance(n, ast.For) and U(n.iter) == f"{param}.items()" and any(isinstance(c, ast.Call) and call_name(c) == "InsnParsingBundle" for c in ast.walk(n))]
        form_b = False
        if len(loops) == 1 and len(loops[0].body) == 1 and isinstance(loops[0].body[0], ast.Expr) and isinstance(loops[0].body[0].value, ast.Call):
            c = loops[0].body[0].value
            tgt = [U(x) for x in loops[0].target.elts] if isinstance(loops[0].target, ast.Tuple) else []
            if call_tail(c) == "append" and len(c.args) == 1 and isinstance(c.args[0], ast.Call) and call_name(c.args[0]) == "InsnParsingBundle" and [U(a) for a in c.args[0].args][1:] == tgt:
                form_b = True
                task_list_name = U(c.func.value)
        ctx.check("one task per (name, behaviours) item", form_b, f"one InsnParsingBundle(grammar, name, beh) per item of {param}.items(), all submitted",
                  "task list is built differently (bundles are filtered, merged or keyed by something other than the item)", fn_where(idx, fi))
    bi = idx.func("InsnParsingBundle.__init__")
    stores = {U(n.targets[0]): U(n.value) for n in ast.walk(bi.node) if isinstance(n, ast.Assign)}
    ctx.check("InsnParsingBundle stores its arguments unchanged", stores == {"self.grammar": "grammar", "self.name": "name", "self.behavior": "behavior"}, "self.x = x", str(stores), fn_where(idx, bi))
    # pool usage
    withs = [n for n in ast.walk(fn) if isinstance(n, ast.With) and any(call_name(i.context_expr) == "Pool" for i in n.items)]
    ctx.need(len(withs) == 1, "Parser.parse no longer uses one `with Pool()` block")
    w = withs[0]
    pool_var = U(w.items[0].optional_vars)
    pcalls = [n for s in w.body for n in ast.walk(s) if isinstance(n, ast.Call) and isinstance(n.func, ast.Attribute) and U(n.func.value) == pool_var]
    ctx.need(len(pcalls) == 1, f"expected one call on the pool, found {len(pcalls)}")
    pc = pcalls[0]
    method = pc.func.attr
    ctx.check("pool runs parse_single over the task list", method in ("imap", "map", "imap_unordered") and U(pc.args[0]) == "parse_single" and task_list_name is not None and U(pc.args[1]) == task_list_name, "pool.imap(parse_single, <the task list>)", U(pc)[:80], fn_where(idx, fi))
    # aggregation: result.update(res) / result[res.name] = res, lexically inside the with block, for every produced item
    res_name = None
    for n in ast.walk(fn):
        if isinstance(n, (ast.Assign, ast.AnnAssign)):
            t = n.targets[0] if isinstance(n, ast.Assign) else n.target
            if isinstance(t, ast.Name) and n.value is not None and U(n.value) in ("dict()", "{}"):
                res_name = t.id
    if res_name is None:
        # which container do the task results go into?  it has to be created by this very call
        rets0 = [n for n in ast.walk(fn) if isinstance(n, ast.Return) and isinstance(n.value, ast.Name)]
        cand = rets0[0].value.id if rets0 else None
        params = {a.arg for a in fn.args.args + fn.args.kwonlyargs}
        origin = "a parameter (a default value is shared by all calls)" if cand in params else "not created in this call"
        ctx.check("the result dictionary is created by this call", False, "result = dict() inside parse()", f"`{cand}` is {origin}: entries of earlier calls stay in it", fn_where(idx, fi))
        ctx.need(cand, "result dictionary not found in Parser.parse")
        res_name = cand
    else:
        ctx.check("the result dictionary is created by this call", True, "result = dict() inside parse()", f"`{res_name}` = dict()", fn_where(idx, fi), nontrivial=False)
    fors = [n for s in w.body for n in ast.walk(s) if isinstance(n, ast.For) and any(x is pc for x in ast.walk(n.iter))]
    ctx.check("results are consumed inside the pool's lifetime", len(fors) == 1, "for res in ...pool.imap(...) inside the with block", f"{len(fors)} consuming loops inside the with block", fn_where(idx, fi))
    if fors:
        f = fors[0]
        body_calls = [U(n) for s in f.body for n in ast.walk(s) if isinstance(n, ast.Call)]
        item = U(f.target)
        keyed = body_calls == [f"{res_name}.update({item})"]
        ctx.check("each result is merged under the name the task returned", keyed, f"{res_name}.update({item})", str(body_calls), fn_where(idx, fi))
        it = f.iter
        wrappers = []
        while isinstance(it, ast.Call) and it is not pc:
            wrappers.append(call_name(it))
            it = it.args[0] if it.args else None
        ctx.check("the result iterator is only wrapped by a progress bar", set(wrappers) <= {"tqdm"} and it is pc, "tqdm(pool.imap(...))", str(wrappers), fn_where(idx, fi))
        ctx.check("no filtering or early exit while merging", not any(isinstance(n, (ast.Break, ast.Continue, ast.If, ast.Return)) for s in f.body for n in ast.walk(s)), "unconditional merge", "conditional merge", fn_where(idx, fi))
    other_stores = [U(n) for n in ast.walk(fn) if (isinstance(n, ast.Subscript) and isinstance(n.ctx, ast.Store) and U(n.value) == res_name)]
    ctx.check("result dictionary is filled only from task results", not other_stores, "no other stores", str(other_stores), fn_where(idx, fi))
    rets = [n for n in ast.walk(fn) if isinstance(n, ast.Return)]
    ctx.check("parse returns the result dictionary", len(rets) == 1 and U(rets[0].value) == res_name, f"return {res_name}", str([U(r.value) for r in rets]), fn_where(idx, fi))


def failure_record_is_total(ctx):
    """building the failure record must not fail itself: ParserException.__init__ runs inside the worker's except handler, an
    exception there escapes the worker and aborts the whole pool run.  It may only use what every exception has."""
    idx = get_index(ctx.env)
    fi = idx.func("ParserException.__init__")
    param = fi.node.args.args[1].arg
    SAFE = {"args", "__class__", "__name__", "__traceback__", "__cause__", "__context__", "with_traceback", "add_note"}
    risky = sorted({n.attr for n in ast.walk(fi.node) if isinstance(n, ast.Attribute) and isinstance(n.value, ast.Name) and n.value.id == param and n.attr not in SAFE})
    calls = [U(n)[:50] for n in ast.walk(fi.node) if isinstance(n, ast.Call) and not (isinstance(n.func, ast.Name) and n.func.id in ("str", "type", "repr", "isinstance", "getattr", "hasattr"))
             and any(isinstance(x, ast.Name) and x.id == param for x in ast.walk(n))]
    guarded = any(isinstance(n, ast.Try) for n in ast.walk(fi.node))
    ctx.check("the failure record is built from what every exception has", (not risky and not calls) or guarded, "type name / str / args of the exception only",
              f"reads {risky} / calls {calls} of the caught exception: lark's exception classes do not share these (UnexpectedCharacters has no `expected`)", fn_where(idx, fi))


def comps_target(fn, lc):
    for n in ast.walk(fn):
        if isinstance(n, ast.Assign) and n.value is lc:
            return n.targets[0]
    return lc


def parse_result_is_private(ctx):
    """Parser.parse files its results in a dictionary it creates itself (a parameter default or an attribute would keep the
    entries of earlier calls)"""
    idx = get_index(ctx.env)
    fi = idx.func("Parser.parse")
    fn = fi.node
    rets = [n for n in ast.walk(fn) if isinstance(n, ast.Return) and isinstance(n.value, ast.Name)]
    ctx.need(rets, "Parser.parse: returned name not found")
    name = rets[0].value.id
    fresh = any(isinstance(n, (ast.Assign, ast.AnnAssign)) and isinstance(n.targets[0] if isinstance(n, ast.Assign) else n.target, ast.Name)
                and (n.targets[0] if isinstance(n, ast.Assign) else n.target).id == name and n.value is not None and U(n.value) in ("dict()", "{}") for n in ast.walk(fn))
    params = {a.arg for a in fn.args.args + fn.args.kwonlyargs}
    ctx.check("Parser.parse returns a dictionary created by this call", fresh and name not in params, f"{name} = dict() inside parse()", f"fresh={fresh}, parameter={name in params}", fn_where(idx, fi))


@rule("R18.4", "C18", "the pool's workers parse like the sequential parser: same grammar text, same Lark options (an option such as ordered_sets=False makes ambiguity resolution depend on the process's hash seed)", min_instances=2)
def r18_4(ctx):
    from .c17 import r17_6

    r17_6(ctx)
