"""C11 - emitted text is a well-formed C body with sound companion metadata."""
from __future__ import annotations

import ast
import re

from sa.absint import AObj, EnumV, FlagV, Interp, Opaque, Sym, Tok, to_text
from sa.cbmodel import Runner
from sa.pyindex import get_index
from sa.report import PROP_ASSUMPTIONS, PROP_EXPLANATION, rule
from sa.symex import U, call_name, call_tail, paths_of
from sa.template import balanced, canon, normalise, variants

from .c02 import ctor, lab, members_by_value
from .common import fn_where, interval_compare, mk_pure, mk_vt, outcome_text

PROP_EXPLANATION["C11"] = (
    "Well-formedness is shown by induction over the emission templates (every template is parenthesis-balanced given balanced "
    "holes; every initialiser has the shape `<T> *<name> = <term>;`), the name generator (unique suffix from a post-incremented "
    "counter for everything that is not de-duplicated by name; every created operator node is registered), the block order of "
    "fbody, the dependency order inside statement blocks, the metadata regexes, getter naming and a collision lint over the "
    "bundled instruction names. Declared-before-use for every program needs the dynamic operand graph and is not decided."
)
NODE_BASES = ("Pure", "Effect")
EMIT_METHODS = ("il_exec", "il_write", "il_read", "il_init_var", "il_isa_to_assoc_name", "il_reg_alias_to_op", "il_explicit_reg_to_op", "il_n_reg_to_op", "get_reg_read_code", "get_rzil_val", "il_op", "il_init")


@rule("R11.1", "C11", "template induction: every emission template is parenthesis-balanced; initialisers are `<T> *<name> = <term>;`", min_instances=40)
def r11_1(ctx):
    idx = get_index(ctx.env)
    classes = set()
    for b in NODE_BASES:
        classes |= set(idx.subclasses(b))
    classes |= {"ValueType"}
    n = 0
    for cname in sorted(classes):
        ci = idx.classes[cname]
        for m in EMIT_METHODS:
            if m not in ci.methods:
                continue
            fi = idx.funcs[f"{cname}.{m}"]
            for p in paths_of(fi.node):
                if p.outcome != "return" or p.value is None:
                    continue
                if isinstance(p.value, ast.Constant) and not isinstance(p.value.value, str):
                    continue
                for guards, v in variants(p.value, idx):
                    try:
                        text = canon(v, None, idx)
                    except Exception as e:
                        ctx.need(False, f"{cname}.{m}: template not understood: {e}")
                    from sa.template import to_parts, Hole
                    opaque_holes = [h for h in to_parts(v, idx) if isinstance(h, Hole) and not isinstance(h.expr, (ast.Call, ast.Attribute, ast.FormattedValue))]
                    if opaque_holes:
                        ctx.note(f"{cname}.{m}: template contains a string-valued hole ({U(opaque_holes[0].expr)[:40]}); balance decided by the table rules instead")
                        continue
                    skeleton = re.sub(r"<[^<>]*(?:<[^<>]*>[^<>]*)*>", "H", text)
                    # loop-built strings (Sequence.il_write) are holes of their own
                    ok = balanced(skeleton.replace("'", "").replace('"', ""))
                    ctx.check(f"{cname}.{m} template `{skeleton[:60]}`", ok, "balanced parentheses", "unbalanced" if not ok else "balanced", fn_where(idx, fi), nontrivial="(" in skeleton)
                    n += 1
    ctx.need(n >= 30, f"only {n} templates extracted")
    # initialiser shapes
    for cls, fields, exp in (
        ("PureExec", {"inlined": False, "init_counter": 0, "lets": [], "name": "op_ADD_3", "isa_name": None}, "RzILOpPure *op_ADD_3 = <self.il_exec()>;"),
        ("Effect", {"name": "op_ASSIGN_4"}, "RzILOpEffect *op_ASSIGN_4 = <self.il_write()>;"),
        ("Number", {"inlined": False, "name": "c_1", "isa_name": None, "value": 255, "value_type": mk_vt("t", False, 32)}, "RzILOpPure *c_1 = UN(32, 0xff);"),
        ("Variable", {"name": "x", "isa_name": None, "value_type": mk_vt("t", False, 32)}, "// Declare: ut32 x;"),
    ):
        fi = idx.func(f"{cls}.il_init_var")
        def hook(interp, callee, args, kwargs, text):
            from sa.absint import BoundMethod
            if isinstance(callee, BoundMethod) and callee.finfo.name in ("il_exec", "il_write") and callee.obj is not None and callee.obj.label == "self":
                return Opaque(f"self.{callee.finfo.name}()")
            return NotImplemented
        outs = Interp(idx, call_hook=hook).explore(lambda i, cls=cls, fields=fields: i.call_function(fi, [], self_obj=AObj(cls, dict(fields), label="self")))
        obs = {normalise(outcome_text(o)) for o in outs}
        ctx.check(f"{cls}.il_init_var shape", obs == {exp}, exp, str(sorted(obs)), fn_where(idx, fi))
    for cls in ("PureExec", "LetVar", "MacroInvocation"):
        fi = idx.func(f"{cls}.il_init_var")
        outs = Interp(idx).explore(lambda i, cls=cls: i.call_function(fi, [], self_obj=AObj(cls, {"inlined": True, "init_counter": 0}, label="self")))
        ctx.check(f"{cls}.il_init_var[inlined] emits nothing", {outcome_text(o) for o in outs} == {""}, "''", str([outcome_text(o) for o in outs]), fn_where(idx, fi), nontrivial=False)


def sorted_by_num_id(call) -> bool:
    """sorted(<x>.get_exec_op_list(), key=lambda v: v.num_id) - numeric creation id, ascending"""
    if not (len(call.args) == 1 and isinstance(call.args[0], ast.Call) and call_tail(call.args[0]) == "get_exec_op_list"):
        return False
    kws = {k.arg: k.value for k in call.keywords}
    if set(kws) - {"key", "reverse"}:
        return False
    if "reverse" in kws and not (isinstance(kws["reverse"], ast.Constant) and kws["reverse"].value is False):
        return False
    k = kws.get("key")
    if not (isinstance(k, ast.Lambda) and len(k.args.args) == 1):
        return False
    b = k.body
    return isinstance(b, ast.Attribute) and b.attr == "num_id" and isinstance(b.value, ast.Name) and b.value.id == k.args.args[0].arg


def final_return_checks(ctx):
    """both layouts end with the initialiser of the instruction sequence followed by `return <instruction sequence>;`"""
    idx = get_index(ctx.env)
    fe = idx.func("RZILTransformer.emit_final_seq_return")
    et = idx.enum_table("CodeFormat")
    for fmt in et:
        r = Runner(idx)
        fi, outs = r.run("emit_final_seq_return", lambda: [[r.pure("s0", cls="Effect")], "PREFIX"], self_over=lambda fmt=fmt: {"code_format": EnumV("CodeFormat", fmt, None), "imm_set_effect_list": []}, args_list=True, max_runs=32)
        for o in outs:
            t = to_text(o.value) if o.kind == "return" else outcome_text(o)
            body = t[len("PREFIX"):].strip() if t.startswith("PREFIX") else t
            m = re.fullmatch(r"<(Sequence\(.*\))\.il_init_var\(\)>\s*return <(Sequence\(.*\))\.effect_var\(\)>;", body, re.S)
            ctx.check(f"final lines [{fmt}]", bool(m) and m.group(1) == m.group(2), "<instruction_sequence initialiser> return <instruction_sequence>;", body[:120], fn_where(idx, fe))


def compound_nodes_registered(ctx):
    """every operator node a compound assignment creates is registered through add_op (gets its unique name / a declaration)"""
    idx = get_index(ctx.env)
    am = members_by_value(idx, "AssignmentType")
    for op in am:
        if op == "=":
            continue
        r = Runner(idx)
        fi, outs = r.run("assignment_expr", lambda: [r.pure("items[0]", vt=mk_vt("t0", True, 32)), Tok("ASSIGN_OP", op), r.pure("items[2]", vt=mk_vt("t2", False, 32))])
        good = [o for o in outs if o.kind != "raise"]
        ctx.need(good, f"assignment_expr[{op}] has no translating path")
        for o in good:
            nodes = [e[2] for e in o.events if e[0] == "node" and e[1] in ("ArithmeticOp", "BitOp")]
            added = [e[1] for e in o.events if e[0] == "add_op"]
            ok = bool(nodes) and all(any(a is n for a in added) for n in nodes)
            ctx.check(f"assignment_expr[{op}]: operator node registered through add_op", ok, "add_op(<operator node>)", f"nodes={[n.cls for n in nodes]} registered={[getattr(a, 'cls', '?') for a in added]}", fn_where(idx, fi))


def callbacks_hand_back_registered_effects(ctx):
    """an effect that a transformer method hands back is declared only if it went through add_op (the holder is what both layouts print
    from): no method returns a freshly constructed effect node as it is.  Empty is the exception - it declares nothing and prints as
    EMPTY() wherever it is referenced."""
    idx = get_index(ctx.env)
    effects = set(idx.subclasses("Effect", strict=True)) - {"Empty"}
    bad = []
    n = 0
    for q, fi in sorted(idx.funcs.items()):
        if fi.cls != "RZILTransformer":
            continue
        try:
            ps = paths_of(fi.node)
        except Exception:
            continue
        for p in ps:
            if p.outcome != "return" or p.value is None:
                continue
            n += 1
            v = p.value
            if isinstance(v, ast.Call) and isinstance(v.func, ast.Name) and v.func.id in effects:
                bad.append(f"{q}: returns {U(v)[:50]} [{p.guard_text()[:60]}]")
    ctx.check("no transformer method hands back an unregistered effect node", n >= 150 and not bad, "effects are returned as add_op(...) / chk_hybrid_dep(add_op(...)); only Empty may stay unregistered",
              "; ".join(sorted(set(bad))[:3]) or f"{n} returning paths inspected", "rzilcompiler/Transformer/RZILTransformer.py")


def registration_goes_through_add_op(ctx):
    """the unique suffix of a node's name is given by RZILTransformer.add_op: nobody else puts a node into the holder (a node registered
    through the holder's own add_* keeps its base name, and two of them are declared under one C identifier)"""
    idx = get_index(ctx.env)
    holder_adders = {m for m in ("add_op", "add_pure", "add_effect", "add_hybrid") if idx.resolve_method("ILOpsHolder", m)}
    ctx.need(holder_adders, "ILOpsHolder has no add_* methods")
    callers = []
    for q, fi in sorted(idx.funcs.items()):
        if ".Tests" in fi.module or fi.cls == "ILOpsHolder":
            continue
        for c in ast.walk(fi.node):
            if isinstance(c, ast.Call) and isinstance(c.func, ast.Attribute) and c.func.attr in holder_adders and ("il_ops_holder" in U(c.func.value) or U(c.func.value) in ("holder", "self.holder")):
                callers.append((q, c.lineno, U(c)[:50]))
    outside = [f"{q}:{ln} {t}" for q, ln, t in callers if q != "RZILTransformer.add_op"]
    ctx.check("nodes enter the holder through RZILTransformer.add_op only", bool(callers) and not outside, "il_ops_holder.add_*(...) is called by add_op alone", "; ".join(outside[:3]) or "add_op alone", "rzilcompiler/Transformer/RZILTransformer.py")


def add_op_registers_what_it_returns(ctx):
    """whatever add_op hands back is in the holder when it returns: either it was found there by name on this path, or this path put it
    there - an operand handed back unregistered (because it carries an id from an earlier registration that a folder has undone since)
    is used without a declaration"""
    idx = get_index(ctx.env)
    fi = idx.func("RZILTransformer.add_op")
    bad = []
    n = 0
    for p in paths_of(fi.node):
        if p.outcome != "return":
            continue
        n += 1
        registered = any(e.kind == "call" and isinstance(e.node, ast.Call) and call_tail(e.node) == "add_op" and "il_ops_holder" in U(e.node.func) for e in p.events)
        found = any(pol and isinstance(g, ast.Call) and call_tail(g) == "has_op" for g, pol in p.guards)
        if not (registered or found):
            bad.append(f"[{p.guard_text()[:90]}] returns {U(p.value)[:30]}")
    # ... and it is the operand it was given, or the holder's entry under that operand's own name (variables, registers and temporaries are
    # one node per name): add_op never substitutes another node for an operation - whoever removes or re-types "its" node later would
    # hit the other users of the shared one
    par = fi.node.args.args[1].arg
    other = []
    for p in paths_of(fi.node):
        if p.outcome != "return" or p.value is None:
            continue
        t = U(p.value)
        by_name = (f"({par}.get_name())" in t or f"[{par}.get_name()]" in t) and "il_ops_holder" in t
        if t != par and not by_name:
            other.append(f"returns {t[:60]} [{p.guard_text()[-80:]}]")
    ctx.check("add_op hands back the operand it was given, or the entry registered under its name", not other, f"return {par} / return <holder entry named {par}.get_name()>",
              "; ".join(sorted(set(other))[:2]) or "ok", fn_where(idx, fi))
    ctx.check("add_op returns only operands that are in the holder", n >= 2 and not bad, "every returning path found the operand in the holder or registers it",
              "; ".join(bad[:2]) or f"{n} returning paths ok", fn_where(idx, fi))


@rule("R11.2", "C11", "unique names: add_op suffixes a post-incremented id to everything not de-duplicated by name; every created node is registered", min_instances=12)
def r11_2(ctx):
    add_op_registers_what_it_returns(ctx)
    callbacks_hand_back_registered_effects(ctx)
    registration_goes_through_add_op(ctx)
    from .c12 import nodes_are_never_copied

    nodes_are_never_copied(ctx)  # a copied operation is a second node with the same unique name: it is declared twice
    idx = get_index(ctx.env)
    fg = idx.func("ILOpsHolder.get_op_count")
    box = {}
    def once(i):
        h = AObj("ILOpsHolder", {"op_count": 7}, label="holder")
        box["h"] = h
        return [i.call_function(fg, [], self_obj=h), i.call_function(fg, [], self_obj=h)]
    outs = Interp(idx).explore(once)
    ctx.check("get_op_count hands out each id once", [o.value for o in outs] == [[7, 8]] and box["h"].fields["op_count"] == 9, "[7, 8], counter 9", f"{[o.value for o in outs]}, counter {box['h'].fields['op_count']}", fn_where(idx, fg))
    writers = sorted({(fi.qual, U(n)) for fi in idx.funcs.values() for n in ast.walk(fi.node) if isinstance(n, (ast.Assign, ast.AugAssign))
                      for t in (n.targets if isinstance(n, ast.Assign) else [n.target]) if isinstance(t, ast.Attribute) and t.attr == "op_count"})
    exp = [("ILOpsHolder.__init__", "self.op_count = 0"), ("ILOpsHolder.clear", "self.op_count = 0"), ("ILOpsHolder.get_op_count", "self.op_count += 1")]
    ctx.check("writers of op_count", set(writers) <= set(exp) and exp[0] in writers and exp[2] in writers, "initialised to 0, post-incremented by get_op_count, optionally reset by clear() - nothing else",
              str(writers), "rzilcompiler/Transformer/ILOpsHolder.py")
    # add_op naming table
    fa = idx.func("RZILTransformer.add_op")
    cases = [("Number", {}, "const_1_5"), ("ArithmeticOp", {}, "op_ADD_5"), ("Cast", {}, "x_5"), ("Assignment", {}, "x_5"), ("Sequence", {}, "x_5"),
             ("Variable", {}, "x"), ("Register", {}, "x"), ("ReturnValue", {}, "x"), ("LocalVar", {"hyb": True}, "x"), ("LocalVar", {}, "x_5"), ("Immediate", {}, "x_5")]
    for cls, opt, exp in cases:
        r = Runner(idx, keep_real=("add_op",))
        box = {}
        def args(cls=cls, opt=opt, exp=exp):
            base = exp.rsplit("_5", 1)[0] if exp.endswith("_5") else exp
            groups = ("PURE", "HYBRID_LVAR") if opt.get("hyb") else ("PURE",)
            pt = idx.enum_table("PureType")
            kind = {"Number": "LET", "ArithmeticOp": "EXEC", "Cast": "EXEC", "Register": "GLOBAL"}.get(cls, "LOCAL")
            op = AObj(cls, {"name": base, "isa_name": None, "value_type": mk_vt("t", True, 32, groups), "num_id": -1, "inlined": False, "type": EnumV("PureType", kind, pt[kind])}, label="op")
            box["op"] = op
            return [op]
        def over():
            h = AObj("ILOpsHolder", {"op_count": 5, "read_ops": {}, "exec_ops": {}, "write_ops": {}, "hybrid_effect_dict": {}}, label="holder", opaque=False)
            return {"il_ops_holder": h, "inlined_pure_classes": ()}
        def hook_add(interp, callee, a, k, t):
            return NotImplemented
        # ILOpsHolder.add_op / has_op are interpreted for real (holder is not opaque)
        try:
            fi, outs = r.run("add_op", args, self_over=over, args_list=True)
        except Exception as e:
            ctx.need(False, f"add_op[{cls}]: {e}")
        names = {(box["op"].fields.get("name"), box["op"].fields.get("num_id")) if o.kind != "raise" else ("RAISE", None) for o in outs}
        ctx.check(f"add_op naming [{cls}{' (hybrid temporary)' if opt.get('hyb') else ''}]", names == {(exp, 5)}, f"name {exp}, num_id 5", str(sorted(map(str, names))), fn_where(idx, fa))
    # de-duplication by name and parameter shadowing
    r = Runner(idx, keep_real=("add_op",))
    def over2():
        existing = AObj("Register", {"name": "Rs", "isa_name": "Rs"}, label="existing")
        h = AObj("ILOpsHolder", {"op_count": 5, "read_ops": {"Rs": existing}, "exec_ops": {}, "write_ops": {}}, label="holder", opaque=False)
        return {"il_ops_holder": h, "inlined_pure_classes": (), "parameters": {"bundle": Opaque("param")}}
    fi, outs = r.run("add_op", lambda: [AObj("Register", {"name": "Rs", "isa_name": "Rs"}, label="dup")], self_over=over2, args_list=True)
    ctx.check("add_op returns the existing operand of the same name", [lab(o.value) for o in outs] == ["existing"], "existing", str([lab(o.value) for o in outs]), fn_where(idx, fa))
    fi, outs = r.run("add_op", lambda: [AObj("Variable", {"name": "bundle", "isa_name": None}, label="v")], self_over=over2, args_list=True)
    ctx.check("add_op rejects an operand that shadows a parameter", all(o.kind == "raise" for o in outs), "raises", str([outcome_text(o)[:30] for o in outs]), fn_where(idx, fa))
    name_collision_checks(ctx)
    compound_nodes_registered(ctx)


def name_collision_checks(ctx):
    """A user variable may be spelled like the base name of an internal node (seq, branch, op_ADD ...): the node that is
    being added must never be replaced by that variable (its statements would vanish), and it must still be registered."""
    idx = get_index(ctx.env)
    fa = idx.func("RZILTransformer.add_op")
    pt = idx.enum_table("PureType")
    for cls, kind, dict_name in (("Sequence", None, "write_ops"), ("Branch", None, "write_ops"), ("Assignment", None, "write_ops"), ("ArithmeticOp", "EXEC", "exec_ops"), ("Cast", "EXEC", "exec_ops"), ("Number", "LET", "read_ops")):
        r = Runner(idx, keep_real=("add_op",))
        box = {}

        def over3():
            var = AObj("Variable", {"name": "x", "isa_name": None}, label="user variable x")
            h = AObj("ILOpsHolder", {"op_count": 5, "read_ops": {"x": var}, "exec_ops": {}, "write_ops": {}, "hybrid_effect_dict": {}}, label="holder", opaque=False)
            box["h"] = h
            return {"il_ops_holder": h, "inlined_pure_classes": ()}

        def args3(cls=cls, kind=kind):
            f = {"name": "x", "isa_name": None, "value_type": mk_vt("t", True, 32), "num_id": -1, "inlined": False}
            if kind:
                f["type"] = EnumV("PureType", kind, pt[kind])
            op = AObj(cls, f, label="new node")
            box["op"] = op
            return [op]

        try:
            fi, outs = r.run("add_op", args3, self_over=over3, args_list=True)
        except Exception as e:
            ctx.need(False, f"add_op[{cls} named like a variable]: {e}")
        got = sorted({lab(o.value) if o.kind != "raise" else "RAISE" for o in outs})
        registered = any(v is box["op"] for v in box["h"].fields[dict_name].values()) if isinstance(box["h"].fields.get(dict_name), dict) else False
        ctx.check(f"add_op[{cls} whose base name equals a variable's name]", got == ["new node"] and registered, "the new node, registered under its own (suffixed) name",
                  f"returns {got}, registered={registered}", fn_where(idx, fa))
    # adding the very same node twice is idempotent (expr_stmt does that)
    r = Runner(idx, keep_real=("add_op",))
    box = {}

    def over4():
        h = AObj("ILOpsHolder", {"op_count": 5, "read_ops": {}, "exec_ops": {}, "write_ops": {}, "hybrid_effect_dict": {}}, label="holder", opaque=False)
        box["h"] = h
        return {"il_ops_holder": h, "inlined_pure_classes": ()}

    def twice(interp=None):
        op = AObj("Empty", {"name": "empty", "isa_name": None, "num_id": -1}, label="node")
        box["op"] = op
        return [op]

    fi, outs = r.run("add_op", twice, self_over=over4, args_list=True)
    first = dict(box["h"].fields["write_ops"])
    # second call on the same holder with the same object
    def again():
        return [box["op"]]
    def over5():
        return {"il_ops_holder": box["h"], "inlined_pure_classes": ()}
    fi, outs2 = r.run("add_op", again, self_over=over5, args_list=True)
    ctx.check("adding the same node twice registers it once", len(box["h"].fields["write_ops"]) == 1 and all(o.value is box["op"] for o in outs2 if o.kind != "raise"), "one entry, same node returned",
              f"{len(box['h'].fields['write_ops'])} entries", fn_where(idx, fa), nontrivial=False)


@rule("R11.3", "C11", "block order: READ block, then EXEC+WRITE or statement blocks (dependencies sorted by creation id before their effect), then the instruction sequence, then return", min_instances=5)
def r11_3(ctx):
    from .c16 import r16_3

    r16_3(ctx)  # the operand list the statement layout declares from stays in step with src / dest (set_src / set_dest), whatever the new operand wraps
    idx = get_index(ctx.env)
    fb = idx.func("RZILTransformer.fbody")
    et = idx.enum_table("CodeFormat")
    for fmt in et:
        r = Runner(idx, keep_real=("fbody",))
        order = []
        for m in ("emit_read_block", "emit_exec_block", "emit_write_block", "emit_stmt_blocks", "emit_final_seq_return"):
            def mk(m):
                def s(interp, args, kwargs):
                    order.append(m)
                    return args[-1] if m != "emit_final_seq_return" else Opaque("final")
                return s
            setattr(r, "s_" + m, mk(m))
        r.summarised = r.summarised | {"emit_read_block", "emit_exec_block", "emit_write_block", "emit_stmt_blocks", "emit_final_seq_return"}
        order.clear()
        fi, outs = r.run("fbody", lambda: [r.pure("s", cls="Effect")], self_over=lambda fmt=fmt: {"code_format": EnumV("CodeFormat", fmt, None), "il_ops_holder": AObj("ILOpsHolder", {}, label="holder", opaque=True)})
        r.stubs[("holder", "is_empty")] = False
        seqs = set()
        for o in outs:
            pass
        exp = ["emit_read_block", "emit_exec_block", "emit_write_block", "emit_final_seq_return"] if fmt == "EXEC_CLASSES" else ["emit_read_block", "emit_stmt_blocks", "emit_final_seq_return"]
        # `order` accumulates over the explored paths (is_empty fork): take the run that emitted something
        runs = []
        cur = []
        for m in order:
            if m == "emit_read_block" and cur:
                runs.append(cur)
                cur = []
            cur.append(m)
        if cur:
            runs.append(cur)
        ctx.check(f"fbody block order [{fmt}]", bool(runs) and all(x == exp for x in runs), str(exp), str(runs), fn_where(idx, fb))
    final_return_checks(ctx)
    fs = idx.func("RZILTransformer.emit_stmt_blocks")
    sorts = [n for n in ast.walk(fs.node) if isinstance(n, ast.Call) and call_name(n) == "sorted"]
    from .c16 import effect_operand_lists, exec_dependency_walk

    effect_operand_lists(ctx)  # ... and that list starts from every operand of the effect

    exec_dependency_walk(ctx)  # declared before first use: every operation below the effect is in the list that is declared in front of it
    ctx.check("statement blocks: dependencies ordered by creation id", len(sorts) == 1 and sorted_by_num_id(sorts[0]), "sorted(<effect>.get_exec_op_list(), key=lambda v: v.num_id)", str([U(x) for x in sorts]), fn_where(idx, fs))
    appends = [U(n) for n in ast.walk(fs.node) if isinstance(n, ast.Call) and call_tail(n) == "append"]
    ctx.check("statement blocks: the effect follows its dependencies", "statements[-1].append(effect)" in appends, "statements[-1].append(effect)", str(appends), fn_where(idx, fs))
    fset = idx.func("Pure.set_num_id")
    box = {}
    def once_set(i):
        o = AObj("Pure", {"num_id": -1}, label="p")
        box["o"] = o
        return i.call_function(fset, [7], self_obj=o)
    Interp(idx).explore(once_set)
    ctx.check("set_num_id stores the creation id", box["o"].fields.get("num_id") == 7, "num_id = 7", str(box["o"].fields.get("num_id")), fn_where(idx, fset))


def needs_flags_valuation(ctx):
    """needs_hi / needs_pkt are decided by the occurrence of the WORDS hi / pkt in the text of the part: true when the variable is
    used, and not set off by words that merely contain them (the per-statement layout prints the C source as comments: `while`,
    `this`, `shift` ...) - otherwise the two layouts report different flags for one behaviour"""
    idx = get_index(ctx.env)
    fi = idx.func("RZILInstruction.__init__")
    probes = [
        ("x = ISA2REG(hi, 's');", (True, False)), ("READ_REG(pkt, x)", (False, True)), ("this = 1;", (False, False)),
        ("// while (i < 4) { shift = this; }\nRzILOpEffect *e = EMPTY();", (False, False)),
        ("HEX_GET_INSN_RMODE(hi)", (True, False)), ("U32(pkt->pkt_addr)", (False, True)), ("a = (hi);\nb = f(pkt, hi);", (True, True)),
        ("RzILOpEffect *e = EMPTY();", (False, False)),
        ("HEX_STORE_SLOT_CANCELLED(pkt, hi->slot)", (True, True)), ("x = hi->slot;", (True, False)), ("f(&hi, *pkt);", (True, True)),
        # whole bodies as the layouts print them: an empty READ block (no operand to resolve) says nothing about what the effects use
        ("\n// READ\n\n// EXEC\n\n// WRITE\nRzILOpEffect *c_call_1 = HEX_STORE_SLOT_CANCELLED(pkt, hi->slot);\nRzILOpEffect *instruction_sequence = c_call_1;\n\nreturn instruction_sequence;", (True, True)),
        ("\n// READ\n\n// jump(get_npc(pkt));\nRzILOpEffect *jump_3 = SEQ2(SETL(\"jump_flag\", IL_TRUE), SETL(\"jump_target\", HEX_GET_NPC(pkt)));\nreturn jump_3;", (False, True)),
        ("\n// READ\n\n// EXEC\n\n// WRITE\nRzILOpEffect *instruction_sequence = EMPTY();\n\nreturn instruction_sequence;", (False, False)),
        ("\n// READ\nconst HexOp *Rd_op = ISA2REG(hi, 'd', false);\n\n// EXEC\n\n// WRITE\nRzILOpEffect *op_ASSIGN_2 = WRITE_REG(bundle, Rd_op, SN(32, 1));\nreturn op_ASSIGN_2;", (True, False)),
    ]
    for code, exp in probes:
        outs = Interp(idx).explore(lambda i, code=code: i.construct("RZILInstruction", ["X", [code], [["M"]], [""]], {}))
        got = [(bool(o.value.fields["needs_hi"][0]), bool(o.value.fields["needs_pkt"][0])) if o.kind == "return" else outcome_text(o) for o in outs]
        ctx.check(f"needs_hi/needs_pkt for `{code[:40]}`", got == [exp], str(exp), str(got), fn_where(idx, fi))


@rule("R11.4", "C11", "metadata: needs_hi / needs_pkt are true whenever the text mentions hi / pkt; sub-routine bodies declare them; one getter per part", min_instances=10)
def r11_4(ctx):
    idx = get_index(ctx.env)
    fi = idx.func("RZILInstruction.__init__")
    needs_flags_valuation(ctx)
    from .c08 import prologue_checks

    prologue_checks(ctx)
    # every literal in an emission template that mentions hi / pkt does so as a delimited token inside that literal
    classes = set()
    for b in NODE_BASES:
        classes |= set(idx.subclasses(b))
    for fi2 in idx.funcs.values():
        if fi2.cls not in classes or fi2.name not in EMIT_METHODS:
            continue
        for n in ast.walk(fi2.node):
            if isinstance(n, ast.Constant) and isinstance(n.value, str):
                for m in re.finditer(r"hi|pkt", n.value):
                    s, e = m.start(), m.end()
                    word = re.match(r"\w*", n.value[s:]).group(0)
                    left_ok = s > 0 and not (n.value[s - 1].isalnum() or n.value[s - 1] == "_")
                    if word in ("hi", "pkt", "pkt_addr") or not left_ok:
                        whole = word in ("hi", "pkt") and left_ok and e < len(n.value)
                        if word in ("hi", "pkt"):
                            ctx.check(f"{fi2.qual}: `{word}` in template literal {n.value[:30]!r}", whole, "delimited on both sides inside the literal", n.value[max(0, s - 3):e + 3], fn_where(idx, fi2), nontrivial=False)
    args = idx.const_str("hexagon_isa_to_reg_args"), idx.const_str("hexagon_isa_to_imm_args"), idx.const_str("hexagon_isa_n_reg_to_op_args")
    ctx.check("plugin argument names", args == (["hi"], ["hi"], ["bundle"]), "(['hi'], ['hi'], ['bundle'])", str(args), "rzilcompiler/Transformer/PluginInfo.py")
    from .c08 import r08_6

    # prologue rule of sub-routine bodies (shared with C08)
    sub = type("Ctx", (), {})()
    r08_6(ctx, namespacing=False)
    # getter naming
    fg = idx.func("RZILInstruction.gen_hex_il_op_getter_name")
    for name, part, decl, exp in (("A2_add", -1, False, "hex_il_op_a2_add"), ("J4_cmpeq_tp0_jump_t", 0, False, "hex_il_op_j4_cmpeq_tp0_jump_t_part0"), ("J4_cmpeq_tp0_jump_t", 1, False, "hex_il_op_j4_cmpeq_tp0_jump_t_part1"),
                                 ("A2_add", -1, True, "RzILOpEffect *hex_il_op_a2_add(HexInsnPktBundle *bundle)")):
        outs = Interp(idx).explore(lambda i: i.call_function(fg, [name, part, decl]))
        ctx.check(f"getter name [{name}, part {part}, decl {decl}]", [o.value for o in outs] == [exp], exp, str([outcome_text(o) for o in outs]), fn_where(idx, fg))
    for nparts in (1, 2):
        def once(i, nparts=nparts):
            return i.construct("RZILInstruction", ["X1_y", ["return NOP();"] * nparts, [["M"]] * nparts, [""] * nparts], {})
        outs = Interp(idx).explore(once)
        got = [o.value.fields["getter_rzil"]["name"] if o.kind == "return" else outcome_text(o) for o in outs]
        exp = [["hex_il_op_x1_y"]] if nparts == 1 else [["hex_il_op_x1_y_part0", "hex_il_op_x1_y_part1"]]
        ctx.check(f"getters of an instruction with {nparts} part(s)", got == exp, str(exp), str(got), fn_where(idx, fi))


@rule("R11.5", "C11", "resource lint: getter names are unique across the bundled instructions (after lower-casing and name normalisation)", min_instances=2000)
def r11_5(ctx):
    idx = get_index(ctx.env)
    p = ctx.env.repo / "Resources" / "Hexagon" / "Preprocessor" / "shortcode_resolved.h"
    ctx.need(p.is_file(), f"anchor missing: {p}")
    names = re.findall(r"^insn\((\w+),", p.read_text(), re.M)
    ft = idx.func("HexagonCompilerExtension.transform_insn_name")
    seen = {}
    interp = Interp(idx)
    for n in names:
        outs = interp.explore(lambda i, n=n: i.call_function(ft, [n], self_obj=AObj("HexagonCompilerExtension", {}, label="ext")))
        if len(outs) != 1 or outs[0].kind == "raise":
            g = n.lower()
        else:
            g = str(outs[0].value).lower()
        dup = seen.get(g)
        seen.setdefault(g, n)
        ctx.check(f"getter hex_il_op_{g}", dup is None, "unique", f"also produced by {dup}" if dup else "unique", "Resources/Hexagon/Preprocessor/shortcode_resolved.h", nontrivial=False)
    # the decorated spellings of an instruction normalise to EXACTLY its plain name (case preserved): both end up in one registry entry
    for deco, plain in (("dep_A2_addsat", "A2_addsat"), ("IMPORTED_A2_add", "A2_add"), ("A2_add_undocumented", "A2_add"), ("undocumented_J2_jump", "J2_jump"), ("A2_add", "A2_add"),
                        ("SA2_tfrsi", "A2_tfrsi"), ("dep_S2_storerb_io", "S2_storerb_io")):
        outs = Interp(idx).explore(lambda i, deco=deco: i.call_function(ft, [deco], self_obj=AObj("HexagonCompilerExtension", {}, label="ext")))
        got = sorted({str(o.value) if o.kind == "return" else "RAISE" for o in outs})
        ctx.check(f"normalised name of {deco}", got == [plain], plain, str(got), fn_where(idx, ft))
    # ... and within one compiler: the registry of compiled instructions is keyed by the name the record (and its getter) carries, so
    # two spellings of one instruction (SA2_x / A2_x, dep_x / x) share one entry instead of yielding two records with one getter name
    ti = idx.func("Compiler.transform_insn")
    n_st = 0
    for q in paths_of(ti.node):
        for e in q.events:
            if e.kind == "store" and isinstance(e.node, ast.Subscript) and U(e.node.value).endswith("compiled_insns") and isinstance(e.extra, ast.Call) and call_tail(e.extra) == "RZILInstruction" and e.extra.args:
                n_st += 1
                key, name = U(e.node.slice), U(e.extra.args[0])
                ctx.check("compiled instructions are filed under the name their record carries", key == name, f"compiled_insns[{name}] = RZILInstruction({name}, ...)", f"compiled_insns[{key}] = RZILInstruction({name}, ...)", fn_where(idx, ti))
    ctx.check("transform_insn files its record (store found)", n_st >= 1, ">= 1 store into compiled_insns", str(n_st), fn_where(idx, ti), nontrivial=False)


@rule("R11.6", "C11", "no stale pending effect of an earlier (failed) behaviour can enter the instruction sequence undeclared", min_instances=12)
def r11_6(ctx):
    from .c14 import r14_1

    r14_1(ctx)
    from .c14 import r14_5

    r14_5(ctx)  # every part of an instruction starts from an empty holder: what an earlier part declared is not declared again


@rule("R11.7", "C11", "register operands are declared exactly when they are used as variables: the initialise table of the READ block and the read table agree for every access class", min_instances=7)
def r11_7(ctx):
    from .c07 import assignment_marks_target_written
    from .c08 import r08_4
    from .c12 import r12_5

    r12_5(ctx)
    assignment_marks_target_written(ctx)  # ... and every form of assignment makes its register target one whose operand is declared
    r08_4(ctx)  # a routine is called under the name it is declared with


@rule("R11.8", "C11", "generated names are C identifiers: a node name embeds another operand only through its C spelling (pure_var / effect_var), and the C spelling of a register replaces the `:` of explicit pairs", min_instances=6)
def r11_8(ctx):
    idx = get_index(ctx.env)
    node_classes = set()
    for b in NODE_BASES:
        node_classes |= set(idx.subclasses(b))
    init = idx.func("RZILTransformer.__init__")
    inl = [n.value for n in ast.walk(init.node) if isinstance(n, ast.Assign) and U(n.targets[0]) == "self.inlined_pure_classes"]
    ctx.need(inl and isinstance(inl[0], ast.Tuple), "inlined_pure_classes not found")
    inlined = {U(e) for e in inl[0].elts}
    ISA_SPELLING = {"get_name", "get_isa_name", "__str__"}
    n_sites = 0
    for fi in idx.funcs.values():
        if fi.cls not in ("RZILTransformer", "HexagonTransformerExtension"):
            continue
        for n in ast.walk(fi.node):
            if not (isinstance(n, ast.Call) and isinstance(n.func, ast.Name) and n.func.id in node_classes and n.args):
                continue
            cls = n.func.id
            name = n.args[0]
            if cls in inlined or not isinstance(name, ast.JoinedStr):
                continue  # never declared, or a plain string / token text (identifier by the grammar's token classes, R17.5)
            n_sites += 1
            bad = []
            for part in name.values:
                if isinstance(part, ast.Constant):
                    if not re.fullmatch(r"[A-Za-z0-9_]*", str(part.value)):
                        bad.append(f"literal part {part.value!r}")
                elif isinstance(part, ast.FormattedValue):
                    v = part.value
                    if isinstance(v, ast.Call) and isinstance(v.func, ast.Attribute) and v.func.attr in ISA_SPELLING:
                        bad.append(f"{U(v)} (ISA spelling: `R31:30` for an explicit pair)")
                    elif isinstance(v, ast.Call) and isinstance(v.func, ast.Name) and v.func.id == "str":
                        bad.append(f"{U(v)} (printed form of an operand)")
            ctx.check(f"{fi.qual}: name of {cls} `{U(name)[:50]}`", not bad, "identifier characters and C spellings only", "; ".join(bad) or "ok", f"{fi.path.relative_to(idx.repo)}:{n.lineno}", nontrivial=bool(bad) or any(isinstance(p, ast.FormattedValue) for p in name.values))
    ctx.need(n_sites >= 6, f"only {n_sites} templated node names found")
    # names the constant folders give their results (embedded by consumers such as jump_<operand>)
    from .c09 import number
    for q, mk in (("simplify_unary_expr", lambda r: [[Tok("UNARY_OP", "-"), number(r, "a", 5, True, 32)]]),
                  ("simplify_unary_expr", lambda r: [[Tok("UNARY_OP", "~"), number(r, "a", 5, False, 32)]]),
                  ("simplify_arithmetic_expr", lambda r: [[number(r, "a", 4, True, 32), Tok("ADD_OP", "+"), number(r, "b", 4, True, 32)]]),
                  ("simplify_arithmetic_expr", lambda r: [[number(r, "a", 4, True, 32), Tok("SUB_OP", "-"), number(r, "b", 9, True, 32)]])):
        r = Runner(idx, keep_real=(q,))
        fi, outs = r.run(q, lambda r=r, mk=mk: mk(r), args_list=True)
        for o in outs:
            if o.kind == "raise" or not (isinstance(o.value, AObj) and o.value.cls == "Number"):
                continue
            nm = to_text(ctor(o.value, "name"))
            ctx.check(f"name of a folded constant [{q}: {nm}]", re.fullmatch(r"[A-Za-z_][A-Za-z0-9_]*", nm or "") is not None, "identifier characters only", str(nm), fn_where(idx, fi))
    # type names embedded in node names (`cast_st32`, `ite_cast_ut8`, `ret_val_ut32`): the printed form of an integer type is
    # identifier characters only, whatever flags the type carries
    fs = idx.func("ValueType.__str__")
    for signed in (True, False):
        for groups in (("PURE",), ("PURE", "CONST"), ("PURE", "BOOL"), ("PURE", "HYBRID_LVAR"), ("PURE", "CONST", "BOOL"), ()):
            outs = Interp(idx).explore(lambda i: i.call_function(fs, [], self_obj=mk_vt("t", signed, 32, groups)))
            got = [to_text(o.value) if o.kind != "raise" else "RAISE" for o in outs]
            ok = len(got) == 1 and re.fullmatch(r"[A-Za-z0-9_]+", got[0] or "") is not None
            ctx.check(f"printed form of an integer type [{'signed' if signed else 'unsigned'}, flags {'|'.join(groups) or 'none'}]", ok, "identifier characters only (it is embedded in node names)", str(got), fn_where(idx, fs))
    # the C spelling of a register is an identifier
    fp = idx.func("Register.pure_var")
    for nm, exp in (("R31:30", "R31_30"), ("Rs", "Rs"), ("P3:0_new", "P3_0_new")):
        outs = Interp(idx).explore(lambda i, nm=nm: i.call_function(fp, [], self_obj=AObj("Register", {"name": nm, "isa_name": nm}, label="reg")))
        got = [to_text(o.value) if o.kind != "raise" else "RAISE" for o in outs]
        ctx.check(f"Register.pure_var[{nm}]", got == [exp], exp, str(got), fn_where(idx, fp))


@rule("R11.9", "C11", "no declaration that live code still uses is removed: operands are taken out of the holder only when they are literals or reference counted", min_instances=4)
def r11_9(ctx):
    from .c09 import r09_3

    r09_3(ctx)


@rule("R11.10", "C11", "memory and jump templates name their operands through il_read (the declared variable or the inlined term), never through a variable name of their own making", min_instances=10)
def r11_10(ctx):
    from .c07 import r07_6

    r07_6(ctx)
