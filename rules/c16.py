"""C16 - both output layouts denote the same effect."""
from __future__ import annotations

import ast

from sa.absint import AObj, EnumV, Interp, Opaque, to_text
from sa.pyindex import get_index
from sa.report import PROP_ASSUMPTIONS, PROP_EXPLANATION, rule
from sa.stateflow import effects_of
from sa.symex import U, call_name, call_tail, paths_of

from .common import fn_where

PROP_EXPLANATION["C16"] = (
    "Non-interference: the layout switch is read only by fbody / emit_final_seq_return, never by a callback, an il_* method or the "
    "extension, and the instruction sequence is built by one expression for both layouts, so the denoted effect cannot depend on it; "
    "the two layouts print the same set of initialisers (partition of the operand lists; the statement layout finds its dependencies "
    "through effect_ops, so operands must only be re-bound through the setters that maintain effect_ops, and every created node must "
    "be registered); dependencies are ordered by creation id. Equality of final states follows from these and is not executed."
)


def phase_separation(ctx):
    """the attribute flags are settled while the tree is transformed; the emission phase (whose work differs between the
    layouts: what is printed, how often, in which order) never touches them"""
    idx = get_index(ctx.env)
    gm = idx.func("HexagonTransformerExtension.get_meta")
    flags = {n.attr for n in ast.walk(gm.node) if isinstance(n, ast.Attribute) and isinstance(n.value, ast.Name) and n.value.id == "self" and isinstance(n.ctx, ast.Load)}
    ext_classes = [c for c in idx.mro("HexagonTransformerExtension") if c in idx.classes]
    setters = set()
    for c in ext_classes:
        for m, mfi in idx.classes[c].methods.items():
            if m in ("__init__", "reset_flags", "get_meta"):
                continue
            for n in ast.walk(mfi):
                tg = n.targets if isinstance(n, ast.Assign) else [n.target] if isinstance(n, (ast.AugAssign, ast.AnnAssign)) else []
                if any(isinstance(t, ast.Attribute) and U(t.value) == "self" and t.attr in flags for t in tg):
                    setters.add(m)
                if isinstance(n, ast.Call) and isinstance(n.func, ast.Attribute) and isinstance(n.func.value, ast.Attribute) and U(n.func.value.value) == "self" and n.func.value.attr in flags \
                        and n.func.attr in ("append", "add", "extend", "update", "insert"):
                    setters.add(m)
    # callers of those setters inside the extension (set_token_meta_data) count as setters as well
    changed = True
    while changed:
        changed = False
        for c in ext_classes:
            for m, mfi in idx.classes[c].methods.items():
                if m in setters or m in ("__init__", "reset_flags", "get_meta"):
                    continue
                if any(isinstance(n, ast.Call) and isinstance(n.func, ast.Attribute) and U(n.func.value) == "self" and n.func.attr in setters for n in ast.walk(mfi)):
                    setters.add(m)
                    changed = True
    ctx.need(len(setters) >= 5 and "set_token_meta_data" in setters, f"flag setters of the extension not recognised: {sorted(setters)}")
    fb = idx.func("RZILTransformer.fbody")
    emit_roots = [f for q, f in idx.funcs.items() if f.cls == "RZILTransformer" and f.name.startswith("emit_")]
    ctx.need(len(emit_roots) >= 4, "emission functions (emit_*) not found")
    closure = idx.reachable(emit_roots)
    offenders = []
    for q, f in closure.items():
        if f.cls in ext_classes:
            continue
        for n in ast.walk(f.node):
            if isinstance(n, ast.Call) and isinstance(n.func, ast.Attribute) and n.func.attr in setters and (f.cls != "RZILTransformer" or "ext" in U(n.func.value)):
                offenders.append(f"{q}:{n.lineno} {U(n)[:50]}")
    first_emit = min([n.lineno for n in ast.walk(fb.node) if isinstance(n, ast.Call) and isinstance(n.func, ast.Attribute) and n.func.attr.startswith("emit_")] or [10**9])
    for n in ast.walk(fb.node):
        if isinstance(n, ast.Call) and isinstance(n.func, ast.Attribute) and n.func.attr in setters and n.lineno > first_emit:
            offenders.append(f"RZILTransformer.fbody:{n.lineno} {U(n)[:50]}")
        if isinstance(n, (ast.For, ast.While)) and n.lineno < 10**9 and any(isinstance(c, ast.Call) and isinstance(c.func, ast.Attribute) and c.func.attr in setters for c in ast.walk(n)):
            offenders.append(f"RZILTransformer.fbody:{n.lineno} flags set inside a loop over emitted operations")
    ctx.check("attribute flags are never set from the emission phase", not offenders, f"no call of {sorted(setters)[:4]}... at or after the first emit_* call", "; ".join(sorted(set(offenders))[:3]) or "ok", fn_where(idx, fb))


@rule("R16.1", "C16", "non-interference: code_format is read only where the text is laid out; the instruction sequence and the attributes do not depend on it", min_instances=4)
def r16_1(ctx):
    idx = get_index(ctx.env)
    readers = set()
    for fi in idx.funcs.values():
        for n in ast.walk(fi.node):
            if isinstance(n, ast.Attribute) and n.attr == "code_format" and isinstance(n.ctx, ast.Load):
                readers.add(fi.qual)
            if isinstance(n, ast.Constant) and n.value == "code_format":
                readers.add(fi.qual)  # getattr(x, "code_format") and friends
    exp = {"RZILTransformer.fbody", "RZILTransformer.emit_final_seq_return", "Compiler.set_il_op_transformer"}
    ctx.check("readers of code_format", readers == exp, str(sorted(exp)), str(sorted(readers)), "rzilcompiler/Transformer/RZILTransformer.py")
    names = {n.id for fi in idx.funcs.values() for n in ast.walk(fi.node) if isinstance(n, ast.Name) and n.id == "CodeFormat" and fi.qual not in exp | {"Compiler.__init__", "RZILTransformer.__init__"}}
    ctx.check("no other function refers to CodeFormat", not names, "none", str(sorted(names)), "rzilcompiler/")
    fe = idx.func("RZILTransformer.emit_final_seq_return")
    seqs = [n for n in ast.walk(fe.node) if isinstance(n, ast.Call) and call_name(n) == "Sequence"]
    before_fmt = True
    first_fmt_line = min([n.lineno for n in ast.walk(fe.node) if isinstance(n, ast.Attribute) and n.attr == "code_format"] or [10**9])
    ctx.check("one instruction sequence for both layouts, built before the layout is consulted", len(seqs) == 1 and seqs[0].lineno < first_fmt_line, "single Sequence(...) above the first use of code_format", f"{len(seqs)} constructions; layout first read at line {first_fmt_line}", fn_where(idx, fe))
    from .c11 import final_return_checks

    final_return_checks(ctx)
    gm = idx.func("HexagonTransformerExtension.get_meta")
    ctx.check("attributes do not depend on the layout", "code_format" not in U(gm.node) and "transformer" not in U(gm.node), "get_meta reads only its own flags", "reads transformer state", fn_where(idx, gm))
    phase_separation(ctx)


@rule("R16.2", "C16", "partition: the block layout prints read / exec (non-hybrid) / write (effects + hybrids); the statement layout prints every written effect after its dependencies; both start with the same READ block", min_instances=6)
def r16_2(ctx):
    idx = get_index(ctx.env)
    fb = idx.func("RZILTransformer.fbody")
    from .c11 import r11_3  # block order per layout is decided there (abstract run of fbody per CodeFormat member)
    members = set(idx.enum_table("CodeFormat"))
    ctx.check("layouts", members == {"EXEC_CLASSES", "READ_STATEMENTS"}, "{EXEC_CLASSES, READ_STATEMENTS}", str(sorted(members)), fn_where(idx, fb))
    # which operand list each block walks, and what an iteration may skip: only an EMPTY initialiser (the guard is the initialiser
    # call itself, read with local names substituted) and, in the EXEC block, hybrids (the WRITE block prints those)
    def block_shape(q):
        fi = idx.func(f"RZILTransformer.{q}")
        loops = []

        def collect(evs):
            for e in evs:
                if e.kind == "loop":
                    loops.append(e)
                    for bp in e.extra:
                        collect(bp.events)
        for p_ in paths_of(fi.node):
            collect(p_.events)
        seen = {}
        for lp in loops:
            it = U(lp.node[2]) if isinstance(lp.node, tuple) and len(lp.node) > 2 else "?"
            for bp in lp.extra:
                inits = [U(e.node) for e in bp.events if e.kind == "call" and isinstance(e.node, ast.Call) and call_tail(e.node).startswith("il_init")]
                res = bp.env.get("res")
                appended = [c for c in inits if res is not None and c in U(res)]
                why = "printed" if appended else None
                if why is None:
                    if any((not pol) and U(g) in inits for g, pol in bp.guards):
                        why = "empty initialiser"
                    elif any(pol and U(g).startswith("isinstance(") and "Hybrid" in U(g) for g, pol in bp.guards) and not inits:
                        why = "hybrid skipped"
                    elif not inits and any(e.kind == "call" and isinstance(e.node, ast.Call) and call_tail(e.node) == "append" for e in bp.events) and not bp.guards:
                        why = "collects"  # builds the statement lists the printing loop walks, for every element
                    else:
                        why = f"skipped when {bp.guard_text()[:60]}"
                seen.setdefault(it, set()).add(why)
        return fi, seen
    for q, lst, allowed in (("emit_read_block", "holder.read_ops.values()", {"printed", "empty initialiser"}),
                            ("emit_exec_block", "holder.exec_ops.values()", {"printed", "empty initialiser", "hybrid skipped"}),
                            ("emit_write_block", "holder.write_ops.values()", {"printed", "empty initialiser"})):
        fi, seen = block_shape(q)
        got = seen.get(lst)
        ctx.check(f"{q}: walks {lst.split('.')[1]}, prints every initialiser that is not empty" + (" (hybrids are left to the WRITE block)" if "exec" in q else ""),
                  list(seen) == [lst] and got is not None and "printed" in got and got <= allowed and ("exec" not in q or "hybrid skipped" in got), f"{lst}: {sorted(allowed)}", str({k: sorted(v) for k, v in seen.items()}), fn_where(idx, fi))
    fi, seen = block_shape("emit_stmt_blocks")
    flat = set().union(*seen.values()) if seen else set()
    ctx.check("statement layout: every written effect, dependencies first", any(k.startswith("holder.write_ops.values()") for k in seen) and "printed" in flat and flat <= {"printed", "empty initialiser", "collects"},
              "write_ops; dependencies from get_exec_op_list(); only empty initialisers skipped", str({k: sorted(v) for k, v in seen.items()}), fn_where(idx, fi))
    # hybrids are in both exec_ops and write_ops (so each layout sees them exactly once)
    fa = idx.func("ILOpsHolder.add_hybrid")
    stores = sorted(U(n.targets[0]) for n in ast.walk(fa.node) if isinstance(n, ast.Assign))
    ctx.check("hybrids are registered as exec and write operand", stores == ["self.exec_ops[hybrid.get_name()]", "self.write_ops[hybrid.get_name()]"], "exec_ops and write_ops", str(stores), fn_where(idx, fa))
    exec_dependency_walk(ctx)
    every_effect_is_declared_in_both_layouts(ctx)
    statement_comments_are_one_line(ctx)


def every_effect_is_declared_in_both_layouts(ctx):
    """both layouts declare every written effect exactly once: whatever class the effect is (incl. calls without value), the WRITE block
    and the statement blocks each print `RzILOpEffect *<var> = <write>;` for a not yet declared one.  The two emit functions are
    interpreted on a holder with one written effect; what the effect writes is a hole."""
    from sa.absint import AObj, Interp
    from .common import mk_vt, outcome_text

    idx = get_index(ctx.env)
    effs = sorted(c for c in idx.subclasses("Effect", strict=True) if c != "Empty")
    ctx.need(len(effs) >= 10, f"effect classes: only {effs}")

    def hook(i, callee, a, k, t):
        fn = getattr(getattr(callee, "finfo", None), "name", "")
        if fn == "il_write":
            return "<write>"
        if fn == "__str__":
            return "<str>"
        if fn == "get_exec_op_list":
            return []
        return NotImplemented

    for c in effs:
        hyb = "Hybrid" in idx.mro(c)
        for void in ((False, True) if hyb else (False,)):
            got = {}
            for q in ("emit_stmt_blocks", "emit_write_block"):
                fi = idx.func(f"RZILTransformer.{q}")

                def once(i, c=c, void=void, fi=fi):
                    node = AObj(c, {"name": "e", "num_id": 1, "effect_init_count": 0, "pure_init_count": 0, "init_counter": 0, "reads": 0,
                                    "value_type": mk_vt("t", False, 32, ("VOID",) if void else ("PURE",)), "effect_ops": [], "ops": []}, label="node")
                    h = AObj("ILOpsHolder", {"write_ops": {"e": node}}, label="holder")
                    return i.call_function(fi, [h, ""], self_obj=AObj("RZILTransformer", {}, label="self"))
                outs = Interp(idx, call_hook=hook).explore(once)
                got[q] = sorted({outcome_text(o).count("RzILOpEffect *e = <write>;") if o.kind == "return" else -1 for o in outs})
            ctx.check(f"a written {c}{' without value' if void else ''} is declared once by the statement blocks and once by the WRITE block", got == {"emit_stmt_blocks": [1], "emit_write_block": [1]},
                      "one declaration in either layout", str(got), fn_where(idx, idx.func("RZILTransformer.emit_stmt_blocks")), nontrivial=(void or c != "Assignment"))


def statement_comments_are_one_line(ctx):
    """the statement layout prints `// <str(statement)>;` in front of every block: the text a node (or a type) gives for itself is one line -
    a newline inside it starts a line that is neither comment nor declaration (Sequence cuts its text at a fixed length, so even a
    continuation that brings its own `//` can be cut right behind the newline)"""
    idx = get_index(ctx.env)
    classes = set(idx.subclasses("Pure")) | set(idx.subclasses("Effect")) | {"ValueType"}
    bad = []
    n = 0
    for c in sorted(classes):
        fi = idx.own_method(c, "__str__")
        if fi is None:
            continue
        n += 1
        for k in ast.walk(fi.node):
            if isinstance(k, ast.Constant) and isinstance(k.value, str) and ("\n" in k.value or "\r" in k.value):
                bad.append(f"{c}.__str__:{k.lineno} {k.value!r}"[:80])
    ctx.check("no node describes itself with a line break", n >= 10 and not bad, "single-line __str__", "; ".join(bad[:3]) or f"{n} __str__ methods, all single-line", "rzilcompiler/Transformer/")


def exec_dependency_walk(ctx):
    """Effect.get_exec_op_list: the operations an effect needs declared in front of it are found transitively - below operations,
    below nested effects (a BRANCH a hybrid emits inline is registered nowhere else) and below hybrids, at every depth"""
    idx = get_index(ctx.env)
    fg = idx.func("Effect.get_exec_op_list")

    def once(i):
        x = AObj("Pure", {}, label="x", opaque=True)
        p2 = AObj("PureExec", {"ops": [x]}, label="p2")
        p1 = AObj("PureExec", {"ops": [p2, x]}, label="p1")
        p4 = AObj("PureExec", {"ops": [x]}, label="p4")
        p3 = AObj("PureExec", {"ops": [p4]}, label="p3")
        p6 = AObj("PureExec", {"ops": []}, label="p6")
        p5 = AObj("PureExec", {"ops": [p6]}, label="p5")
        deep = AObj("Effect", {"effect_ops": [p5]}, label="deep")
        inner = AObj("Effect", {"effect_ops": [p3, deep]}, label="inner")
        p8 = AObj("PureExec", {"ops": []}, label="p8")
        p7 = AObj("PureExec", {"ops": [p8]}, label="p7")
        hyb = AObj("Hybrid", {"effect_ops": [p7], "ops": [p7]}, label="hyb")
        return i.call_function(fg, [], self_obj=AObj("Effect", {"effect_ops": [x, p1, inner, hyb]}, label="self"))
    # ... below every KIND of operation (an operation class that is treated as a leaf hides the operations that compute its operands)
    classes = sorted(c for c in idx.subclasses("PureExec") if c in idx.classes and "Hybrid" not in idx.mro(c) and c != "PureExec")
    hidden = []
    for c in classes:
        def once_c(i, c=c):
            q = AObj("PureExec", {"ops": []}, label="q")
            n_ = AObj(c, {"ops": [q], "va": q, "acc_type": None, "lets": []}, label="n")
            return i.call_function(fg, [], self_obj=AObj("Effect", {"effect_ops": [n_]}, label="self"))
        try:
            o2 = Interp(idx).explore(once_c)
            g2 = [[getattr(v, "label", v) for v in o.value] if o.kind == "return" else str(o.value) for o in o2]
        except Exception as e:
            g2 = [f"{type(e).__name__}"]
        if g2 != [["n", "q"]]:
            hidden.append(f"{c}: {g2}")
    ctx.check("dependency walk descends below every operation class", not hidden and len(classes) >= 8, "[n, q] for an operation n of every class with operand q", "; ".join(hidden[:3]) or f"{len(classes)} classes", fn_where(idx, fg))
    outs = Interp(idx).explore(once)
    got = [[getattr(v, "label", v) for v in o.value] if o.kind == "return" else str(o.value) for o in outs]
    exp = ["p1", "p2", "p3", "p4", "p5", "p6", "hyb", "p7", "p8"]  # a hybrid is an operation itself
    ctx.check("dependency walk: PureExec operands transitively (outer first), below nested effects and hybrids at every depth, starting from effect_ops", got == [exp], str(exp), str(got), fn_where(idx, fg))


def effect_operand_lists(ctx):
    """every operand an effect is built from is in its effect_ops: that list is what the statement layout walks to find the
    operations it has to declare in front of the effect (and what chk_hybrid_dep walks to find pending effects) - an operand
    missing from it is used undeclared"""
    from .c02 import lab
    from .common import mk_pure, mk_vt

    idx = get_index(ctx.env)
    E = lambda l: mk_pure(l, cls="Effect")
    P = lambda l, cls="Pure": mk_pure(l, mk_vt("t" + l, True, 32), cls=cls)
    at = {m: EnumV("AssignmentType", m, v) for m, v in idx.enum_table("AssignmentType").items()}
    ht = {m: EnumV("HybridType", m, v) for m, v in idx.enum_table("HybridType").items()}
    pt = idx.enum_table("PureType")

    def local(l):
        o = P(l, cls="LocalVar")
        o.fields["type"] = EnumV("PureType", "LOCAL", pt["LOCAL"])
        return o
    specs = {
        "Assignment": (lambda: ["n", at["ASSIGN"], local("dest"), P("src")], ["dest", "src"]),
        "Branch": (lambda: ["n", P("cond"), E("then"), E("otherwise")], ["cond", "then", "otherwise"]),
        "ForLoop": (lambda: ["n", P("control"), E("compound")], ["control", "compound"]),
        "Jump": (lambda: ["n", P("target")], ["target"]),
        "MemStore": (lambda: ["n", P("va"), P("data")], ["va", "data"]),
        "PostfixIncDec": (lambda: ["n", local("operand"), mk_vt("t", True, 32), ht["INC"]], ["operand"]),
        "Sequence": (lambda: ["n", [E("e0"), E("e1")]], ["e0", "e1"]),
        "GCCStmtDeclExpr": (lambda: ["n", E("stmt"), P("expr"), mk_vt("t", True, 32)], ["stmt", "expr"]),
    }
    known = set(specs) | {"Empty", "NOP", "Hybrid", "Call", "SubRoutine", "SubRoutineCall", "Effect"}
    classes = {c for c in (set(idx.subclasses("Effect", strict=True)) | set(idx.subclasses("Hybrid"))) if c in idx.classes}
    ctx.check("effect classes covered by the operand-list table", classes <= known, "no effect class outside the table", str(sorted(classes - known)), "rzilcompiler/Transformer/Effects/")
    for c, (mk, exp) in sorted(specs.items()):
        fi = idx.resolve_method(c, "__init__")
        ctx.need(fi is not None, f"{c}.__init__ not found")

        def once(i, c=c, mk=mk):
            o = AObj(c, {}, label="node")
            i.call_function(fi, mk(), self_obj=o)
            return o
        outs = Interp(idx).explore(once)
        got = []
        for o in outs:
            eo = o.value.fields.get("effect_ops") if o.kind == "return" and isinstance(o.value, AObj) else None
            got.append(sorted(lab(x) for x in eo) if isinstance(eo, list) else str(o.value)[:40])
        ctx.check(f"{c}: effect_ops holds every operand", got == [sorted(exp)], str(sorted(exp)), str(got), fn_where(idx, fi))


@rule("R16.3", "C16", "what the statement layout walks (effect_ops) stays in step with the operands: src/dest are re-bound only through the setters; every created node is registered", min_instances=10)
def r16_3(ctx):
    effect_operand_lists(ctx)
    idx = get_index(ctx.env)
    # who stores to .src / .dest / .stmt of effects
    for attr, setter, cls in (("src", "set_src", "Assignment"), ("dest", "set_dest", "Assignment"), ("stmt", "update_stmt", "GCCStmtDeclExpr")):
        bad = []
        n = 0
        for fi in idx.funcs.values():
            for node in ast.walk(fi.node):
                tgts = []
                if isinstance(node, ast.Assign):
                    tgts = node.targets
                elif isinstance(node, (ast.AugAssign, ast.AnnAssign)):
                    tgts = [node.target]
                for t in tgts:
                    for tt in (t.elts if isinstance(t, (ast.Tuple, ast.List)) else [t]):
                        if isinstance(tt, ast.Attribute) and tt.attr == attr:
                            n += 1
                            inside = fi.cls is not None and (fi.cls == cls or cls in idx.mro(fi.cls) or fi.cls in ("MemStore", "Jump", "Branch", "ForLoop", "Sequence", "Immediate", "MacroInvocation", "SubRoutine", "SubRoutineCall", "Call", "PostfixIncDec", "Cast", "MemLoad")) and U(tt.value) == "self"
                            if not inside:
                                bad.append(f"{fi.qual}: {U(node)[:60]}")
        ctx.check(f"stores to .{attr} outside the owning class", not bad, f"only {cls}.{setter} / constructors", "; ".join(bad) or "none", "rzilcompiler/Transformer/")
    fs = idx.func("Assignment.set_src")
    box = {}
    def once(i):
        old, new, dest = AObj("Pure", {}, label="old", opaque=True), AObj("Pure", {}, label="new", opaque=True), AObj("Pure", {}, label="dest", opaque=True)
        a = AObj("Assignment", {"src": old, "dest": dest, "effect_ops": [dest, old]}, label="a")
        box["a"] = a
        return i.call_function(fs, [new], self_obj=a)
    Interp(idx).explore(once)
    a = box["a"]
    ctx.check("Assignment.set_src keeps effect_ops in step", a.fields["src"].label == "new" and sorted(x.label for x in a.fields["effect_ops"]) == ["dest", "new"], "src=new, effect_ops={dest,new}", f"src={a.fields['src'].label}, effect_ops={[x.label for x in a.fields['effect_ops']]}", fn_where(idx, fs))
    fd = idx.func("Assignment.set_dest")
    def once2(i):
        src, new, dest = AObj("Pure", {}, label="src", opaque=True), AObj("Pure", {}, label="newdest", opaque=True), AObj("Pure", {}, label="dest", opaque=True)
        a = AObj("Assignment", {"src": src, "dest": dest, "effect_ops": [dest, src]}, label="a")
        box["a"] = a
        return i.call_function(fd, [new], self_obj=a)
    Interp(idx).explore(once2)
    a = box["a"]
    ctx.check("Assignment.set_dest keeps effect_ops in step", a.fields["dest"].label == "newdest" and sorted(x.label for x in a.fields["effect_ops"]) == ["newdest", "src"], "dest=newdest, effect_ops={newdest,src}", f"dest={a.fields['dest'].label}, effect_ops={[x.label for x in a.fields['effect_ops']]}", fn_where(idx, fd))
    from .c11 import add_op_registers_what_it_returns, compound_nodes_registered

    compound_nodes_registered(ctx)
    add_op_registers_what_it_returns(ctx)  # one node per operation: a node shared between two statements is declared once by the statement layout per statement list, but removed / re-typed for both
    # set_dest_type goes through the setters
    from .c03 import r03_3  # contains the set_dest_type setter-order instance
    fi = idx.func("RZILTransformer.set_dest_type")
    calls = [call_tail(n) for n in ast.walk(fi.node) if isinstance(n, ast.Call)]
    ctx.check("set_dest_type re-binds through set_src / set_dest", "set_src" in calls and "set_dest" in calls, "assig.set_src(...), assig.set_dest(...)", str(calls), fn_where(idx, fi))


@rule("R16.4", "C16", "statement blocks order their dependencies by creation id (numeric), the same order in which the block layout prints them", min_instances=2)
def r16_4(ctx):
    idx = get_index(ctx.env)
    fs = idx.func("RZILTransformer.emit_stmt_blocks")
    from .c11 import sorted_by_num_id

    sorts = [n for n in ast.walk(fs.node) if isinstance(n, ast.Call) and call_name(n) == "sorted"]
    ctx.check("dependencies sorted by num_id", len(sorts) == 1 and sorted_by_num_id(sorts[0]), "sorted(<effect>.get_exec_op_list(), key=lambda v: v.num_id)", str([U(x) for x in sorts]), fn_where(idx, fs))
    # the block layout prints in creation order because the operand dicts are insertion ordered and filled by add_op
    fa = idx.func("ILOpsHolder.add_pure")
    param = fa.node.args.args[1].arg
    item_stores = [n for n in ast.walk(fa.node) if isinstance(n, ast.Assign) and isinstance(n.targets[0], ast.Subscript)]
    conts = sorted({U(n.targets[0].value) for n in item_stores})
    appended = all(isinstance(n.value, ast.Name) and n.value.id == param for n in item_stores)
    reorder = [U(n)[:40] for n in ast.walk(fa.node) if isinstance(n, ast.Call) and call_tail(n) in ("move_to_end", "sorted", "sort", "insert", "reversed")]
    ctx.check("operand lists are filled in creation order", conts == ["self.exec_ops", "self.read_ops"] and appended and not reorder, "plain item stores of the new node into the insertion-ordered dicts",
              f"containers={conts} value-is-node={appended} reordering={reorder}", fn_where(idx, fa))
    from .c12 import r12_8

    r12_8(ctx)  # ... and indexed by the node's name (look-ups use the same key)
    fg = idx.func("ILOpsHolder.get_op_count")
    box = {}
    def once(i):
        h = AObj("ILOpsHolder", {"op_count": 3}, label="h")
        box["h"] = h
        return [i.call_function(fg, [], self_obj=h), i.call_function(fg, [], self_obj=h)]
    outs = Interp(idx).explore(once)
    ctx.check("creation ids are consecutive integers from one counter", [o.value for o in outs] == [[3, 4]], "[3, 4]", str([o.value for o in outs]), fn_where(idx, fg))


# emission-time stores of one node into ANOTHER node that emission reads back, reviewed: (writer, attribute) -> why it is layout-neutral
REVIEWED_CROSS_NODE_EMISSION_STATE = {
    ("Assignment.il_write", "assign_usage"): "an immediate that is the source of an assignment is read inside that very il_write call, right after the store; "
                                             "Immediate.il_read clears the flag again before it returns, so no other emission observes it",
}


@rule("R16.5", "C16", "emission is local: printing one node (il_read / il_write / il_exec / il_init_var ...) never stores into another node something the printing of a node reads - the layouts print in different orders", min_instances=1)
def r16_5(ctx):
    idx = get_index(ctx.env)
    emit_roots = [f for q, f in idx.funcs.items() if f.cls == "RZILTransformer" and f.name.startswith("emit_")]
    ctx.need(len(emit_roots) >= 4, "emission functions (emit_*) not found")
    closure = {q: f for q, f in idx.reachable(emit_roots).items() if f.cls and f.cls != "RZILTransformer" and "Transformer" in str(f.path or "")}
    ctx.need(len(closure) >= 60, f"emission closure too small ({len(closure)} methods)")
    # attributes the emission closure reads
    reads = {}
    for q, f in closure.items():
        for n in ast.walk(f.node):
            if isinstance(n, ast.Attribute) and isinstance(n.ctx, ast.Load):
                reads.setdefault(n.attr, set()).add(q)
    found = 0
    for q, f in sorted(closure.items()):
        for n in ast.walk(f.node):
            tg = n.targets if isinstance(n, ast.Assign) else [n.target] if isinstance(n, (ast.AugAssign, ast.AnnAssign)) else []
            for t in tg:
                for tt in (t.elts if isinstance(t, (ast.Tuple, ast.List)) else [t]):
                    if isinstance(tt, ast.Subscript):
                        tt = tt.value
                    if not isinstance(tt, ast.Attribute):
                        continue
                    base = U(tt.value)
                    if base == "self":
                        continue  # the node's own bookkeeping (read counters, init counters)
                    readers = sorted(reads.get(tt.attr, ()))
                    if not readers:
                        continue
                    found += 1
                    why = REVIEWED_CROSS_NODE_EMISSION_STATE.get((q, tt.attr))
                    ctx.check(f"{q} stores {base}.{tt.attr}", why is not None, "no store into another node that emission reads (or a reviewed one)",
                              f"{U(n)[:60]}; read during emission by {readers[:3]}: what is printed for those depends on whether this node was printed before - "
                              f"the statement layout prints effects between the operations, the block layout prints all operations first" if why is None else f"reviewed: {why[:80]}",
                              fn_where(idx, f))
    ctx.check("reviewed cross-node emission stores still present", found >= 1, ">= 1 (Assignment.il_write -> Immediate.assign_usage)", str(found), "rzilcompiler/Transformer/Effects/Assignment.py", nontrivial=False)
    # the reviewed entry's justification, checked: Immediate.il_read clears assign_usage on the path that saw it set
    fi = idx.func("Immediate.il_read")
    clears = [U(n) for n in ast.walk(fi.node) if isinstance(n, ast.Assign) and U(n.targets[0]) == "self.assign_usage" and isinstance(n.value, ast.Constant) and n.value.value is False]
    ctx.check("Immediate.il_read clears assign_usage after it consumed it", bool(clears), "self.assign_usage = False", str(clears), fn_where(idx, fi))


@rule("R16.6", "C16", "both layouts are well-formed and report the same flags: every operand of the read / exec / write lists is initialised in the blocks both layouts share; the needs_hi / needs_pkt flags depend on the words hi / pkt only (not on the C-source comments one layout prints); a folder converts no operand it removes", min_instances=12)
def r16_6(ctx):
    from .c11 import needs_flags_valuation
    from .c12 import no_conversion_of_removed_operands, r12_3

    r12_3(ctx)
    needs_flags_valuation(ctx)
    no_conversion_of_removed_operands(ctx)
    from .c12 import single_initialisation_per_class

    single_initialisation_per_class(ctx)  # the per-statement layout asks an operation for its declaration once per statement that reaches it
    # the block layout prints the operand lists in insertion order = creation order (an operation is registered after its operands): the
    # holder only ever adds to / removes from its lists, it never re-orders or re-binds them
    idx = get_index(ctx.env)
    lists = ("read_ops", "exec_ops", "write_ops", "let_ops")
    rebinds = []
    for m, node in idx.classes["ILOpsHolder"].methods.items():
        if m == "__init__":
            continue
        for n in ast.walk(node):
            tg = n.targets if isinstance(n, ast.Assign) else [n.target] if isinstance(n, (ast.AugAssign, ast.AnnAssign)) else []
            for t in tg:
                if isinstance(t, ast.Attribute) and U(t.value) == "self" and t.attr in lists:
                    rebinds.append(f"ILOpsHolder.{m}:{n.lineno} {U(n)[:50]}")
            if isinstance(n, ast.Call) and isinstance(n.func, ast.Attribute) and n.func.attr in ("move_to_end", "sort", "reverse") and isinstance(n.func.value, ast.Attribute) and n.func.value.attr in lists:
                rebinds.append(f"ILOpsHolder.{m}:{n.lineno} {U(n)[:50]}")
    ctx.check("the holder's operand lists keep their insertion order", not rebinds, "entries are added, removed or cleared; the lists are never re-bound or re-ordered", "; ".join(rebinds[:2]) or "ok", "rzilcompiler/Transformer/ILOpsHolder.py")


@rule("R16.7", "C16", "the block layout prints the operand lists in registration order, which is dependency order only when the lists start empty: every list a transform fills is emptied by reset() (a stale entry keeps its old slot and is printed before what it depends on)", min_instances=12)
def r16_7(ctx):
    from .c14 import r14_1

    r14_1(ctx)


@rule("R16.8", "C16", "what an effect writes does not depend on how many of its operands' reads were printed before it (the layouts print reads in different orders): the copy of an immediate into its IL variable is written whenever it is printed", min_instances=3)
def r16_8(ctx):
    from .c12 import immediate_read_protocol

    immediate_read_protocol(ctx)
