"""Rules shared by several properties (registered under each property that relies on them)."""
from __future__ import annotations

import ast

from sa.pyindex import get_index
from sa.symex import U, call_name, call_tail, paths_of

from .common import fn_where

VT_FIELDS = {"signed", "bit_width", "_signed", "_bit_width", "group", "format", "external_type"}


def fresh_valuetype_returns(idx, qual):
    """[(path description, fresh?)] for every returning path of `qual`: fresh = a direct ValueType(...) constructor call."""
    fi = idx.func(qual)
    res = []
    for p in paths_of(fi.node):
        if p.outcome != "return":
            continue
        v = p.value
        fresh = isinstance(v, ast.Call) and isinstance(v.func, ast.Name) and v.func.id == "ValueType"
        res.append((U(v), fresh, p.lineno))
    return fi, res


def type_object_mutation(ctx):
    """In-place stores to ValueType fields: each site must be one of the reviewed, provably harmless shapes."""
    idx = get_index(ctx.env)
    n_sites = 0
    for fi in idx.funcs.values():
        if fi.cls == "ValueType":
            continue
        for n in ast.walk(fi.node):
            targets = []
            if isinstance(n, ast.Assign):
                targets = n.targets
            elif isinstance(n, ast.AugAssign):
                targets = [n.target]
            for t in targets:
                if not (isinstance(t, ast.Attribute) and t.attr in VT_FIELDS):
                    continue
                # `self.group = ...` style stores inside unrelated classes do not exist today; everything is reviewed
                n_sites += 1
                recv = U(t.value)
                key = f"{fi.qual}: store to {recv}.{t.attr}"
                where = f"{fi.path.relative_to(idx.repo)}:{n.lineno}"
                if fi.qual == "ValueType:c11_cast":
                    ctx.check(key, True, "copy-only (ownership decided by R04.2)", "delegated to the c11_cast ownership rule", where, nontrivial=False)
                elif fi.qual == "RZILTransformer.declaration_specifiers" and recv == "t":
                    # t = items[1] : produced by type_specifier (fresh object per parse) or by this callback itself
                    ok = True
                    obs = []
                    tsp = idx.func("RZILTransformer.type_specifier")
                    rets = [p for p in paths_of(tsp.node) if p.outcome == "return"]
                    for p in rets:
                        if not (call_tail(p.value) == "get_value_type_by_resource_type"):
                            ok = False
                            obs.append(f"type_specifier returns {U(p.value)}")
                    f2, res = fresh_valuetype_returns(idx, "HexagonTransformerExtension.get_value_type_by_resource_type")
                    for txt, fresh, ln in res:
                        if not fresh:
                            ok = False
                            obs.append(f"get_value_type_by_resource_type returns {txt} (line {ln})")
                    binds = [s for s in ast.walk(fi.node) if isinstance(s, (ast.Assign, ast.AnnAssign))
                             and any(isinstance(x, ast.Name) and x.id == "t" for x in (s.targets if isinstance(s, ast.Assign) else [s.target]))]
                    for b in binds:
                        if U(b.value) != "items[1]":
                            ok = False
                            obs.append(f"t bound to {U(b.value)}")
                    ctx.check(key, ok, "stored-to type object is freshly constructed for this declaration", "; ".join(obs) or "fresh ValueType(...) on every path", where)
                elif fi.qual == "RZILTransformer.resolve_hybrid" and t.attr == "group" and (
                        (isinstance(n, ast.AugAssign) and isinstance(n.op, ast.BitOr) and U(n.value) == "VTGroup.HYBRID_LVAR")
                        or (isinstance(n, ast.Assign) and isinstance(n.value, ast.BinOp) and isinstance(n.value.op, ast.BitOr)
                            and sorted([U(n.value.left), U(n.value.right)]) == sorted([U(t), "VTGroup.HYBRID_LVAR"]))):
                    ctx.check(key, True, "idempotent OR of one constant flag", "group |= VTGroup.HYBRID_LVAR", where, nontrivial=False)
                elif fi.name == "__init__" and recv == "self":
                    continue
                else:
                    ctx.check(key, False, "no in-place store to a possibly shared type object", f"{U(n)[:80]}", where)
    ctx.need(n_sites >= 3, f"expected at least 3 reviewed type-object store sites, found {n_sites}")
