"""C08 - sub-routine calls follow the C calling convention and isolate the callee."""
from __future__ import annotations

import ast
import json
import re

from sa.absint import AObj, ClassRef, EnumV, FlagV, Interp, Opaque, Sym, Tok, to_text
from sa.cbmodel import Runner
from sa.pyindex import get_index
from sa.report import PROP_ASSUMPTIONS, PROP_EXPLANATION, rule
from sa.symex import U, call_name, call_tail, paths_of
from sa.template import normalise

from .c02 import ctor, lab
from .c03 import clean
from .common import IntervalSym, fn_where, interval_compare, mk_pure, mk_vt, outcome_text

PROP_EXPLANATION["C08"] = (
    "Decided clauses: the argument conversion table (per parameter kind and type relation), argument rendering, agreement of the "
    "ret_val writer (return statement) with its readers, agreement of call and declaration names, the call node's type, the "
    "registration wiring of compile_sub_routine, the bundle/pkt/hi prologue rule, disjointness of the bundled routines' locals, and "
    "whether the temporary-name generator can collide between caller and callee transformers. That a compiled body computes what its "
    "C source computes is C02-C06 again and not re-decided here."
)


def vt(name, signed, width, groups=("PURE",), ext=None):
    v = mk_vt(name, signed, width, groups)
    if ext:
        v.fields["external_type"] = ext
    return v


@rule("R08.1", "C08", "argument conversion: every value argument whose type differs from its parameter type is converted to it; external/enum/string arguments pass through; count mismatch raises", min_instances=12)
def r08_1(ctx):
    idx = get_index(ctx.env)
    for sa in (True, False):
        for sp in (True, False):
            for order in ("<", "=", ">"):
                r = Runner(idx, sym_compare=interval_compare({("Wa", "Wp"): order}))
                box = {}

                def args():
                    a = [r.pure("arg", vt=vt("ta", sa, Sym("Wa")))]
                    box["a"] = a
                    return [a, [vt("p", sp, Sym("Wp"))]]

                fi, outs = r.run("cast_arg_list", args, args_list=True)
                same = sa == sp and order == "="
                exp = "arg" if same else f"Conv(({'s' if sp else 'u'},Wp),arg)"
                got = {clean(lab(box["a"][0])) if o.kind != "raise" else "RAISE" for o in outs}
                ctx.check(f"cast_arg_list[arg {'s' if sa else 'u'}, param {'s' if sp else 'u'}, Warg{order}Wparam]", got == {exp} and len(outs) == 1, exp, str(sorted(got)), fn_where(idx, fi))
    # a literal argument is converted like any other argument (through the conversion helper, not by a folder of the call's own)
    for val, (sa_, wa_), (sp_, wp_) in ((-1, (True, 32), (True, 64)), (5, (True, 32), (True, 64)), (-1, (True, 32), (False, 64)), (0x80000000, (False, 32), (True, 64))):
        r = Runner(idx)
        box = {}

        def args_l(val=val, sa_=sa_, wa_=wa_, sp_=sp_, wp_=wp_):
            n_ = AObj("Number", {"value": val, "value_type": vt("tl", sa_, wa_), "name": "lit", "isa_name": None, "inlined": True, "reads": 0}, label="lit")
            a = [n_]
            box["a"] = a
            return [a, [vt("p", sp_, wp_)]]
        fi, outs = r.run("cast_arg_list", args_l, args_list=True)
        got = sorted({clean(lab(box["a"][0])) if o.kind != "raise" else "RAISE" for o in outs})
        exp = [f"Conv(({'s' if sp_ else 'u'},{wp_}),lit)"]
        ctx.check(f"cast_arg_list[literal {val} of ({'s' if sa_ else 'u'},{wa_}) to a ({'s' if sp_ else 'u'},{wp_}) parameter]", got == exp, exp[0], str(got), fn_where(idx, fi))
    # pass-through kinds
    r = Runner(idx)
    box = {}
    def args2():
        ext = vt("pe", False, 64, ("EXTERNAL",), "HexOp")
        a = [r.pure("reg", vt=vt("t0", True, 32)), "HEX_RF_WIDTH", r.pure("x", vt=vt("t2", True, 32))]
        box["a"] = a
        return [a, [ext, vt("p1", False, 32), None]]
    fi, outs = r.run("cast_arg_list", args2, args_list=True)
    got = [clean(lab(x)) for x in box["a"]]
    ctx.check("cast_arg_list pass-through (external parameter, string argument, untyped parameter)", got == ["reg", "HEX_RF_WIDTH", "x"], "['reg', 'HEX_RF_WIDTH', 'x']", str(got), fn_where(idx, fi))
    r = Runner(idx)
    fi, outs = r.run("cast_arg_list", lambda: [[r.pure("a", vt=vt("t", True, 32))], [vt("p", True, 32), vt("q", True, 32)]], args_list=True)
    ctx.check("cast_arg_list count mismatch raises", all(o.kind == "raise" for o in outs), "raises", str([outcome_text(o)[:30] for o in outs]), fn_where(idx, fi))
    # sub_routine callback: arguments converted against the routine's own parameter types, in order - for every registered routine, whatever it is called
    for rname in ("clz32", "fatal_mark", "g_assert_sat", "fatality", "MEM_STORE0_b", "x"):
        r = Runner(idx)
        seen = {}
        def cs(interp, args, kwargs):
            seen["call"] = (args, kwargs)
            return args[1]
        r.summarised = r.summarised | {"cast_sub_routine_args"}
        r.s_cast_sub_routine_args = cs
        def items(rname=rname):
            return [rname, r.pure("items[1]", vt=vt("t1", True, 32)), r.pure("items[2]", vt=vt("t2", True, 32))]
        def over(rname=rname):
            s = AObj("SubRoutine", {}, label="routine", opaque=True)
            r.stubs[("routine", "get_parameter_value_types")] = "PARAM_TYPES"
            r.stubs[("routine", "get_name")] = rname
            return {"sub_routines": {rname: s}}
        fi, outs = r.run("sub_routine", items, self_over=over)
        good = [o for o in outs if o.kind != "raise"]
        nt = rname != "clz32"
        ctx.check(f"sub_routine callback, registered routine {rname}: the call is compiled (argument conversion observed)", bool(good) and "call" in seen, "cast_sub_routine_args called, a call node built",
                  f"outcomes={[lab(o.value)[:40] if o.kind != 'raise' else 'RAISE' for o in outs]}, conversion={'seen' if 'call' in seen else 'not seen'}", fn_where(idx, fi), nontrivial=nt)
        if not (good and "call" in seen):
            continue
        a, k = seen["call"]
        ctx.check(f"sub_routine[{rname}] converts items[1:] against the routine's parameter types", [lab(x) for x in a[1]] == ["items[1]", "items[2]"] and (a[2] if len(a) > 2 else k.get("predefined_types")) == "PARAM_TYPES",
                  "cast_sub_routine_args(name, items[1:], routine.get_parameter_value_types())", f"args={[lab(x) for x in a[1]]}, types={a[2] if len(a) > 2 else k}", fn_where(idx, fi), nontrivial=nt)
        for o in good:
            v = o.value
            h = v.fields.get("hybrid") if isinstance(v, AObj) else None
            ok = isinstance(h, AObj) and h.cls == "SubRoutineCall" and lab(ctor(h, "sub_routine")) == "routine" and [lab(x) for x in ctor(h, "args")] == ["items[1]", "items[2]"]
            ctx.check(f"sub_routine[{rname}] builds SubRoutineCall(routine, converted args) and resolves it as a hybrid", ok, "Hyb(SubRoutineCall(routine, args))", lab(v)[:80], fn_where(idx, fi), nontrivial=nt)
    fp = idx.func("SubRoutine.get_parameter_value_types")
    rets = [U(p.value) for p in paths_of(fp.node) if p.outcome == "return"]
    ctx.check("parameter types are read off the routine's parameters in order", rets == ["[p.value_type for p in self.ops]"], "[p.value_type for p in self.ops]", str(rets), fn_where(idx, fp))


@rule("R08.2", "C08", "argument rendering: value arguments are read (il_read), external ones are passed by operand variable / name", min_instances=5)
def r08_2(ctx):
    idx = get_index(ctx.env)
    fi = idx.func("build_arg_list")
    ext = lambda: vt("pe", False, 64, ("EXTERNAL",), "HexOp")
    pure = lambda: vt("pp", True, 32)
    cases = [
        ("value argument", lambda: ([mk_pure("a", cls="Pure")], [pure()]), "<a.il_read()>"),
        ("external parameter, operand with get_op_var", lambda: ([AObj("Register", {}, label="r", opaque=True)], [ext()]), "<r.get_op_var()>"),
        ("external parameter, Parameter passed through", lambda: ([AObj("Parameter", {}, label="bundle", opaque=True)], [ext()]), "<bundle.get_name()>"),
        ("external parameter, enum string", lambda: (["HEX_RF_WIDTH"], [ext()]), "HEX_RF_WIDTH"),
        # ... however the external type is spelled (pointer or not, qualified or not): an operand is handed over by its operand variable,
        # rendered the one way every class of register renders it (explicit / alias registers are structs and need their `&`)
        ("external pointer parameter `HexOp *`", lambda: ([AObj("Register", {}, label="r", opaque=True)], [vt("pe", False, 64, ("EXTERNAL",), "HexOp *")]), "<r.get_op_var()>"),
        ("external pointer parameter `const HexOp *`", lambda: ([AObj("Register", {}, label="r", opaque=True)], [vt("pe", False, 64, ("EXTERNAL",), "const HexOp *")]), "<r.get_op_var()>"),
        ("explicit register to `const HexOp *`", lambda: ([AObj("Register", {"name": "R31", "is_explicit": True, "is_reg_alias": False, "is_n_reg": False}, label="R31")], [vt("pe", False, 64, ("EXTERNAL",), "const HexOp *")]), "&R31_op"),
        ("alias register to `HexOp *`", lambda: ([AObj("Register", {"name": "usr", "is_explicit": False, "is_reg_alias": True, "is_n_reg": False}, label="usr")], [vt("pe", False, 64, ("EXTERNAL",), "HexOp *")]), "&usr_op"),
        ("ISA register to `const HexOp *`", lambda: ([AObj("Register", {"name": "Rx", "is_explicit": False, "is_reg_alias": False, "is_n_reg": False}, label="Rx")], [vt("pe", False, 64, ("EXTERNAL",), "const HexOp *")]), "Rx_op"),
        ("explicit register to `HexOp`", lambda: ([AObj("Register", {"name": "R31", "is_explicit": True, "is_reg_alias": False, "is_n_reg": False}, label="R31")], [ext()]), "&R31_op"),
        ("external parameter `HexInsnPktBundle *`, Parameter", lambda: ([AObj("Parameter", {}, label="bundle", opaque=True)], [vt("pe", False, 64, ("EXTERNAL",), "HexInsnPktBundle *")]), "<bundle.get_name()>"),
        ("two arguments in order", lambda: ([mk_pure("a"), mk_pure("b")], [pure(), pure()]), "<a.il_read()>, <b.il_read()>"),
    ]
    for name, mk, exp in cases:
        def once(i, mk=mk):
            a, p = mk()
            return i.call_function(fi, [a, p])
        outs = Interp(idx).explore(once)
        obs = " | ".join(sorted({normalise(outcome_text(o)) for o in outs}))
        ctx.check(f"build_arg_list[{name}]", obs == exp, exp, obs, fn_where(idx, fi))
    outs = Interp(idx).explore(lambda i: i.call_function(fi, [[mk_pure("a")], []]))
    ctx.check("build_arg_list count mismatch raises", all(o.kind == "raise" for o in outs), "raises", str([outcome_text(o)[:30] for o in outs]), fn_where(idx, fi))


def return_ends_routine(ctx):
    """`return e;` is lowered to the store SETL("ret_val", e) - correct only if nothing of the routine runs after it.  For a return that
    is not the last statement on its path the compiler has to do something more than the store: leave the routine, guard what follows,
    or reject the body.  Decided here: the return branch of jump_stmt produces more than the plain store, or records the return in
    state that a later callback can act on."""
    idx = get_index(ctx.env)
    fi = idx.func("RZILTransformer.jump_stmt")
    branch = None
    for n in ast.walk(fi.node):
        if isinstance(n, ast.If) and isinstance(n.test, ast.Compare) and any(isinstance(c, ast.Constant) and c.value == "return" for c in n.test.comparators) and "items[0]" in U(n.test.left):
            branch = n
            break
    ctx.need(branch is not None, "jump_stmt: the `return` branch was not found")
    rets = [n for s_ in branch.body for n in ast.walk(s_) if isinstance(n, ast.Return)]
    raises_ = [n for s_ in branch.body for n in ast.walk(s_) if isinstance(n, ast.Raise)]
    nodes = sorted({call_name(c) for r_ in rets if r_.value is not None for c in ast.walk(r_.value) if isinstance(c, ast.Call) and call_name(c)[:1].isupper()})
    state = sorted({U(t) for s_ in branch.body for n in ast.walk(s_) if isinstance(n, (ast.Assign, ast.AugAssign))
                    for t in (n.targets if isinstance(n, ast.Assign) else [n.target]) if isinstance(t, ast.Attribute) and U(t.value).startswith("self")})
    only_store = nodes == ["Assignment"] and not state and len(raises_) <= 1
    ctx.check("a return that is not the last statement of its path: the statements behind it do not run", not only_store,
              "the return leaves the routine, guards what follows, or such a body is rejected",
              f"the return branch builds {nodes} and records nothing ({state}): statements behind a return still run, the last store into ret_val wins", fn_where(idx, fi))


@rule("R08.3", "C08", "return protocol: writer and readers agree on the local `ret_val`; the writer widens to 64 bit, readers narrow by the declared return type; the call node carries the declared return type", min_instances=8)
def r08_3(ctx):
    idx = get_index(ctx.env)
    # the literal name
    rv = idx.func("ReturnValue.__init__")
    names = [n.args[1].value for n in ast.walk(rv.node) if isinstance(n, ast.Call) and call_name(n) == "LocalVar.__init__" and len(n.args) > 1 and isinstance(n.args[1], ast.Constant)]
    ctx.check("ReturnValue is the local `ret_val`", names == ["ret_val"], "ret_val", str(names), fn_where(idx, rv))
    js = idx.func("RZILTransformer.jump_stmt")
    lits = sorted({n.args[0].value for n in ast.walk(js.node) if isinstance(n, ast.Call) and call_tail(n) in ("has_op", "get_op_by_name") and n.args and isinstance(n.args[0], ast.Constant)})
    ctx.check("the return statement looks the writer up under the same name", lits == ["ret_val"], "['ret_val']", str(lits), fn_where(idx, js))
    for cls in ("SubRoutine", "Call"):
        fi = idx.func(f"{cls}.il_read")
        for signed in (True, False):
            outs = Interp(idx, sym_compare=interval_compare()).explore(lambda i: i.call_function(fi, [], self_obj=AObj(cls, {"value_type": vt("rt", signed, IntervalSym("W", 8, 64))}, label="self")))
            obs = " | ".join(sorted({clean(normalise(outcome_text(o))) for o in outs}))
            exp = f'{"SIGNED" if signed else "UNSIGNED"}(W, VARL("ret_val"))'
            ctx.check(f"{cls}.il_read[{'s' if signed else 'u'}]", obs == exp, exp, obs, fn_where(idx, fi))
    # writer: Assignment(ret_val <- value widened to 64 bit), wider values rejected
    for name, lo, hi, exp in (("W<64", 1, 63, ("Conv((u,64),items[1])",)), ("W=64", 64, 64, ("items[1]", "Conv((u,64),items[1])")), ("W>64", 65, 2048, ("RAISE",))):
        r = Runner(idx, sym_compare=interval_compare())
        fi, outs = r.run("jump_stmt", lambda: [Tok("RETURN", "return"), r.pure("items[1]", vt=vt("t1", True, IntervalSym("W", lo, hi)))])
        for o in outs:
            if o.kind == "raise":
                t = "RAISE"
            else:
                v = o.value
                d = ctor(v, "dest") if isinstance(v, AObj) and v.cls == "Assignment" else None
                dname = "ret_val" if (isinstance(d, AObj) and d.cls == "ReturnValue") or "ret_val" in lab(d) else lab(d)
                t = clean(lab(ctor(v, "src"))) if dname == "ret_val" else f"dest={dname}"
            ctx.check(f"return statement[{name}]", t in exp, " or ".join(exp), t, fn_where(idx, fi))
    # the call node's type is the routine's declared return type (same object: no re-typing between writer and reader)
    fi = idx.func("SubRoutineCall.__init__")
    box = {}
    def once(i):
        rt = vt("rt", False, 16)
        box["rt"] = rt
        sr = AObj("SubRoutine", {"value_type": rt, "name": "r", "isa_name": None, "routine_name": "r"}, label="sr")
        return i.construct("SubRoutineCall", [sr, []], {})
    outs = Interp(idx).explore(once)
    ok = all(o.kind == "return" and o.value.fields.get("value_type") is box["rt"] for o in outs)
    ctx.check("SubRoutineCall carries the routine's declared return type", ok, "value_type is sub_routine.value_type", "different type object" if not ok else "same object", fn_where(idx, fi))
    f2 = idx.func("SubRoutineCall.il_read")
    rets = [U(p.value) for p in paths_of(f2.node) if p.outcome == "return"]
    ctx.check("SubRoutineCall reads through the routine", rets == ["self.sub_routine.il_read()"], "self.sub_routine.il_read()", str(rets), fn_where(idx, f2))


@rule("R08.4", "C08", "call and declaration agree on the C name hex_<routine>; call arguments rendered against the routine's parameter types", min_instances=3)
def r08_4(ctx):
    idx = get_index(ctx.env)
    fw = idx.func("SubRoutineCall.il_write")
    fd = idx.func("SubRoutine.il_init")
    def mk_sr():
        p = AObj("Parameter", {"value_type": vt("pt", False, 32), "name": "t", "isa_name": None}, label="param")
        return AObj("SubRoutine", {"routine_name": "clz32", "name": "clz32", "isa_name": None, "ops": [p], "body": "{BODY}", "value_type": vt("rt", False, 32)}, label="sr")
    outs = Interp(idx).explore(lambda i: i.call_function(fw, [], self_obj=AObj("SubRoutineCall", {"sub_routine": mk_sr(), "args": [mk_pure("a")]}, label="self")))
    call = " | ".join(sorted({normalise(outcome_text(o)) for o in outs}))
    ctx.check("call text", call == "hex_clz32(<a.il_read()>)", "hex_clz32(<a.il_read()>)", call, fn_where(idx, fw))
    et = idx.enum_table("SubRoutineInitType")
    outs = Interp(idx).explore(lambda i: i.call_function(fd, [EnumV("SubRoutineInitType", "DECL", et["DECL"])], self_obj=mk_sr()))
    decl = " | ".join(sorted({normalise(outcome_text(o)) for o in outs}))
    ctx.check("declaration text", decl == "RZ_OWN RzILOpEffect *hex_clz32(RZ_BORROW RzILOpPure *t)", "RZ_OWN RzILOpEffect *hex_clz32(RZ_BORROW RzILOpPure *t)", decl, fn_where(idx, fd))
    outs = Interp(idx).explore(lambda i: i.call_function(fd, [EnumV("SubRoutineInitType", "DEF", et["DEF"])], self_obj=mk_sr()))
    d2 = " | ".join(sorted({normalise(outcome_text(o)) for o in outs}))
    ctx.check("definition = declaration + body", d2 == "RZ_OWN RzILOpEffect *hex_clz32(RZ_BORROW RzILOpPure *t){BODY}", "declaration followed by the compiled body", d2, fn_where(idx, fd))
    # the same C function name at the call and at the declaration, whatever the routine is called (capitals, digits, underscores)
    for rname in ("clz32", "getBit", "fSATN", "sat_inc_2", "X"):
        def mk2(rname=rname):
            sr = mk_sr()
            sr.fields["routine_name"] = rname
            sr.fields["name"] = rname
            return sr
        outs = Interp(idx).explore(lambda i: i.call_function(fw, [], self_obj=AObj("SubRoutineCall", {"sub_routine": mk2(), "args": [mk_pure("a")]}, label="self")))
        c_ = {normalise(outcome_text(o)).split("(")[0] for o in outs}
        outs = Interp(idx).explore(lambda i: i.call_function(fd, [EnumV("SubRoutineInitType", "DECL", et["DECL"])], self_obj=mk2()))
        d_ = {normalise(outcome_text(o)).split("(")[0].split("*")[-1] for o in outs}
        ctx.check(f"routine {rname}: the function that is called is the function that is declared", len(c_) == 1 and c_ == d_, "one C name at both sites", f"called {sorted(c_)}, declared {sorted(d_)}", fn_where(idx, fd), nontrivial=(rname != "clz32"))
    # several parameters: the declaration lists them in the order the call passes its arguments (the routine's own order), whatever they are called
    for names in (("t", "bundle"), ("bundle", "t"), ("b", "a", "c"), ("hi", "bundle", "x")):
        def mk3(names=names):
            sr = mk_sr()
            sr.fields["ops"] = [AObj("Parameter", {"value_type": vt("pt_" + n, False, 32), "name": n, "isa_name": None}, label="param_" + n) for n in names]
            return sr
        outs = Interp(idx).explore(lambda i: i.call_function(fd, [EnumV("SubRoutineInitType", "DECL", et["DECL"])], self_obj=mk3()))
        got = set()
        for o in outs:
            t = normalise(outcome_text(o))
            inner = t[t.find("(") + 1:t.rfind(")")] if "(" in t else t
            got.add(tuple(re.split(r"[\s*]+", x.strip())[-1] for x in inner.split(",")))
        ctx.check(f"declared parameter order for parameters {names}", got == {tuple(names)}, str(tuple(names)), str(sorted(got)), fn_where(idx, fd))
        outs = Interp(idx).explore(lambda i: i.call_function(fw, [], self_obj=AObj("SubRoutineCall", {"sub_routine": mk3(), "args": [mk_pure("arg_" + n) for n in names]}, label="self")))
        gotc = set()
        for o in outs:
            t = normalise(outcome_text(o))
            gotc.add(tuple(re.findall(r"arg_(\w+)", t)))
        ctx.check(f"call argument order for parameters {names}", gotc == {tuple(names)}, str(tuple(names)), str(sorted(gotc)), fn_where(idx, fw))
    outs = Interp(idx).explore(lambda i: i.call_function(fw, [], self_obj=AObj("SubRoutineCall", {"sub_routine": mk_sr(), "args": [mk_pure("a"), mk_pure("b")]}, label="self")))
    ctx.check("call with a wrong number of arguments raises", all(o.kind == "raise" for o in outs), "raises", str([outcome_text(o)[:30] for o in outs]), fn_where(idx, fw))


@rule("R08.5", "C08", "callee temporaries cannot overwrite live caller temporaries: h_tmpN names are unique across the transformers whose code ends up in one effect", min_instances=2)
def r08_5(ctx):
    from .c06 import r06_6

    r06_6(ctx)  # (includes the per-routine prefix clause, routine_prefix_checks)


def routine_prefix_checks(ctx):
    """temporaries of a routine body carry a per-routine prefix that no other routine and no instruction body can produce"""
    idx = get_index(ctx.env)
    # compile_sub_routine uses a fresh transformer -> fresh ILOpsHolder -> its own counter starting at 0: the names of a
    # body and of its callers (and of two bodies) can only differ through a per-routine component of the name
    cs = idx.func("Compiler.compile_sub_routine")
    rh = idx.func("RZILTransformer.resolve_hybrid")
    init = idx.func("RZILTransformer.__init__")
    def name_parts(e):
        """components of a name expression, left to right: f-string parts, or the operands of a `+` concatenation (str(x) unwrapped)"""
        if isinstance(e, ast.JoinedStr):
            return list(e.values)
        if isinstance(e, ast.BinOp) and isinstance(e.op, ast.Add):
            out = []
            for side in (e.left, e.right):
                out += name_parts(side) if isinstance(side, (ast.BinOp, ast.JoinedStr)) else [side]
            return [ast.FormattedValue(value=x.args[0], conversion=-1) if isinstance(x, ast.Call) and isinstance(x.func, ast.Name) and x.func.id == "str" and x.args else
                    (ast.FormattedValue(value=x, conversion=-1) if not isinstance(x, (ast.Constant, ast.FormattedValue)) else x) for x in out]
        return []
    gen = [n.value for n in ast.walk(rh.node) if isinstance(n, ast.Assign) and isinstance(n.targets[0], ast.Name) and "hybrid_op_count" in U(n.value) and name_parts(n.value)]
    if len(gen) != 1:
        ctx.check("temporary names are generated from the holder's counter", False, "one name expression built from hybrid_op_count in resolve_hybrid",
                  f"{len(gen)} name expressions mention the counter: the names of two temporaries can coincide", fn_where(idx, rh))
        return
    parts = name_parts(gen[0])
    scope_attrs = [v.value.attr for v in parts if isinstance(v, ast.FormattedValue) and isinstance(v.value, ast.Attribute) and U(v.value.value) == "self" and "hybrid_op_count" not in U(v)]
    counter_last = isinstance(parts[-1], ast.FormattedValue) and "hybrid_op_count" in U(parts[-1])
    tvars = [U(n.targets[0]) for n in ast.walk(cs.node) if isinstance(n, ast.Assign) and isinstance(n.value, ast.Call) and call_name(n.value) == "RZILTransformer"]
    name_param = cs.node.args.args[1].arg
    scoped = None
    for n in ast.walk(cs.node):
        if isinstance(n, ast.Assign) and isinstance(n.targets[0], ast.Attribute) and U(n.targets[0].value) in tvars and n.targets[0].attr in scope_attrs:
            scoped = n
    default = next((n.value.value for n in ast.walk(init.node) if isinstance(n, ast.Assign) and isinstance(n.targets[0], ast.Attribute) and n.targets[0].attr in scope_attrs
                    and isinstance(n.value, ast.Constant) and isinstance(n.value.value, str)), None)
    ok = False
    obs = f"generator {U(gen[0])}: no per-transformer component that compile_sub_routine sets (a private counter per transformer: body and caller both start at <prefix>0)"
    if scoped is not None and counter_last and default is not None:
        # the prefix expression is evaluated for routine names that differ only slightly: the prefixes must be pairwise different
        # (also for names that differ in case only), continue the default prefix with a non-digit and end with a non-digit
        # (default names are <default><digits>, routine names <prefix><digits>: the counter is digits only, so names cannot coincide)
        probes = ["clz32", "CLZ32", "Clz32", "sat_inc", "SAT_INC", "a", "a1", "a_1", "a1_", "lead_zeros_lo", "lead_zeros_both", "revbit16", "revbit16_extra", "a_very_long_routine_name_1", "a_very_long_routine_name_2"]
        prefixes = {}
        problems = []
        for nm in probes:
            def once(i, nm=nm):
                return i.expr(scoped.value, {name_param: nm, "self": AObj("Compiler", {}, label="compiler")}, "Compiler")
            try:
                outs = Interp(idx).explore(once)
                vals = {to_text(o.value) if o.kind == "return" else "RAISE" for o in outs}
            except Exception as e:
                vals = {f"not evaluable: {type(e).__name__}"}
            if len(vals) != 1 or not isinstance(next(iter(vals)), str) or "<" in next(iter(vals)):
                problems.append(f"{nm}: {sorted(vals)}")
                continue
            prefixes[nm] = next(iter(vals))
        before_transform = scoped.lineno < min([c.lineno for c in ast.walk(cs.node) if isinstance(c, ast.Call) and isinstance(c.func, ast.Attribute) and c.func.attr == "transform"] or [0])
        if not problems:
            if len(set(prefixes.values())) != len(prefixes):
                clash = sorted(k for k, v in prefixes.items() if list(prefixes.values()).count(v) > 1)
                problems.append(f"routines {clash} share the prefix {prefixes[clash[0]]!r}")
            for nm, pf in prefixes.items():
                if not (pf.startswith(default) and len(pf) > len(default) and not pf[len(default)].isdigit() and not pf[-1].isdigit()):
                    problems.append(f"{nm}: prefix {pf!r} can run into the default names {default!r}<digits> or into its own counter")
        ok = not problems and before_transform
        obs = f"default prefix {default!r}, routine prefix {U(scoped.value)} set {'before' if before_transform else 'AFTER'} the body is transformed" + ("; " + "; ".join(problems[:2]) if problems else "")
    if scoped is not None:
        unscoped = []
        for q in paths_of(cs.node):
            seen = False
            for e in q.events:
                if e.kind == "store" and isinstance(e.node, ast.Attribute) and e.node.attr in scope_attrs:
                    seen = True
                elif e.kind == "call" and isinstance(e.node, ast.Call) and call_tail(e.node) == "transform" and not seen:
                    unscoped.append(q.guard_text()[:80] or "unconditional")
        ctx.check("the per-routine prefix is set on every path that transforms a body", not unscoped, "set before transform(...) on every path",
                  f"body transformed with the default prefix when: {sorted(set(unscoped))[:2]}" if unscoped else "ok", fn_where(idx, cs))
    ctx.check("temporary names of a routine body and of its callers cannot coincide", ok,
              "a per-routine component in the name (set before the body is transformed, separated from the counter and from the default prefix by a non-digit)", obs, fn_where(idx, rh))


def _skip_ws(t, i):
    while i < len(t) and t[i].isspace():
        i += 1
    return i


def _skip_block(t, i):
    """t[i] == '{' (or '('): index behind the matching closer"""
    op, cl = t[i], {"{": "}", "(": ")"}[t[i]]
    depth = 0
    while i < len(t):
        if t[i] == op:
            depth += 1
        elif t[i] == cl:
            depth -= 1
            if depth == 0:
                return i + 1
        i += 1
    return i


def return_is_last(code: str, pos: int) -> bool:
    """`return` is compiled to a store into ret_val; nothing leaves the routine.  So whatever a C return skips must not exist: behind the
    `return <e>;` at pos only closing braces and the else-branches of the ifs being closed may follow"""
    i = code.index(";", pos) + 1
    while True:
        i = _skip_ws(code, i)
        if i >= len(code):
            return True
        if code[i] == "}":
            i += 1
            j = _skip_ws(code, i)
            while code.startswith("else", j) and not (code[j + 4:j + 5].isalnum() or code[j + 4:j + 5] == "_"):
                j = _skip_ws(code, j + 4)
                if code.startswith("if", j):
                    j = _skip_ws(code, j + 2)
                    if j < len(code) and code[j] == "(":
                        j = _skip_ws(code, _skip_block(code, j))
                if j < len(code) and code[j] == "{":
                    j = _skip_block(code, j)
                else:
                    j = code.index(";", j) + 1 if ";" in code[j:] else len(code)
                i = j
                j = _skip_ws(code, j)
            continue
        return False


def return_positions_lint(ctx):
    """resource lint over the bundled routine bodies: every `return` stands where nothing can follow it at run time"""
    p = ctx.env.repo / "Resources" / "Hexagon" / "sub_routines.json"
    ctx.need(p.is_file(), f"anchor missing: {p}")
    data = json.loads(p.read_text())["sub_routines"]
    n = 0
    for name, r in sorted(data.items()):
        code = r["code"]
        early = [code[m.start():m.start() + 40] for m in re.finditer(r"\breturn\b", code) if not return_is_last(code, m.start())]
        n += len(re.findall(r"\breturn\b", code))
        ctx.check(f"routine {name}: every return is the last thing on its path", not early, "only closing braces / else-branches behind a return",
                  f"statements follow {early[:2]}: the compiled return only stores ret_val, the following statements still run and the last store wins" if early else "ok",
                  "Resources/Hexagon/sub_routines.json")
    ctx.check("return statements inspected", n >= 10, ">= 10", str(n), "Resources/Hexagon/sub_routines.json", nontrivial=False)
    # self-check of the position analysis on four shapes
    shapes = [("{ if (x) { return 1; } else { return 2; } }", [True, True]), ("{ if (x) { return 1; } y = 2; return y; }", [False, True]),
              ("{ if (x) { return 1; } else if (z) { y = 1; } else { y = 2; } }", [True]), ("{ return 1; y = 2; }", [False])]
    for code, exp in shapes:
        got = [return_is_last(code, m.start()) for m in re.finditer(r"\breturn\b", code)]
        ctx.check(f"position analysis on `{code[:40]}`", got == exp, str(exp), str(got), "verif/rules/c08.py", nontrivial=False)


def prologue_checks(ctx):
    """a routine body that mentions pkt / hi declares them (and only then), wherever in a line the mention stands"""
    idx = get_index(ctx.env)
    fi = idx.func("SubRoutine.check_for_bundle_usage")
    probes = (("x = pkt->a;", ["pkt"]), ("y = ISA2REG(hi, 's');", ["hi"]), ("READ_REG(pkt, x); ISA2REG(hi, 's');", ["hi", "pkt"]), ("a = b;", []), ("pktx = 1; this = 2;", []),
              ('RzILOpPure *c = ITE(VARL("lo"), READ_REG(pkt, Rx_op, true), VARL("up"));', ["pkt"]),
              ('// note\nRzILOpEffect *e = SEQN(2, SETL("a", x), HEX_STORE_SLOT_CANCELLED(pkt, hi->slot));', ["hi", "pkt"]))
    for code, exp in probes:
        outs = Interp(idx).explore(lambda i, code=code: i.call_function(fi, [code], self_obj=AObj("SubRoutine", {}, label="self")))
        got = []
        for o in outs:
            t = to_text(o.value)
            got = sorted(x for x, decl in (("pkt", "HexPkt *pkt = bundle->pkt;"), ("hi", "const HexInsn *hi = bundle->insn;")) if decl in t)
            ok_wrap = t.startswith("{\n") and t.endswith("\n}") and code in t
            ctx.check(f"prologue for body `{code[:50]}`", got == exp and ok_wrap and len(outs) == 1, f"declares {exp}, body wrapped in braces", f"declares {got}", fn_where(idx, fi))


@rule("R08.6", "C08", "resource lint: locals of the bundled routines are pairwise disjoint (flat IL namespace); bodies that use operands take the bundle; prologue rule for pkt/hi", min_instances=12)
def r08_6(ctx, namespacing=True):
    idx = get_index(ctx.env)
    p = ctx.env.repo / "Resources" / "Hexagon" / "sub_routines.json"
    ctx.need(p.is_file(), f"anchor missing: {p}")
    data = json.loads(p.read_text())["sub_routines"]
    rel = "Resources/Hexagon/sub_routines.json"
    decl_re = re.compile(r"\b(?:u?int\d+_t|int|unsigned(?:\s+int)?|size\d+[us]_t)\s+([A-Za-z_]\w*)\s*(?:=|;)")
    locals_ = {}
    special = {"EA", "i", "j", "k", "ret_val", "jump_flag", "jump_target"}
    for name, r in data.items():
        ls = set(decl_re.findall(r["code"]))
        params = {q.split()[-1].lstrip("*") for q in r["params"]}
        locals_[name] = ls
        # the IL variables of a body share one flat name space with those of its callers: a local carries its routine's name, so that
        # no behaviour's own variable (mask, length, n, x ...) is overwritten by a call
        for v in (sorted(ls) if namespacing else ()):
            ctx.check(f"routine {name}: local {v} carries the routine's name", v.startswith(name + "_"), f"{name}_<name>", v, rel)
        clash = sorted(ls & special)
        ctx.check(f"routine {name}: locals do not shadow special identifiers", not clash, "disjoint from EA/i/j/k/ret_val/jump_*", str(clash), rel)
        uses_ops = bool(re.search(r"\b[RPCMNVQ][a-z]{1,2}[VN]\b|HEX_REG_ALIAS_|\b[a-zA-Z]iV\b", r["code"]))
        has_bundle = any("HexInsnPktBundle" in q and q.split()[-1].lstrip("*") == "bundle" for q in r["params"])
        by_ref = any("HexOp" in q for q in r["params"])
        ctx.check(f"routine {name}: operand use implies a bundle parameter", (not uses_ops) or has_bundle, "HexInsnPktBundle *bundle", f"uses operands={uses_ops}, bundle={has_bundle}", rel)
    names = sorted(locals_)
    for a in range(len(names)):
        for b in range(a + 1, len(names)):
            common = sorted(locals_[names[a]] & locals_[names[b]])
            ctx.check(f"locals of {names[a]} / {names[b]} disjoint", not common, "no common local names", str(common), rel, nontrivial=False)
    return_positions_lint(ctx)
    prologue_checks(ctx)


def c_type_table(ctx):
    """the C type names of declarations, parameters and return types denote the C types: sign and width by the spelling (intN_t / uintN_t,
    sizeN[su]_t with N in bytes, int, unsigned), also behind a qualifier"""
    idx = get_index(ctx.env)
    ft = idx.func("get_value_type_by_c_type")
    table = {"int": (True, 32), "unsigned": (False, 32)}
    for w in (8, 16, 32, 64):
        table[f"int{w}_t"] = (True, w)
        table[f"uint{w}_t"] = (False, w)
        table[f"size{w // 8}s_t"] = (True, w)
        table[f"size{w // 8}u_t"] = (False, w)
    for t in ("uint16_t", "int32_t", "uint64_t", "int8_t"):
        table["const " + t] = table[t]
    for t, exp in table.items():
        outs = Interp(idx).explore(lambda i, t=t: i.call_function(ft, [t]))
        obs = {("RAISE" if o.kind == "raise" else (o.value.fields.get("_signed"), o.value.fields.get("_bit_width"), tuple(sorted(o.value.fields["group"].members)))) for o in outs}
        ctx.check(f"C type {t}", obs == {(exp[0], exp[1], ("PURE",))}, str(exp), str(sorted(map(str, obs))), fn_where(idx, ft))
    for t, grp in (("HexOp", "EXTERNAL"), ("const HexOp *", "EXTERNAL"), ("HexInsnPktBundle *", "EXTERNAL"), ("HexRegField", "EXTERNAL"), ("void", "VOID")):
        outs = Interp(idx).explore(lambda i, t=t: i.call_function(ft, [t]))
        obs = {("RAISE" if o.kind == "raise" else tuple(sorted(o.value.fields["group"].members))) for o in outs}
        ctx.check(f"C type {t}", obs == {(grp,)}, grp, str(sorted(map(str, obs))), fn_where(idx, ft))
    outs = Interp(idx).explore(lambda i: i.call_function(ft, ["struct foo"]))
    ctx.check("unknown C type rejected", all(o.kind == "raise" for o in outs), "raises", str([outcome_text(o)[:30] for o in outs]), fn_where(idx, ft))


@rule("R08.7", "C08", "registration wiring: parameters, return type, macros and registry reach the routine's transformer; the result is stored under its name and published", min_instances=8)
def r08_7(ctx):
    idx = get_index(ctx.env)
    cs = idx.func("Compiler.compile_sub_routine")
    w = fn_where(idx, cs)
    ps = [p for p in paths_of(cs.node) if p.outcome == "return"]
    main = [p for p in ps if not any(pol and "in self.sub_routines" in U(g) for g, pol in p.guards)]
    ctx.need(len(main) >= 1, "compile_sub_routine: no compiling path")
    ctx.check("compile_sub_routine compiles every routine alike (one path from the body text to the routine object)", len(main) == 1, "one compiling path",
              f"{len(main)} paths, split by: {sorted({U(g)[:60] for q in main for g, _ in q.guards if 'in self.sub_routines' not in U(g)})[:3]}", w)
    p = main[0]
    v = p.value
    ctx.check("compile_sub_routine returns SubRoutine(name, ret_type, params, compiled body)", isinstance(v, ast.Call) and call_name(v) == "SubRoutine" and [U(a)[:40] for a in v.args][:1] == ["name"] and U(v.args[1]) == "get_value_type_by_c_type(return_type)"
              and len(v.args) == 4 and "transform(" in U(v.args[3]) and "self.parser.parse(body)" in U(v.args[3]),
              "SubRoutine(name, get_value_type_by_c_type(return_type), params, transformer.transform(self.parser.parse(body)))", U(v)[:160], w)
    loops = [e for e in p.events if e.kind == "loop"]
    ok = False
    if loops:
        lp = loops[0]
        body = lp.extra[0] if len(lp.extra) == 1 else None
        if body is not None and U(lp.node[2]) == "parameter":
            item = U(lp.node[1]) + "@iter"
            calls = [U(e.node).replace(item, "ITEM") for e in body.events if e.kind == "call"]
            ok = any(c.endswith(".append(Parameter(split_var_decl(ITEM)[1], get_value_type_by_c_type(split_var_decl(ITEM)[0])))") and c.split(".append(")[0] == U(v.args[2]) for c in calls)
    ctx.check("each `<type> <id>` string becomes Parameter(id, type), in order", ok, "for param in parameter: params.append(Parameter(pname, get_value_type_by_c_type(ptype)))", "loop shape differs" if not ok else "ok", w)
    tcalls = [e.node for e in p.events if e.kind == "call" and call_name(e.node) == "RZILTransformer"]
    kw = {k.arg: U(k.value) for k in tcalls[0].keywords} if tcalls else {}
    # (the parameter list is the list the loop above fills: the same expression as the routine's third argument)
    ctx.check("routine transformer receives registry, parameters and return type", kw.get("sub_routines") == "self.sub_routines" and kw.get("parameters") == (U(v.args[2]) if isinstance(v, ast.Call) and len(v.args) > 2 else None)
              and kw.get("return_type") == "get_value_type_by_c_type(return_type)",
              "RZILTransformer(arch, sub_routines=self.sub_routines, parameters=params, return_type=ret_type)", str(kw), w)
    stores = [(U(e.node), U(e.extra)) for e in p.events if e.kind == "store"]
    ctx.check("routine transformer shares the caller's macro table", any(t.endswith(".macros") and v2 == "self.transformer.macros" for t, v2 in stores) or kw.get("macros") == "self.transformer.macros",
              "transformer.macros = self.transformer.macros (or handed to the constructor)", str(stores)[:120], w)
    ad = idx.func("Compiler.add_sub_routine")
    params_ad = [a.arg for a in ad.node.args.args[1:]]
    bad = []
    pn = 0
    for q in paths_of(ad.node):
        if q.outcome == "raise":
            continue
        pn += 1
        evs = [(e.kind, U(e.node), U(e.extra) if e.kind == "store" and isinstance(e.extra, ast.AST) else None) for e in q.events if e.kind in ("call", "store")]
        st = [k for k, (kind, tgt, val) in enumerate(evs) if kind == "store" and tgt == f"self.sub_routines[{params_ad[0]}]" and val == f"self.compile_sub_routine({', '.join(params_ad)})"]
        pub = [k for k, (kind, tgt, val) in enumerate(evs) if kind == "call" and tgt.endswith("update_sub_routines(self.sub_routines)")]
        if not (st and pub and st[0] < pub[0]):
            bad.append(str([t for _, t, _ in evs])[:200])
    ctx.check("add_sub_routine stores the routine under its name and publishes the registry", pn >= 1 and not bad, "sub_routines[name] = compile_sub_routine(<all parameters>); then transformer.update_sub_routines(...)",
              "; ".join(bad[:2]) or "ok", fn_where(idx, ad))
    c_type_table(ctx)
    fs = idx.func("split_var_decl")
    for decl, exp in (("uint32_t t", ("uint32_t", "t")), ("const HexOp *RxV", ("const HexOp *", "RxV")), ("HexInsnPktBundle *bundle", ("HexInsnPktBundle *", "bundle")), ("int n", ("int", "n"))):
        outs = Interp(idx).explore(lambda i, decl=decl: i.call_function(fs, [decl]))
        ctx.check(f"split_var_decl[{decl}]", [o.value for o in outs] == [exp], str(exp), str([outcome_text(o) for o in outs]), fn_where(idx, fs))


@rule("R08.8", "C08", "an argument is converted whatever kind of operand it is (incl. a forwarded parameter), and the set-up of immediates precedes every call that may read them", min_instances=20)
def r08_8(ctx):
    from .c03 import argument_kind_independence
    from .c05 import r05_3

    argument_kind_independence(ctx)
    r05_3(ctx)


@rule("R08.9", "C08", "nested calls: the call (and the store of its result) an argument depends on is sequenced right in front of the consumer - whatever node the argument sits under, also when the consumer is a call without a value", min_instances=30)
def r08_9(ctx):
    from .c06 import op_list_completeness, pending_effect_placement, r06_1

    pending_effect_placement(ctx)
    op_list_completeness(ctx)
    r06_1(ctx)
    from .c06 import r06_4

    r06_4(ctx)  # a call in a loop condition would have to run before EVERY evaluation of the condition: such a loop is rejected


@rule("R08.10", "C08", "a routine's parameters have exactly the declared types (no promotion of narrow parameters), and the literals of its body are typed by their suffix in either spelling", min_instances=30)
def r08_10(ctx):
    from .c09 import small_literal_typing

    idx = get_index(ctx.env)
    fi = idx.resolve_method("Parameter", "__init__")
    ctx.need(fi is not None, "Parameter.__init__ not found")
    for signed in (True, False):
        for w in (8, 16, 32, 64):
            for groups in (("PURE",), ("PURE", "CONST")):
                box = {}

                def once(i, signed=signed, w=w, groups=groups):
                    vt = mk_vt("tp", signed, w, groups)
                    o = AObj("Parameter", {}, label="p")
                    box["vt"] = vt
                    i.call_function(fi, ["p", vt], self_obj=o)
                    return o.fields.get("value_type")
                outs = Interp(idx).explore(once)
                got = sorted({(o.value.fields.get("_signed"), o.value.fields.get("_bit_width")) if o.kind == "return" and isinstance(o.value, AObj) else ("RAISE",) for o in outs})
                ctx.check(f"Parameter of type {'s' if signed else 'u'}{w}{' const' if 'CONST' in groups else ''}", got == [(signed, w)], str((signed, w)), str(got), fn_where(idx, fi), nontrivial=(w < 32))
    small_literal_typing(ctx)


@rule("R08.11", "C08", "a routine body computes what its C source computes also around `return`: nothing of the body runs after a return", min_instances=1)
def r08_11(ctx):
    return_ends_routine(ctx)


@rule("R08.12", "C08", "a call in condition position (`if (f(x))`) runs where the statement stands: the branch that tests its value sequences the call (and the store of its result) right in front of itself, whatever the body looks like", min_instances=6)
def r08_12(ctx):
    from .c06 import condition_effects_are_sequenced

    condition_effects_are_sequenced(ctx)
