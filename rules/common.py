"""Shared helpers for rule modules: abstract object builders, interval symbols, function lookup."""
from __future__ import annotations

import ast

from sa.absint import AObj, FlagV, Interp, Opaque, Sym, Tmpl, EnumV, to_text, Raised
from sa.pyindex import get_index
from sa.report import AnalysisError
from sa.symex import U, paths_of


class IntervalSym(Sym):
    """Symbolic width known only to lie in [lo, hi]; supports comparison with integer constants."""

    def __init__(self, name, lo, hi):
        super().__init__(name)
        self.lo, self.hi = lo, hi


def interval_compare(order=None):
    """sym_compare for PREDICATE cases. `order` maps frozenset({nameA,nameB}) -> '<' | '=' | '>' meaning A?B for (A,B) key."""
    order = order or {}

    def rel(a, b):
        if isinstance(a, Sym) and isinstance(b, Sym):
            if a is b or a.name == b.name:
                return "="
            if (a.name, b.name) in order:
                return order[(a.name, b.name)]
            if (b.name, a.name) in order:
                return {"<": ">", ">": "<", "=": "="}[order[(b.name, a.name)]]
            return None
        return None

    def cmp(a, opn, b):
        if isinstance(a, Sym) and isinstance(b, Sym):
            r = rel(a, b)
            if r is None:
                return None
            return {
                "Eq": r == "=", "NotEq": r != "=", "Lt": r == "<", "LtE": r in "<=", "Gt": r == ">", "GtE": r in ">=",
                "Is": r == "=", "IsNot": r != "=",
            }.get(opn)
        # symbol vs integer constant
        if isinstance(b, Sym) and not isinstance(a, Sym):
            flip = {"Lt": "Gt", "LtE": "GtE", "Gt": "Lt", "GtE": "LtE"}.get(opn, opn)
            return cmp(b, flip, a)
        if isinstance(a, IntervalSym) and isinstance(b, int) and not isinstance(b, bool):
            lo, hi = a.lo, a.hi
            if opn == "Lt":
                return True if hi < b else False if lo >= b else None
            if opn == "LtE":
                return True if hi <= b else False if lo > b else None
            if opn == "Gt":
                return True if lo > b else False if hi <= b else None
            if opn == "GtE":
                return True if lo >= b else False if hi < b else None
            if opn == "Eq":
                return True if lo == hi == b else False if (b < lo or b > hi) else None
            if opn == "NotEq":
                r = cmp(a, "Eq", b)
                return None if r is None else not r
        return None

    return cmp


def mk_vt(label, signed, width, groups=("PURE",), origin=None):
    return AObj(
        "ValueType",
        {
            "_signed": signed,
            "_bit_width": width,
            "group": FlagV("VTGroup", frozenset(groups)),
            "format": None,
            "external_type": None,
        },
        label=label,
        origin=origin or label,
    )


def vt_sig(interp, vt):
    """(signed, width) of an abstract ValueType, read through the class' own properties."""
    if not isinstance(vt, AObj) or vt.cls != "ValueType":
        return ("?", to_text(vt))
    return (vt.fields.get("_signed"), vt.fields.get("_bit_width"))


def mk_pure(label, vt=None, cls="Pure", fields=None):
    """Opaque operand: method calls become holes '<label.method()>', value_type is a real abstract ValueType."""
    f = {"value_type": vt} if vt is not None else {}
    f.update(fields or {})
    return AObj(cls, f, label=label, origin=label, opaque=True)


def fn_where(idx, fi) -> str:
    try:
        return f"{fi.path.relative_to(idx.repo)}:{fi.node.lineno}"
    except Exception:
        return "?"


def outcome_text(o):
    if o.kind == "raise":
        return f"RAISE {o.value}"
    return to_text(o.value)


def decisions_text(o):
    return " & ".join(f"{'' if v else 'not '}({t})" for t, v in o.decisions) or "-"
