"""C05 - statements take effect in source order under exactly C's conditions."""
from __future__ import annotations

import ast

from oracles import tables as O
from sa.absint import AObj, EnumV, FlagV, Interp, Opaque, Tok, to_text
from sa.cbmodel import Runner
from sa.larkmodel import get_grammar, transformer_callbacks
from sa.pyindex import get_index
from sa.report import PROP_ASSUMPTIONS, PROP_EXPLANATION, rule
from sa.template import normalise

from .c02 import ctor, lab, members_by_value, run_il_exec
from .common import fn_where, interval_compare, mk_pure, mk_vt, outcome_text

PROP_EXPLANATION["C05"] = (
    "The role of every grammar child (condition, then, else, init, step, body) is taken from the production, followed through the "
    "callback into the constructor parameters of Branch/ForLoop/Sequence/Assignment (abstract interpretation of the callback), and "
    "from there into the holes of the emitted BRANCH/REPEAT/SEQN/SETL/WRITE_REG templates; sequence builders are checked to be "
    "order preserving; the compound-assignment table is extracted per operator."
)


def split_top(s):
    parts, depth, cur = [], 0, ""
    for ch in s:
        if ch == "(":
            depth += 1
        elif ch == ")":
            depth -= 1
        if ch == "," and depth == 0:
            parts.append(cur)
            cur = ""
        else:
            cur += ch
    parts.append(cur)
    return parts


def origin(h: str) -> str:
    """the grammar child a conversion-history term derives its value from"""
    while True:
        if h.startswith("Promo(") and h.endswith(")"):
            h = h[6:-1]
        elif h.startswith("Conv(") and h.endswith(")"):
            h = split_top(h[5:-1])[-1]
        elif h.startswith("Common(") and h[-2:] in (".0", ".1"):
            h = split_top(h[7:-3])[int(h[-1])]
        else:
            return h


def eff(r, label):
    return r.pure(label, cls="Effect")


def seq_effects(node):
    """effects list handed to an abstract Sequence node (labels)."""
    e = ctor(node, "effects")
    if isinstance(e, list):
        return [lab(x) for x in e]
    return [lab(e)]


def roles_from_grammar(gm, rule, skeleton_starts):
    for a in gm.rules.get(rule, []):
        if [s[0] for s in a.symbols][: len(skeleton_starts)] == skeleton_starts:
            yield a


@rule("R05.1", "C05", "role -> sink dataflow: condition/then/else of `if`, init/condition/step/body of `for` reach the right constructor parameter", min_instances=10)
def r05_1(ctx):
    idx = get_index(ctx.env)
    gm = get_grammar(ctx.env)
    # roles from the productions
    if_alts = {len(a.children): [c.name for c in a.children] for a in gm.rules["selection_stmt"] if a.symbols[0][0] == "IF"}
    ctx.check("if production layout", if_alts == {3: ["IF", "expr", "stmt"], 5: ["IF", "expr", "stmt", "ELSE", "stmt"]}, "[IF, cond, then] / [IF, cond, then, ELSE, else]", str(if_alts), gm.where("selection_stmt"))
    for_alts = sorted([c.name for c in a.children] for a in gm.rules["iteration_stmt"] if a.symbols[0][0] == "FOR")
    ctx.check("for production layout", [x for x in for_alts if len(x) == 5] == [["FOR", "declaration", "expr_stmt", "expr", "stmt"], ["FOR", "expr_stmt", "expr_stmt", "expr", "stmt"]],
              "[FOR, init, cond, step, body]", str(for_alts), gm.where("iteration_stmt"))
    # if without else
    r = Runner(idx)
    fi, outs = r.run("selection_stmt", lambda: [Tok("IF", "if"), r.pure("items[1]"), eff(r, "items[2]")])
    good = [o for o in outs if o.kind != "raise"]
    ctx.need(good, "selection_stmt has no translating path for `if`")
    for o in good:
        v = o.value
        ok = isinstance(v, AObj) and v.cls == "Branch"
        c, t, e = (ctor(v, "cond"), ctor(v, "then"), ctor(v, "otherwise")) if ok else (None, None, None)
        shape = f"cond={lab(c)}, then={t.cls if isinstance(t, AObj) else lab(t)}{seq_effects(t) if isinstance(t, AObj) and t.cls == 'Sequence' else ''}, else={e.cls if isinstance(e, AObj) else lab(e)}"
        ctx.check("if: condition/then wiring, empty else", ok and lab(c) == "items[1]" and isinstance(t, AObj) and t.cls == "Sequence" and seq_effects(t) == ["items[2]"] and isinstance(e, AObj) and e.cls == "Empty",
                  "Branch(cond=items[1], then=Sequence([items[2]]), otherwise=Empty)", shape, fn_where(idx, fi))
    # if / else
    r = Runner(idx)
    fi, outs = r.run("selection_stmt", lambda: [Tok("IF", "if"), r.pure("items[1]"), [eff(r, "items[2].0"), eff(r, "items[2].1")], Tok("ELSE", "else"), eff(r, "items[4]")])
    good = [o for o in outs if o.kind != "raise"]
    ctx.need(good, "selection_stmt has no translating path for `if/else`")
    for o in good:
        v = o.value
        ok = isinstance(v, AObj) and v.cls == "Branch"
        c, t, e = (ctor(v, "cond"), ctor(v, "then"), ctor(v, "otherwise")) if ok else (None, None, None)
        tt = seq_effects(t) if isinstance(t, AObj) and t.cls == "Sequence" else lab(t)
        ee = seq_effects(e) if isinstance(e, AObj) and e.cls == "Sequence" else lab(e)
        ctx.check("if/else: then and else arms wired to their own sides, statements in order", ok and lab(c) == "items[1]" and tt == ["items[2].0", "items[2].1"] and ee == ["items[4]"],
                  "Branch(items[1], Sequence([items[2]...]), Sequence([items[4]]))", f"cond={lab(c)}, then={tt}, else={ee}", fn_where(idx, fi))
    r = Runner(idx)
    fi, outs = r.run("selection_stmt", lambda: [Tok("SWITCH", "switch"), r.pure("items[1]"), eff(r, "items[2]")])
    ctx.check("switch is rejected", all(o.kind == "raise" for o in outs), "raises", " | ".join(outcome_text(o)[:40] for o in outs), fn_where(idx, fi))
    # for loop
    r = Runner(idx)
    fi, outs = r.run("iteration_stmt", lambda: [Tok("FOR", "for"), eff(r, "items[1]"), r.pure("items[2]"), eff(r, "items[3]"), [eff(r, "items[4].0"), eff(r, "items[4].1")]])
    good = [o for o in outs if o.kind != "raise"]
    ctx.need(good, "iteration_stmt has no translating path for `for`")
    for o in good:
        v = o.value
        ok = isinstance(v, AObj) and v.cls == "Sequence"
        outer = ctor(v, "effects") if ok else None
        desc = "?"
        good_shape = False
        if ok and isinstance(outer, list) and len(outer) == 2 and isinstance(outer[1], AObj) and outer[1].cls == "ForLoop":
            loop = outer[1]
            comp = ctor(loop, "compound")
            body = seq_effects(comp) if isinstance(comp, AObj) and comp.cls == "Sequence" else lab(comp)
            desc = f"[{lab(outer[0])}, ForLoop(control={lab(ctor(loop, 'control'))}, compound={body}, flushed={comp.fields.get('flushed') if isinstance(comp, AObj) else None})]"
            good_shape = lab(outer[0]) == "items[1]" and lab(ctor(loop, "control")) == "items[2]" and body == ["items[4].0", "items[4].1", "items[3]"] and comp.fields.get("flushed") == "SEQ_THEN_HYB"
        else:
            desc = lab(v)
        ctx.check("for: init once before the loop; REPEAT(cond, body ++ [step]); step effects after the body", good_shape,
                  "Sequence([items[1], ForLoop(items[2], Sequence(items[4] ++ [items[3]]) flushed SEQ_THEN_HYB)])", desc, fn_where(idx, fi))
        ctx.check("for: the whole loop statement flushes pending effects before it", isinstance(v, AObj) and v.fields.get("flushed") == "HYB_THEN_SEQ", "HYB_THEN_SEQ", str(v.fields.get("flushed") if isinstance(v, AObj) else None), fn_where(idx, fi))
    for n in (3, 4, 6):
        r = Runner(idx)
        fi, outs = r.run("iteration_stmt", lambda: [Tok("FOR", "for")] + [eff(r, f"items[{k}]") for k in range(1, n)])
        ctx.check(f"for with {n} children is rejected", all(o.kind == "raise" for o in outs), "raises", " | ".join(outcome_text(o)[:40] for o in outs), fn_where(idx, fi))
    for kw, tok in (("while", "WHILE"), ("do", "DO")):
        r = Runner(idx)
        fi, outs = r.run("iteration_stmt", lambda: [Tok(tok, kw), r.pure("items[1]"), eff(r, "items[2]")])
        ctx.check(f"{kw} loop is rejected", all(o.kind == "raise" for o in outs), "raises", " | ".join(outcome_text(o)[:40] for o in outs), fn_where(idx, fi))
    # templates
    def bool_vt(isb, signed=False, width=32):
        return mk_vt("tc", signed, 1 if isb else width, ("PURE", "BOOL") if isb else ("PURE",))
    from .c10 import truth_test_width_independence

    truth_test_width_independence(ctx)  # a condition of any scalar type is tested whole: value != 0, no narrowing in front of the test
    for isb in (True, False):
        beta = "<c.il_read()>" if isb else "NON_ZERO(<c.il_read()>)"
        fi2, outs = run_il_exec(idx, "Branch", lambda: {"cond": mk_pure("c", bool_vt(isb)), "then": mk_pure("t", cls="Effect"), "otherwise": mk_pure("e", cls="Effect")}, method="il_write")
        obs = " | ".join(sorted({normalise(outcome_text(o)) for o in outs}))
        ctx.check(f"Branch.il_write[cond {'bool' if isb else 'bv'}]", obs == f"BRANCH({beta}, <t.effect_var()>, <e.effect_var()>)", f"BRANCH({beta}, then, otherwise)", obs, fn_where(idx, fi2))
        fi2, outs = run_il_exec(idx, "ForLoop", lambda: {"control": mk_pure("c", bool_vt(isb)), "compound": mk_pure("body", cls="Effect")}, method="il_write")
        obs = " | ".join(sorted({normalise(outcome_text(o)) for o in outs}))
        ctx.check(f"ForLoop.il_write[cond {'bool' if isb else 'bv'}]", obs == f"REPEAT({beta}, <body.effect_var()>)", f"REPEAT({beta}, body)", obs, fn_where(idx, fi2))
    branch_emits_both_arms(ctx)


def seqn_leaves(text: str):
    """in-order members of a (possibly nested) SEQN(n, a, b, SEQN(m, ...)) text built over <eK.effect_var()> holes; second result: the
    SEQN nodes whose count differs from their number of operands"""
    import re as _re
    toks = _re.findall(r"SEQN\(|\)|,|<e\d+\.effect_var\(\)>|\d+|[^\s,()<>]+", text)
    pos = 0
    bad = []

    def parse():
        nonlocal pos
        t = toks[pos]
        if t == "SEQN(":
            pos += 1
            cnt = toks[pos]
            pos += 1
            ops = []
            while pos < len(toks) and toks[pos] == ",":
                pos += 1
                ops.append(parse())
            if pos < len(toks) and toks[pos] == ")":
                pos += 1
            if not cnt.isdigit() or int(cnt) != len(ops):
                bad.append(f"SEQN({cnt}, ...) with {len(ops)} operands")
            return [x for o in ops for x in o]
        pos += 1
        m = _re.fullmatch(r"<(e\d+)\.effect_var\(\)>", t)
        return [m.group(1)] if m else [t]

    out = []
    try:
        while pos < len(toks):
            out += parse()
    except IndexError:
        bad.append("unbalanced text")
    return out, bad


@rule("R05.2", "C05", "Sequence keeps its effects in argument order (dropping only Empty) and emits SEQN(n, e1..en) in that order", min_instances=6)
def r05_2(ctx):
    idx = get_index(ctx.env)
    fi = idx.func("Sequence.__init__")

    def build(lst):
        box = {}

        def once(interp):
            objs = []
            for kind, name in lst:
                if kind == "E":
                    objs.append(AObj("Effect", {}, label=name, opaque=True))
                elif kind == "0":
                    objs.append(AObj("Empty", {}, label=name, opaque=True))
                elif kind == "P":
                    objs.append(AObj("Pure", {}, label=name, opaque=True))
                else:
                    objs.append(AObj(kind, {}, label=name, opaque=True))
            s = interp.construct("Sequence", ["n", objs], {})
            box["s"] = s
            return s

        outs = Interp(idx).explore(once)
        return outs, box

    cases = [
        ([("E", "e1"), ("E", "e2"), ("E", "e3")], ["e1", "e2", "e3"]),
        ([("E", "e1"), ("0", "z"), ("E", "e2")], ["e1", "e2"]),
        ([("0", "z"), ("E", "e1")], ["e1"]),
        ([("P", "p"), ("E", "e1"), ("E", "e2")], ["e1", "e2"]),
    ]
    for lst, exp in cases:
        outs, box = build(lst)
        effs = box["s"].fields.get("effects")
        got = [lab(x) for x in effs] if isinstance(effs, list) else lab(effs)
        ctx.check(f"Sequence({[n for _, n in lst]}).effects", got == exp and len(outs) == 1, str(exp), str(got), fn_where(idx, fi))
    # membership does not depend on what kind of effect it is: one instance per effect class of the IR
    eff_classes = sorted(c for c in idx.subclasses("Effect", strict=True) if c != "Empty")
    ctx.need(len(eff_classes) >= 8, f"effect classes of the IR: only {len(eff_classes)} found")
    for cname in eff_classes:
        for lst, exp in (([("E", "e1"), (cname, "x"), ("E", "e2")], ["e1", "x", "e2"]), ([(cname, "x"), (cname, "y")], ["x", "y"])):
            outs, box = build(lst)
            effs = box["s"].fields.get("effects")
            got = [lab(x) for x in effs] if isinstance(effs, list) else lab(effs)
            ctx.check(f"Sequence keeps a {cname} member {[n for _, n in lst]}", got == exp and len(outs) == 1, str(exp), str(got), fn_where(idx, fi))
    outs, box = build([("0", "z"), ("0", "z2")])
    effs = box["s"].fields.get("effects")
    ctx.check("Sequence of only Empty -> one Empty", isinstance(effs, list) and len(effs) == 1 and isinstance(effs[0], AObj) and effs[0].cls == "Empty", "[Empty]", str([lab(x) for x in effs] if isinstance(effs, list) else effs), fn_where(idx, fi))
    outs, box = build([("P", "p"), ("E", "e1")])
    ops = box["s"].fields.get("effect_ops")
    ctx.check("Sequence.effect_ops contains every operand and effect (dependency tracking)", isinstance(ops, list) and sorted(lab(x) for x in ops) == ["e1", "p"], "['e1','p']", str([lab(x) for x in ops] if isinstance(ops, list) else ops), fn_where(idx, fi))
    sequence_emits_every_member(ctx)


def sequence_emits_every_member(ctx):
    """Sequence.il_write names every member once, in order, with consistent SEQN counts - for short and for long sequences"""
    idx = get_index(ctx.env)
    fw = idx.func("Sequence.il_write")
    for n in (1, 2, 3, 4, 7, 8, 9, 10, 15, 16, 17, 18, 33, 64, 65, 126, 127, 128, 129, 253, 254):
        def once(interp, n=n):
            effs = [AObj("Effect", {}, label=f"e{k}", opaque=True) for k in range(1, n + 1)]
            return interp.call_function(fw, [], self_obj=AObj("Sequence", {"effects": effs}, label="self"))
        outs = Interp(idx).explore(once)
        obs = " | ".join(sorted({normalise(outcome_text(o)) for o in outs}))
        exp = "<e1.effect_var()>" if n == 1 else f"SEQN({n}, " + ", ".join(f"<e{k}.effect_var()>" for k in range(1, n + 1)) + ")"
        if n <= 4:
            ctx.check(f"Sequence.il_write[{n} effects]", obs == exp, exp, obs, fn_where(idx, fw))
        else:
            # long sequences: every member exactly once, in order, every SEQN count equal to the number of its operands (nesting allowed)
            leaves, bad = seqn_leaves(obs)
            want = [f"e{k}" for k in range(1, n + 1)]
            miss = [x for x in want if x not in leaves]
            ctx.check(f"Sequence.il_write[{n} effects]: every member is sequenced once, in order", leaves == want and not bad, f"e1 .. e{n}, SEQN counts = operand counts",
                      (f"missing {miss[:4]}" if miss else f"order {leaves[:6]}..." if leaves != want else "") + (f" count mismatch {bad[:2]}" if bad else "") or "ok", fn_where(idx, fw))


@rule("R05.3", "C05", "top level: statements reach the final instruction sequence in source order; pass-through callbacks preserve order", min_instances=5)
def r05_3(ctx):
    from .c06 import r06_3

    r06_3(ctx)  # an expression statement (`i++;`, `f(x);`) takes effect where it stands, not in front of the behaviour
    from .c19 import r19_2

    r19_2(ctx)  # the parts of a compound behaviour keep their statements in source order (text in front of the first marker stays in front)
    idx = get_index(ctx.env)
    r = Runner(idx)
    box = {}

    def args():
        e = [eff(r, f"s{k}") for k in range(4)]
        box["e"] = e
        return [[e[0], [e[1], [e[2]]], r.pure("unused_value"), e[3]], ""]

    def over():
        imm = [eff(r, "imm0"), eff(r, "imm1")]
        return {"imm_set_effect_list": imm, "code_format": Opaque("fmt")}

    fi, outs = r.run("emit_final_seq_return", args, self_over=over, args_list=True, max_runs=64)
    seen = set()
    for o in outs:
        seqs = [e[2] for e in o.events if e[0] == "node" and e[1] == "Sequence"]
        for s in seqs:
            seen.add(str(seq_effects(s)))
    ctx.check("emit_final_seq_return: immediates' setters, then statements in source order", seen == {str(["imm0", "imm1", "s0", "s1", "s2", "s3"])},
              "[imm0, imm1, s0, s1, s2, s3]", str(sorted(seen)), fn_where(idx, fi))
    # left-over pending effects come after the immediates and before the statements (their documented position)
    r = Runner(idx)
    def over2():
        s = {"imm_set_effect_list": [eff(r, "imm0")], "code_format": Opaque("fmt")}
        return s
    def args2():
        r.self_obj = None
        return [[eff(r, "s0")], ""]
    fi, outs = r.run("emit_final_seq_return", args2, self_over=lambda: {"imm_set_effect_list": [eff(r, "imm0")], "code_format": Opaque("fmt"),
                                                                        "il_ops_holder": AObj("ILOpsHolder", {"hybrid_effect_dict": {"h_tmp0": eff(r, "left0"), "h_tmp1": eff(r, "left1")}, "hybrid_op_count": 2}, label="holder", opaque=True)},
                     args_list=True, max_runs=64)
    seen = set()
    for o in outs:
        for e in o.events:
            if e[0] == "node" and e[1] == "Sequence":
                seen.add(str(seq_effects(e[2])))
    ctx.check("emit_final_seq_return: left-over pending effects keep their creation order", seen == {str(["imm0", "left0", "left1", "s0"])}, "[imm0, left0, left1, s0]", str(sorted(seen)), fn_where(idx, fi))
    # pass-through callbacks
    r = Runner(idx)
    fi, outs = r.run("block_item_list", lambda: [eff(r, "a"), eff(r, "b"), eff(r, "c")])
    got = [[lab(x) for x in o.value] if isinstance(o.value, list) else lab(o.value) for o in outs]
    ctx.check("block_item_list passes its items through in order", got == [["a", "b", "c"]], "[a, b, c]", str(got), fn_where(idx, fi))
    r = Runner(idx)
    fi, outs = r.run("block_item", lambda: [eff(r, "a")])
    ctx.check("block_item returns its statement", [lab(o.value) for o in outs] == ["a"], "a", str([lab(o.value) for o in outs]), fn_where(idx, fi))
    fl = idx.func("flatten_list")
    outs = Interp(idx).explore(lambda i: i.call_function(fl, [[1, [2, [3, 4]], "ab", [], 5]]))
    ctx.check("flatten_list is an order-preserving flattening", [o.value for o in outs] == [[1, 2, 3, 4, "ab", 5]], "[1, 2, 3, 4, 'ab', 5]", str([o.value for o in outs]), fn_where(idx, fl))
    # fbody hands its items to emit_final_seq_return unchanged
    fb = idx.func("RZILTransformer.fbody")
    calls = [n for n in ast.walk(fb.node) if isinstance(n, ast.Call) and isinstance(n.func, ast.Attribute) and n.func.attr == "emit_final_seq_return"]
    ctx.check("fbody sequences its own items", len(calls) == 1 and ast.unparse(calls[0].args[0]) == "items", "emit_final_seq_return(items, res)", ast.unparse(calls[0]) if calls else "missing", fn_where(idx, fb))


@rule("R05.4", "C05", "compound assignment table: op= -> operator node, operands (target, source) in that order", min_instances=10)
def r05_4(ctx):
    idx = get_index(ctx.env)
    am = members_by_value(idx, "AssignmentType")
    for op, (ncls, sym) in O.COMPOUND.items():
        ctx.need(op in am, f"AssignmentType has no member spelled {op!r}")
        r = Runner(idx)
        fi, outs = r.run("assignment_expr", lambda: [r.pure("items[0]", vt=mk_vt("t0", True, 32)), Tok("ASSIGN_OP", op), r.pure("items[2]", vt=mk_vt("t2", False, 32))])
        good = [o for o in outs if o.kind != "raise"]
        ctx.need(good, f"assignment_expr[{op}] has no translating path")
        for o in good:
            v = o.value
            src = v.fields.get("src") if isinstance(v, AObj) else None
            node = src
            # peel the conversion back to the target type
            if isinstance(node, AObj) and (node.label or "").startswith("Conv("):
                inner = [e[2] for e in o.events if e[0] == "node" and e[1] in ("ArithmeticOp", "BitOp")]
                node = inner[-1] if inner else node
            ok = isinstance(node, AObj) and node.cls == ncls
            opt = (ctor(node, "arith_type") or ctor(node, "op_type")) if ok else None
            a, b = (lab(ctor(node, "a")), lab(ctor(node, "b"))) if ok else ("?", "?")
            a_ok = origin(a) == "items[0]"
            b_ok = origin(b) == "items[2]"
            ctx.check(f"compound assignment {op}", ok and isinstance(opt, EnumV) and opt.value == sym and a_ok and b_ok,
                      f"{ncls}[{sym}](target, source)", f"{node.cls if isinstance(node, AObj) else lab(node)}[{opt.value if isinstance(opt, EnumV) else opt}](a={a}, b={b})", fn_where(idx, fi))
    from .c03 import assignment_conversion_checks

    assignment_conversion_checks(ctx)  # "with the C result converted to the target type": the operation type of every op=
    signed_division_opcode(ctx)
    gm = get_grammar(ctx.env)
    from .c17 import term_literals
    lits = term_literals(gm, "ASSIGN_OP") or set()
    ctx.check("AssignmentType spellings = grammar's ASSIGN_OP", set(am) == lits, str(sorted(lits)), str(sorted(am)), gm.where("ASSIGN_OP"))


@rule("R05.5", "C05", "Assignment.il_write: exactly one write, to the destination: SETL(dest, src) / WRITE_REG(bundle, dest op, src)", min_instances=3)
def r05_5(ctx):
    from .c12 import immediate_read_protocol

    immediate_read_protocol(ctx)  # a statement that copies an immediate sees what earlier statements stored in it
    from .c03 import r03_3

    r03_3(ctx)  # "with the C result converted to the target type": every write - variable, register, memory - goes through the conversion to its target
    idx = get_index(ctx.env)
    et = idx.enum_table("EffectType")
    for kind, dcls, exp in (("SETL", "LocalVar", "SETL(<dest.vm_id()>, <src.il_read()>)"), ("SETG", "Register", "WRITE_REG(bundle, <dest.get_op_var()>, <src.il_read()>)")):
        fi, outs = run_il_exec(idx, "Assignment", lambda: {"type": EnumV("EffectType", kind, et[kind]), "dest": mk_pure("dest", cls=dcls), "src": mk_pure("src")}, method="il_write")
        obs = " | ".join(sorted({normalise(outcome_text(o)) for o in outs}))
        ctx.check(f"Assignment.il_write[{kind}]", obs == exp, exp, obs, fn_where(idx, fi))
    # effect type follows the destination kind
    fi = idx.func("Assignment.__init__")
    pt = idx.enum_table("PureType")
    for pk, exp in (("LOCAL", "SETL"), ("GLOBAL", "SETG"), ("EXEC", "RAISE")):
        def once(interp, pk=pk):
            dest = mk_pure("dest", mk_vt("td", True, 32), fields={"type": EnumV("PureType", pk, pt[pk])})
            return interp.construct("Assignment", ["n", EnumV("AssignmentType", "ASSIGN", "="), dest, mk_pure("src")], {})
        outs = Interp(idx).explore(once)
        obs = {("RAISE" if o.kind == "raise" else (o.value.fields.get("type").member if isinstance(o.value.fields.get("type"), EnumV) else "?")) for o in outs}
        ctx.check(f"Assignment effect type for {pk} destination", obs == {exp}, exp, str(sorted(obs)), fn_where(idx, fi))
    # const destinations are rejected
    def once(interp):
        dest = mk_pure("dest", mk_vt("td", True, 32, ("PURE", "CONST")), fields={"type": EnumV("PureType", "LOCAL", pt["LOCAL"])})
        return interp.construct("Assignment", ["n", EnumV("AssignmentType", "ASSIGN", "="), dest, mk_pure("src")], {})
    outs = Interp(idx).explore(once)
    ctx.check("assignment to a const-qualified destination is rejected", all(o.kind == "raise" for o in outs), "raises", " | ".join(outcome_text(o)[:40] for o in outs), fn_where(idx, fi))


@rule("R05.6", "C05", "chained assignment: the inner assignment is sequenced before the outer one", min_instances=1)
def r05_6(ctx):
    idx = get_index(ctx.env)
    r = Runner(idx)
    am = members_by_value(idx, "AssignmentType")

    def chained():
        inner = AObj("Assignment", {"src": r.pure("inner.src"), "dest": r.pure("inner.dest"), "assign_type": am["="]}, label="items[2]", opaque=True)
        return [r.pure("items[0]", vt=mk_vt("t0", True, 32)), Tok("ASSIGN_OP", "="), inner]

    fi, outs = r.run("assignment_expr", chained)
    good = [o for o in outs if o.kind != "raise"]
    ctx.need(good, "assignment_expr has no translating path for a chained assignment")
    for o in good:
        v = o.value
        ok = isinstance(v, AObj) and v.cls == "Sequence"
        effs = seq_effects(v) if ok else [lab(v)]
        ctx.check("a = b = e order", ok and len(effs) == 2 and effs[0] == "items[2]" and effs[1].startswith("Assignment("), "[inner assignment, outer assignment]", str([e[:40] for e in effs]), fn_where(idx, fi))
    # ... and, being sequenced after it, the outer assignment must not evaluate the inner source expression again (it may read
    # the inner target): `b = a = a + b`
    r = Runner(idx)

    def chained_var():
        inner = AObj("Assignment", {"src": r.pure("inner.src", cls="ArithmeticOp"), "dest": r.pure("inner.dest", cls="LocalVar"), "assign_type": am["="]}, label="items[2]", opaque=True)
        return [r.pure("items[0]", vt=mk_vt("t0", True, 32)), Tok("ASSIGN_OP", "="), inner]

    fi, outs = r.run("assignment_expr", chained_var, may_subclass=True)
    for o in [o for o in outs if o.kind != "raise"]:
        assigns = [e[2] for e in o.events if e[0] == "node" and e[1] == "Assignment"]
        srcs = sorted({origin(lab(a.fields.get("src"))) for a in assigns})
        ctx.check("a = b = e: the outer assignment takes the value of the variable b, not a second evaluation of e", srcs == ["inner.dest"], "source originates from inner.dest", str(srcs), fn_where(idx, fi))


@rule("R05.7", "C05", "statements without effect produce Empty / nothing else; stale pending effects never enter the next behaviour", min_instances=4)
def r05_7(ctx):
    idx = get_index(ctx.env)
    for cb, items in (("compound_stmt", []), ("expr_stmt", [])):
        r = Runner(idx)
        fi, outs = r.run(cb, lambda items=items: list(items))
        kinds = {o.value.cls if isinstance(o.value, AObj) else outcome_text(o) for o in outs}
        ctx.check(f"{cb} (empty) produces Empty", kinds == {"Empty"}, "Empty", str(kinds), fn_where(idx, fi))
    r = Runner(idx)
    fi, outs = r.run("declaration", lambda: [Tok("INTEGER", "int"), "x"])
    kinds = {o.value.cls if isinstance(o.value, AObj) else outcome_text(o) for o in outs}
    ctx.check("declaration without initialiser produces Empty (plus the variable)", kinds == {"Empty"}, "Empty", str(kinds), fn_where(idx, fi))
    fe = idx.func("Empty.il_write")
    outs = Interp(idx).explore(lambda i: i.call_function(fe, [], self_obj=AObj("Empty", {}, label="self")))
    ctx.check("Empty emits EMPTY()", [o.value for o in outs] == ["EMPTY()"], "EMPTY()", str([o.value for o in outs]), fn_where(idx, fe))
    from .c14 import r14_1

    r14_1(ctx)


@rule("R05.8", "C05", "nested if: an else belongs to the nearest if that has none (grammar alternative order decides the ambiguity)", min_instances=2)
def r05_8(ctx):
    from .c17 import dangling_else_checks

    dangling_else_checks(ctx)


@rule("R05.9", "C05", "statements inside a statement-expression arm of ?: take effect only under the arm's condition", min_instances=4)
def r05_9(ctx):
    from .c06 import ternary_guard_checks

    ternary_guard_checks(ctx)


@rule("R05.10", "C05", "an effect's operand list reaches below every kind of operand node (what decides whether a pending side effect is sequenced in front of its consumer or left over for the instruction start)", min_instances=10)
def r05_10(ctx):
    from .c06 import op_list_completeness, temporary_name_is_its_key

    op_list_completeness(ctx)
    temporary_name_is_its_key(ctx)  # ... and whether the pending entry is found at all: it is looked up by the temporary's registered name


def branch_emits_both_arms(ctx):
    """whatever kind of value the condition is (a literal, a folded truth value, a register ...), the emitted BRANCH / REPEAT
    references the effects it was given: an arm that is declared but not referenced never runs"""
    idx = get_index(ctx.env)
    fb = idx.func("Branch.il_write")
    fl = idx.func("ForLoop.il_write")
    kinds = sorted(c for c in idx.subclasses("Pure") if c in idx.classes)
    ctx.need(len(kinds) >= 15, f"value classes: only {len(kinds)} found")
    for cname in kinds:
        for val in (0, 1):
            _, outs = run_il_exec(idx, "Branch", lambda: {"cond": mk_pure("c", mk_vt("tc", False, 32), cls=cname, fields={"value": val}), "then": mk_pure("t", cls="Effect"), "otherwise": mk_pure("e", cls="Effect")}, method="il_write")
            obs = sorted({normalise(outcome_text(o)) for o in outs})
            ok = bool(obs) and all(o.startswith("BRANCH(") and "<t.effect_var()>" in o and "<e.effect_var()>" in o for o in obs)
            ctx.check(f"Branch.il_write references both arms [condition is a {cname} holding {val}]", ok, "BRANCH(<cond>, <t.effect_var()>, <e.effect_var()>)", " | ".join(obs)[:120], fn_where(idx, fb), nontrivial=(cname in ("Number", "Bool", "LetVar")))
        _, outs = run_il_exec(idx, "ForLoop", lambda: {"control": mk_pure("c", mk_vt("tc", False, 32), cls=cname, fields={"value": 0}), "compound": mk_pure("body", cls="Effect")}, method="il_write")
        obs = sorted({normalise(outcome_text(o)) for o in outs})
        ok = bool(obs) and all(o.startswith("REPEAT(") and "<body.effect_var()>" in o for o in obs)
        ctx.check(f"ForLoop.il_write references its body [condition is a {cname}]", ok, "REPEAT(<cond>, <body.effect_var()>)", " | ".join(obs)[:120], fn_where(idx, fl), nontrivial=False)


def statement_operand_kind_independence(ctx):
    """what a statement-level callback builds (assignment, store, load, jump, return, if, for, declaration with initialiser)
    does not depend on what kind of value its source / address / condition operand is"""
    idx = get_index(ctx.env)
    classes = sorted(c for c in set(idx.subclasses("Pure")) | set(idx.subclasses("Hybrid")) if c in idx.classes)
    ctx.need(len(classes) >= 15, f"value classes: only {len(classes)} found")
    W = lambda n, s=True, w=32: mk_vt(n, s, w)
    specs = [
        ("assignment_expr[=] source", "assignment_expr", lambda r, x: [r.pure("items[0]", vt=W("t0", True, 64), cls="LocalVar"), Tok("ASSIGN_OP", "="), x]),
        ("assignment_expr[+=] source", "assignment_expr", lambda r, x: [r.pure("items[0]", vt=W("t0", True, 64), cls="LocalVar"), Tok("ASSIGN_OP", "+="), x]),
        ("assignment_expr[<<=] source", "assignment_expr", lambda r, x: [r.pure("items[0]", vt=W("t0", True, 64), cls="LocalVar"), Tok("ASSIGN_OP", "<<="), x]),
        ("init_declarator source", "init_declarator", lambda r, x: [Tok("IDENTIFIER", "v"), x]),
        ("mem_store data", "mem_store", lambda r, x: [Tok("MEM_STORE", "mem_store_"), Tok("SIGN_TYPE", "u"), Tok("BIT_WIDTH", "64"), r.pure("items[3]", vt=W("t3", False, 32)), x]),
        ("mem_store address", "mem_store", lambda r, x: [Tok("MEM_STORE", "mem_store_"), Tok("SIGN_TYPE", "u"), Tok("BIT_WIDTH", "64"), x, r.pure("items[4]", vt=W("t4", False, 64))]),
        ("mem_load address", "mem_load", lambda r, x: [Tok("MEM_LOAD", "mem_load_"), Tok("SIGN_TYPE", "s"), Tok("BIT_WIDTH", "16"), x]),
        ("jump target", "jump", lambda r, x: [Tok("JUMP", "JUMP"), x]),
        ("return value", "jump_stmt", lambda r, x: [Tok("RETURN", "return"), x]),
        ("if condition", "selection_stmt", lambda r, x: [Tok("IF", "if"), x, [eff(r, "s0")]]),
        ("for condition", "iteration_stmt", lambda r, x: [Tok("FOR", "for"), eff(r, "init"), x, eff(r, "step"), [eff(r, "body")]]),
    ]

    def run(cb, mk, cls):
        r = Runner(idx)
        r.fold = False

        def items():
            x = r.pure("X", vt=mk_vt("tx", True, 8), cls=cls)
            r.stubs[("X", "get_name")] = "xname"
            r.stubs[("X", "pure_var")] = "xname"
            return mk(r, x)

        fi, outs = r.run(cb, items)
        res = set()
        for o in outs:
            if o.kind == "raise":
                res.add("RAISE")
                continue
            nodes = [e[2] for e in o.events if e[0] == "node"]
            res.add(" ; ".join(n.cls + "(" + ", ".join(f"{k}={lab(x)}" for k, x in sorted(n.fields.get("__ctor__", {}).items()) if k != "name") + ")" for n in nodes) + " -> " + lab(o.value)[:40])
        return fi, res

    for key, cb, mk in specs:
        fi, base = run(cb, mk, "Pure")
        ctx.need(base and base != {"RAISE"}, f"{key}: no translating path for a plain operand")
        differing = []
        for c in classes:
            _, got = run(cb, mk, c)
            if got != base:
                differing.append(f"operand a {c}: {sorted(got)[0][:90]}")
        ctx.check(f"{key}: every kind of operand is treated alike", not differing, f"as for a plain operand: {sorted(base)[0][:80]}", "; ".join(differing[:2]) or "ok", fn_where(idx, fi))


@rule("R05.11", "C05", "operand-kind independence of the statement callbacks", min_instances=10)
def r05_11(ctx):
    statement_operand_kind_independence(ctx)


def signed_division_opcode(ctx):
    """`/` and `%` on operands whose common type is signed are the SIGNED operations (C11 6.5.5: the quotient truncates toward zero,
    the remainder has the sign of the dividend); RzIL's DIV / MOD are the unsigned bitvector operations, SDIV / SMOD the signed ones"""
    idx = get_index(ctx.env)
    mem = members_by_value(idx, "ArithmeticType")
    for op, (u, s_) in (("/", ("DIV", "SDIV")), ("%", ("MOD", "SMOD"))):
        ctx.need(op in mem, f"ArithmeticType has no member spelled {op!r}")
        for signed in (False, True):
            fi, outs = run_il_exec(idx, "ArithmeticOp", lambda: {"arith_type": mem[op], "ops": [mk_pure("a", mk_vt("ta", signed, 32)), mk_pure("b", mk_vt("tb", signed, 32))]})
            obs = " | ".join(sorted({normalise(outcome_text(o)) for o in outs}))
            exp = f"{s_ if signed else u}(<a.il_read()>, <b.il_read()>)"
            ctx.check(f"ArithmeticOp.il_exec[{op}, {'signed' if signed else 'unsigned'} operands]", obs == exp, exp, obs, fn_where(idx, fi))


@rule("R05.12", "C05", "a for loop evaluates its condition before every iteration: an operation below the condition (at any depth) cannot be hoisted in front of the loop - such a loop is rejected; and two operations of one behaviour never share a temporary (a re-used name makes a later `?:` guard the statements of an earlier one)", min_instances=6)
def r05_12(ctx):
    from .c06 import r06_4, r06_6

    r06_4(ctx)
    r06_6(ctx)


@rule("R05.13", "C05", "a later statement sees what an earlier one wrote: read-write operands (single and pair) are read afresh at every mention, and `x++` / `x--` update the variable in its own width", min_instances=10)
def r05_13(ctx):
    from .c03 import postfix_node_typing
    from .c12 import r12_5

    r12_5(ctx)
    postfix_node_typing(ctx)
