"""C04 - common-type and promotion rules are exactly the C11 table (fully structural, exhaustive)."""
from __future__ import annotations

import ast

from sa.absint import AObj, Interp, Sym, to_text
from sa.pyindex import free_module_state, get_index
from sa.report import PROP_ASSUMPTIONS, PROP_EXPLANATION, rule
from sa.symex import U

from .common import IntervalSym, fn_where, interval_compare, mk_vt, outcome_text

PROP_EXPLANATION["C04"] = (
    "c11_cast/promoted_type/ValueType.__eq__ are interpreted abstractly over the PREDICATE domain: signs are "
    "enumerated (4 combinations), widths are symbols that can only be compared/copied, and the three width orders "
    "(<, =, >) are enumerated; that is the complete input space because the functions touch widths only through "
    "comparison and copy (this premise is itself checked: arithmetic on a width is reported). Stores to the argument "
    "objects are tracked through aliases (ownership)."
)
PROP_ASSUMPTIONS["C04"] = ["rank = bit width (as the property states)"]


def oracle_common(sa, sb, order):
    """C11 6.3.1.8 with rank = width. Returns ((sign_a', W), (sign_b', W)) with W in {'Wa','Wb'}."""
    if sa == sb:
        w = "Wb" if order == "<" else "Wa"
        return (sa, w)
    # mixed
    u_w, s_w = ("Wb", "Wa") if sa else ("Wa", "Wb")  # unsigned operand's width, signed operand's width
    # relation unsigned ? signed
    rel_us = {"<": ">", ">": "<", "=": "="}[order] if sa else order
    if rel_us in (">", "="):
        return (False, u_w)
    return (True, s_w)


def norm_w(w, order):
    t = to_text(w).strip("<>")
    if order == "=" and t == "Wb":
        return "Wa"
    return t


def run_c11(idx, sa, sb, order, groups=("PURE",)):
    fi = idx.func("c11_cast")
    res = {}

    def once(interp):
        a = mk_vt("a", sa, Sym("Wa"), groups)
        b = mk_vt("b", sb, Sym("Wb"), groups)
        res["a"], res["b"] = a, b
        return interp.call_function(fi, [a, b])

    interp = Interp(idx, sym_compare=interval_compare({("Wa", "Wb"): order}))
    outs = interp.explore(once)
    return fi, outs, res


@rule("R04.1", "C04", "c11_cast decision table = C11 usual arithmetic conversions (12 cases), total, deterministic", min_instances=12)
def r04_1(ctx):
    idx = get_index(ctx.env)
    for sa in (True, False):
        for sb in (True, False):
            for order in ("<", "=", ">"):
                fi, outs, objs = run_c11(idx, sa, sb, order)
                exp_s, exp_w = oracle_common(sa, sb, order)
                exp_w = "Wa" if (order == "=" and exp_w == "Wb") else exp_w
                expected = f"both ({'s' if exp_s else 'u'},{exp_w})"
                key = f"c11_cast[a={'s' if sa else 'u'},b={'s' if sb else 'u'},Wa{order}Wb]"
                observed = []
                for o in outs:
                    if o.kind == "raise":
                        observed.append(f"RAISE {o.value}")
                        continue
                    v = o.value
                    if not (isinstance(v, (tuple, list)) and len(v) == 2 and all(isinstance(x, AObj) for x in v)):
                        observed.append(f"non-pair {to_text(v)}")
                        continue
                    sigs = []
                    for x in v:
                        s = x.fields.get("_signed")
                        w = norm_w(x.fields.get("_bit_width"), order)
                        sigs.append(f"({'s' if s is True else 'u' if s is False else to_text(s)},{w})")
                    observed.append(f"both {sigs[0]}" if sigs[0] == sigs[1] else f"{sigs[0]} / {sigs[1]}")
                obs = " | ".join(sorted(set(observed)))
                ctx.check(key, obs == expected, expected, obs, fn_where(idx, fi))
                # determinism: the case must not depend on anything but sign and width order
                ctx.check(key + " deterministic", len(set(observed)) == 1, "single outcome", f"{len(set(observed))} outcomes: {obs}", fn_where(idx, fi))


@rule("R04.6", "C04", "the type rules are total over every integer type the compiler builds: whatever further flags the type carries (none at all for the C type `bool`, BOOL, CONST, HYBRID_LVAR), the result is the table entry for its sign and width", min_instances=20)
def r04_6(ctx):
    idx = get_index(ctx.env)
    fc = idx.func("c11_cast")
    fp = idx.func("promoted_type")
    groups = [("no flag (C type bool)", ()), ("PURE", ("PURE",)), ("PURE|BOOL", ("PURE", "BOOL")), ("PURE|CONST", ("PURE", "CONST")), ("PURE|HYBRID_LVAR", ("PURE", "HYBRID_LVAR")), ("CONST", ("CONST",))]
    for gname, g, pos in [(gn, g_, pos) for gn, g_ in groups for pos in ("a", "b", "both")]:
        for (sa, wa), (sb, wb) in (((False, 1), (True, 32)), ((True, 32), (False, 1)), ((False, 8), (False, 8)), ((True, 64), (False, 32))):
            ga, gb = (g if pos in ("a", "both") else ("PURE",)), (g if pos in ("b", "both") else ("PURE",))
            if pos != "a" and g == ("PURE",):
                continue
            outs = Interp(idx).explore(lambda i: i.call_function(fc, [mk_vt("a", sa, wa, ga), mk_vt("b", sb, wb, gb)]))
            # table entry without promotion (c11_cast is the conversion step only)
            if sa == sb:
                e = (sa, max(wa, wb))
            else:
                (su, wu), (ss, ws) = ((sa, wa), (sb, wb)) if not sa else ((sb, wb), (sa, wa))
                e = (False, wu) if wu >= ws else (True, ws)
            got = set()
            for o in outs:
                if o.kind == "raise":
                    got.add(f"RAISE {o.value}")
                else:
                    got.add(tuple((x.fields.get("_signed"), x.fields.get("_bit_width")) for x in o.value) if isinstance(o.value, (tuple, list)) else to_text(o.value))
            ctx.check(f"c11_cast total [{gname} on {pos}: a ({'s' if sa else 'u'},{wa}); b ({'s' if sb else 'u'},{wb})]", got == {(e, e)}, str((e, e)), str(sorted(map(str, got))), fn_where(idx, fc))
        for sa, wa in (((False, 1), (True, 8), (False, 32), (True, 64)) if pos == "a" else ()):
            outs = Interp(idx).explore(lambda i: i.call_function(fp, [mk_vt("a", sa, wa, g)]))
            e = (True, 32) if wa < 32 else (sa, wa)
            got = {("RAISE " + str(o.value)) if o.kind == "raise" else (o.value.fields.get("_signed"), o.value.fields.get("_bit_width")) for o in outs}
            ctx.check(f"promoted_type total [{gname} ({'s' if sa else 'u'},{wa})]", got == {e}, str(e), str(sorted(map(str, got))), fn_where(idx, fp))


@rule("R04.2", "C04", "c11_cast never stores to its arguments (ownership through aliases); results symmetric", min_instances=12)
def r04_2(ctx):
    idx = get_index(ctx.env)
    for sa, sb, order, groups in [(sa, sb, order, g) for g in (("PURE",), ("PURE", "CONST"), ("PURE", "HYBRID_LVAR"), ("PURE", "BOOL")) for sa in (True, False) for sb in (True, False) for order in ("<", "=", ">")]:
        if True:
            if True:
                fi, outs, objs = run_c11(idx, sa, sb, order, groups)
                key = f"c11_cast[a={'s' if sa else 'u'},b={'s' if sb else 'u'},Wa{order}Wb{'' if groups == ('PURE',) else ',' + '|'.join(groups[1:])}] argument stores"
                stores = []
                arith = []
                for o in outs:
                    for ev in o.events:
                        if ev[0] == "store" and isinstance(ev[1], AObj) and ev[1].origin in ("a", "b"):
                            stores.append(f"{ev[1].origin}.{ev[2]}")
                        if ev[0] == "arith":
                            arith.append(f"{ev[1]}({to_text(ev[2])},{to_text(ev[3])})")
                ctx.check(key, not stores, "no store to a/b or an alias", ",".join(sorted(set(stores))) or "none", fn_where(idx, fi))
                if arith:
                    ctx.check(key + " width arithmetic", False, "widths only compared/copied", ",".join(sorted(set(arith))), fn_where(idx, fi),
                              note="data-independence premise of the 12-case table")
    # symmetry f(a,b) == swap(f(b,a))
    for sa in (True, False):
        for sb in (True, False):
            for order in ("<", "=", ">"):
                _, o1, _ = run_c11(idx, sa, sb, order)
                inv = {"<": ">", ">": "<", "=": "="}[order]
                fi, o2, _ = run_c11(idx, sb, sa, inv)

                def sig(outs, swap, ordr):
                    res = set()
                    for o in outs:
                        if o.kind != "return" or not isinstance(o.value, (tuple, list)) or len(o.value) != 2:
                            res.add(outcome_text(o))
                            continue
                        pair = []
                        for x in o.value:
                            w = to_text(x.fields.get("_bit_width")).strip("<>") if isinstance(x, AObj) else "?"
                            if swap:
                                w = {"Wa": "Wb", "Wb": "Wa"}.get(w, w)
                            if ordr == "=" and w == "Wb":
                                w = "Wa"
                            pair.append((x.fields.get("_signed") if isinstance(x, AObj) else "?", w))
                        if swap:
                            pair.reverse()
                        res.add(str(pair))
                    return res

                s1, s2 = sig(o1, False, order), sig(o2, True, order)
                key = f"c11_cast symmetry[a={'s' if sa else 'u'},b={'s' if sb else 'u'},Wa{order}Wb]"
                ctx.check(key, s1 == s2, "f(a,b) == swap f(b,a)", f"{sorted(s1)} vs {sorted(s2)}", fn_where(idx, fi))


@rule("R04.3", "C04", "promoted_type: width < 32 -> fresh (signed, 32); otherwise the argument itself, unmodified", min_instances=6)
def r04_3(ctx):
    idx = get_index(ctx.env)
    fi = idx.func("promoted_type")
    for sign in (True, False):
        for name, lo, hi in (("W<32", 1, 31), ("W=32", 32, 32), ("W>32", 33, 2048)):
            holder = {}

            def once(interp):
                t = mk_vt("t", sign, IntervalSym("W", lo, hi))
                holder["t"] = t
                return interp.call_function(fi, [t])

            interp = Interp(idx, sym_compare=interval_compare())
            outs = interp.explore(once)
            obs = set()
            stores = set()
            for o in outs:
                if o.kind == "raise":
                    obs.add(f"RAISE {o.value}")
                    continue
                v = o.value
                if isinstance(v, AObj) and v.origin == "t":
                    obs.add("argument itself")
                elif isinstance(v, AObj) and v.cls == "ValueType":
                    s, w = v.fields.get("_signed"), v.fields.get("_bit_width")
                    g = sorted(v.fields["group"].members) if "group" in v.fields else "?"
                    obs.add(f"fresh ({'s' if s is True else 'u' if s is False else to_text(s)},{to_text(w)}) group={g}")
                else:
                    obs.add(to_text(v))
                for ev in o.events:
                    if ev[0] == "store" and isinstance(ev[1], AObj) and ev[1].origin == "t":
                        stores.add(ev[2])
            exp = "fresh (s,32) group=['PURE']" if name == "W<32" else "argument itself"
            key = f"promoted_type[{'s' if sign else 'u'},{name}]"
            ctx.check(key, obs == {exp}, exp, " | ".join(sorted(obs)), fn_where(idx, fi))
            ctx.check(key + " argument stores", not stores, "no store to the argument", ",".join(sorted(stores)) or "none", fn_where(idx, fi))


@rule("R04.4", "C04", "ValueType.__eq__ compares exactly width and sign (integer groups)", min_instances=4)
def r04_4(ctx):
    idx = get_index(ctx.env)
    fi = idx.func("ValueType.__eq__")
    for same_sign in (True, False):
        for same_w in (True, False):
            def once(interp):
                a = mk_vt("a", True, Sym("Wa"))
                b = mk_vt("b", True if same_sign else False, Sym("Wb"))
                return interp.truth(interp.call_function(fi, [b], self_obj=a), "eq")

            interp = Interp(idx, sym_compare=interval_compare({("Wa", "Wb"): "=" if same_w else "<"}))
            outs = interp.explore(once)
            obs = {outcome_text(o) for o in outs}
            exp = "True" if (same_sign and same_w) else "False"
            key = f"ValueType.__eq__[sign {'same' if same_sign else 'diff'}, width {'same' if same_w else 'diff'}]"
            ctx.check(key, obs == {exp}, exp, " | ".join(sorted(obs)), fn_where(idx, fi))
    # a group difference (CONST, HYBRID_LVAR, BOOL flag) must not affect integer type equality: checked by construction above
    # (group is only consulted for FLOAT/DOUBLE).


@rule("R04.5", "C04", "type-rule functions are pure functions of their arguments (no module/class-level state, no memo)", min_instances=3)
def r04_5(ctx):
    # sign and width are VALUES: compared with == / != (identity of two equal ints or bools is an implementation detail of the
    # interpreter - small ints are shared, 1024 is not)
    idx0 = get_index(ctx.env)
    bad = []
    n_cmp = 0
    for q, f_ in sorted(idx0.funcs.items()):
        if ".Tests" in f_.module:
            continue
        for c_ in ast.walk(f_.node):
            if isinstance(c_, ast.Compare):
                n_cmp += 1
                sides = [c_.left] + list(c_.comparators)
                for op_, (l_, r_) in zip(c_.ops, zip(sides, sides[1:])):
                    if isinstance(op_, (ast.Is, ast.IsNot)) and any(U(x).split(".")[-1] in ("signed", "bit_width", "_signed", "_bit_width") for x in (l_, r_)):
                        bad.append(f"{q}:{c_.lineno} {U(c_)[:60]}")
    ctx.check("sign and width of types are compared by value, never by identity", n_cmp >= 100 and not bad, "== / !=", "; ".join(bad[:3]) or "no identity comparison on .signed / .bit_width", "rzilcompiler/")
    idx = get_index(ctx.env)
    for q in ("c11_cast", "promoted_type", "ValueType.__eq__"):
        root = idx.func(q)
        reach = idx.reachable([root])
        ctx.need(len(reach) < 40, f"unexpectedly large call closure for {q}")
        state = []
        for fi in reach.values():
            if fi.module != root.module:
                continue
            for name, how in free_module_state(idx, fi):
                state.append(f"{fi.qual}: {name} ({how})")
        ctx.check(f"{q} purity", not state, "depends only on its arguments", "; ".join(state) or "pure", fn_where(idx, root))
