"""C09 - compile-time evaluation agrees with run-time evaluation."""
from __future__ import annotations

import ast
import re

from oracles import tables as O
from sa.absint import AObj, EnumV, FlagV, Interp, Opaque, Sym, Tok, to_text
from sa.cbmodel import Runner
from sa.pyindex import get_index
from sa.report import PROP_ASSUMPTIONS, PROP_EXPLANATION, rule
from sa.symex import U, call_name, call_tail, paths_of
from sa.template import normalise

from .c02 import ctor, lab
from .common import fn_where, interval_compare, mk_pure, mk_vt, outcome_text

PROP_EXPLANATION["C09"] = (
    "The literal typing function is tabulated over base x suffix x value class (C11 6.4.4.1 with int = 32, long long = 64); each "
    "folder is compared with its run-time twin clause by clause (which type rule it applies, which Python operator it folds "
    "with, whether the folded value is reduced to its type); operand removal is checked for a use-count guard; sizeof and the "
    "literal parser/renderer are tabulated. Numeric results of particular folds are not decided."
)
INT_MAX, UINT_MAX, LLONG_MAX, ULLONG_MAX = 2**31 - 1, 2**32 - 1, 2**63 - 1, 2**64 - 1
CLASSES = [("<=INT_MAX", INT_MAX), ("<=UINT_MAX", UINT_MAX), ("<=LLONG_MAX", LLONG_MAX), ("<=ULLONG_MAX", ULLONG_MAX)]


def c11_literal_type(suffix, base, value):
    s = suffix.upper()
    cands = {
        ("", "dec"): [(True, 32), (True, 64)],
        ("", "hex"): [(True, 32), (False, 32), (True, 64), (False, 64)],
        ("U", "dec"): [(False, 32), (False, 64)], ("U", "hex"): [(False, 32), (False, 64)],
        ("LL", "dec"): [(True, 64)], ("LL", "hex"): [(True, 64), (False, 64)],
        ("ULL", "dec"): [(False, 64)], ("ULL", "hex"): [(False, 64)],
    }[(s, base)]
    for signed, w in cands:
        top = 2 ** (w - 1) - 1 if signed else 2**w - 1
        if value <= top:
            return (signed, w)
    return None  # no type: not representable


@rule("R09.1", "C09", "literal typing: base x suffix x value class = C11 6.4.4.1 (int 32 bit, long long 64 bit)", min_instances=8)
def r09_1(ctx):
    idx = get_index(ctx.env)
    fi = idx.func("get_value_type_by_c_number")
    for suffix in ("", "U", "u", "LL", "ll", "ULL", "ull"):
        for base in ("dec", "hex"):
            cells = []
            bad = []
            for cname, top in CLASSES:
                exp = c11_literal_type(suffix, base, top)
                if exp is None:
                    continue
                text = str(top) if base == "dec" else hex(top)
                outs = Interp(idx).explore(lambda i, text=text: i.call_function(fi, [[Tok("DEC_NUMBER" if base == "dec" else "HEX_NUMBER", text), Tok("INT_POST_TYPE", suffix) if suffix else None]]))
                obs = {("RAISE" if o.kind == "raise" else (o.value.fields.get("_signed"), o.value.fields.get("_bit_width"))) for o in outs}
                cells.append((cname, exp, obs))
                if obs != {exp}:
                    o1 = sorted(map(str, obs))[0]
                    bad.append(f"{cname}: {'s' if exp[0] else 'u'}{exp[1]} expected, got {o1}")
            ctx.check(f"literal type [suffix '{suffix}', {base}]", not bad, "C11 type for every value class", "; ".join(bad) or "all classes agree", fn_where(idx, fi))
    small_literal_typing(ctx)
    # unknown suffix rejected
    outs = Interp(idx).explore(lambda i: i.call_function(fi, [[Tok("DEC_NUMBER", "1"), Tok("INT_POST_TYPE", "L")]]))
    ctx.check("unsupported suffix is rejected", all(o.kind == "raise" for o in outs), "raises", str([outcome_text(o)[:30] for o in outs]), fn_where(idx, fi))


def small_literal_typing(ctx):
    """suffix -> (sign, width) for literals every candidate type can hold (value <= INT_MAX): '' int, U unsigned, LL long long,
    ULL unsigned long long, in both spellings and both bases."""
    idx = get_index(ctx.env)
    fi = idx.func("get_value_type_by_c_number")
    for suffix, exp in (("", (True, 32)), ("U", (False, 32)), ("u", (False, 32)), ("LL", (True, 64)), ("ll", (True, 64)), ("ULL", (False, 64)), ("ull", (False, 64)), ("Ull", (False, 64)), ("uLL", (False, 64))):
        for tokt, text in (("DEC_NUMBER", "7"), ("HEX_NUMBER", "0x10"), ("DEC_NUMBER", "0"), ("HEX_NUMBER", "0x7fffffff")):
            outs = Interp(idx).explore(lambda i, text=text, tokt=tokt: i.call_function(fi, [[Tok(tokt, text), Tok("INT_POST_TYPE", suffix) if suffix else None]]))
            obs = {("RAISE" if o.kind == "raise" else (o.value.fields.get("_signed"), o.value.fields.get("_bit_width"))) for o in outs}
            ctx.check(f"type of the literal {text}{suffix}", obs == {exp}, str(exp), str(sorted(map(str, obs))), fn_where(idx, fi))


def wrap_to_type_checks(ctx):
    """conversion of a constant to an integer type (6.3.1.3) on the boundary values of every width"""
    idx = get_index(ctx.env)
    if not idx.has_func("wrap_to_type"):
        ctx.need(False, "wrap_to_type not found (the folders' conversion helper)")
    fw = idx.func("wrap_to_type")
    for signed in (True, False):
        for w in (1, 8, 16, 32, 64):
            vals = sorted({0, 1, -1, 2 ** (w - 1) - 1, 2 ** (w - 1), 2 ** (w - 1) + 1, -(2 ** (w - 1)), -(2 ** (w - 1)) - 1, 2**w - 1, 2**w, 2**w + 1, -(2**w), 5 * 2**w + 3})
            bad = []
            for v in vals:
                outs = Interp(idx).explore(lambda i, v=v: i.call_function(fw, [v, mk_vt("t", signed, w)]))
                got = [o.value if o.kind != "raise" else "RAISE" for o in outs]
                exp = O.c_convert(v, (signed, w))
                if got != [exp]:
                    bad.append(f"{v} -> {got}, C11: {exp}")
            ctx.check(f"wrap_to_type to ({'s' if signed else 'u'},{w}) on {len(vals)} boundary values", not bad, "value modulo 2^w, re-interpreted as two's complement for signed types", "; ".join(bad[:3]) or "ok", fn_where(idx, fw))


def number(r, label, value, signed, width, groups=("PURE",), cls="Number"):
    """a literal operand as the folders see it: real (non-opaque) LetVar subclass instance."""
    return AObj(cls, {"value": value, "value_type": mk_vt("t" + label, signed, width, groups), "name": label, "isa_name": None, "inlined": True, "reads": 0}, label=label)


def constant_condition_selection(ctx):
    """a constant ?: condition selects the then-arm exactly when it is non-zero (any non-zero value, also after a conversion)"""
    idx = get_index(ctx.env)
    r = Runner(idx, keep_real=("simplify_conditional_expr",))
    from .c05 import origin

    # (the constant is a value of its TYPE: what the unary folder leaves for ~0xffffffffU, -4294967296 in an unsigned 32 bit type, is 0)
    for val, signed, w, exp in ((1, True, 32, "items[1]"), (0, True, 32, "items[2]"), (7, True, 32, "items[1]"), (2, True, 32, "items[1]"), (4, False, 32, "items[1]"), (-2, True, 32, "items[1]"),
                                (0x100000000, True, 64, "items[1]"), (-0x100000000, False, 32, "items[2]"), (0x100000000, False, 32, "items[2]"), (-0x100000000, True, 64, "items[1]"),
                                (0x10000000000000000, False, 64, "items[2]"), (0x80000000, False, 32, "items[1]"), (-1, False, 64, "items[1]")):
        fi, outs = r.run("simplify_conditional_expr", lambda val=val, signed=signed, w=w: [[number(r, "c", val, signed, w), r.pure("items[1]"), r.pure("items[2]")]], args_list=True)
        ctx.check(f"constant condition {val} of type {'s' if signed else 'u'}{w} selects", bool(outs) and all(origin(lab(o.value)) == exp for o in outs), exp, str([lab(o.value) for o in outs]), fn_where(idx, fi))
    fi, outs = r.run("simplify_conditional_expr", lambda: [[r.pure("c"), r.pure("items[1]"), r.pure("items[2]")]], args_list=True)
    ctx.check("non-constant condition is not folded", [o.value for o in outs] == [None], "None", str([lab(o.value) for o in outs]), fn_where(idx, fi))
    # a converted constant as condition: its truth is that of the CONVERTED value ((uint8_t)0x100 is 0) - folding by the literal below
    # the cast selects the wrong arm; not folding at all is fine
    for lit, ct, truth in ((0x100, (False, 8), False), (0x30000, (True, 16), False), (0x101, (False, 8), True), (0x100000000, (False, 32), False)):
        r2 = Runner(idx, keep_real=("simplify_conditional_expr",))

        def cargs(lit=lit, ct=ct):
            inner = number(r2, "lit", lit, True, 64)
            cast = AObj("Cast", {"ops": [inner], "value_type": mk_vt("tcast", ct[0], ct[1]), "name": "cast_1", "isa_name": None, "inlined": True, "reads": 0}, label="cast")
            return [[cast, r2.pure("items[1]"), r2.pure("items[2]")]]
        fi, outs = r2.run("simplify_conditional_expr", cargs, args_list=True)
        sel = sorted({"not folded" if o.value is None else origin(lab(o.value)) if o.kind != "raise" else "RAISE" for o in outs})
        okset = {"not folded", "RAISE", "items[1]" if truth else "items[2]"}
        ctx.check(f"condition ({'u' if not ct[0] else 's'}{ct[1]}){hex(lit)}", bool(sel) and set(sel) <= okset, f"not folded, or the {'then' if truth else 'else'} arm", str(sel), fn_where(idx, fi))


@rule("R09.2", "C09", "folders agree with their run-time twins: same type rule, C operator semantics, value reduced to its type; comparisons use the converted operands", min_instances=10)
def r09_2(ctx):
    idx = get_index(ctx.env)
    # --- unary
    for op, py in (("~", -6), ("-", -5), ("+", 5)):
        for sign, width, groups, exp_t in ((True, 32, ("PURE",), "same"), (False, 32, ("PURE",), "same"), (False, 64, ("PURE",), "same"), (False, 1, ("PURE", "BOOL"), (True, 32)), (False, 8, ("PURE",), (True, 32))):
            r = Runner(idx, keep_real=("simplify_unary_expr",))
            box = {}
            def args():
                a = number(r, "a", 5, sign, width, groups, cls="Bool" if "BOOL" in groups else "Number")
                box["a"] = a
                return [[Tok("UNARY_OP", op), a]]
            fi, outs = r.run("simplify_unary_expr", args, args_list=True)
            for o in outs:
                if o.kind == "raise":
                    ctx.check(f"fold unary {op} on ({'s' if sign else 'u'},{width})", False, "folds", "RAISE", fn_where(idx, fi))
                    continue
                v = o.value
                ok = isinstance(v, AObj) and v.cls == "Number"
                val = ctor(v, "val") if ok else None
                t = ctor(v, "v_type") if ok else None
                if exp_t == "same":
                    tdesc = "operand type (same sign/width)" if isinstance(t, AObj) and (t.fields.get("_signed"), t.fields.get("_bit_width")) == (sign, width) else f"({t.fields.get('_signed')},{t.fields.get('_bit_width')})" if isinstance(t, AObj) else str(t)
                    good_t = tdesc.startswith("operand type")
                else:
                    tdesc = f"({t.fields.get('_signed')},{t.fields.get('_bit_width')})" if isinstance(t, AObj) else str(t)
                    good_t = isinstance(t, AObj) and (t.fields.get("_signed"), t.fields.get("_bit_width")) == exp_t
                ctx.check(f"fold unary {op} on ({'s' if sign else 'u'},{width}{',bool' if 'BOOL' in groups else ''})", ok and val == py and good_t, f"value {py}, type = promoted operand type", f"value {val}, type {tdesc}", fn_where(idx, fi))
                # the operand's own type object must not be modified
                stores = [e for e in o.events if e[0] == "store" and isinstance(e[1], AObj) and e[1] is box["a"].fields["value_type"]]
                ctx.check(f"fold unary {op}: operand type untouched", not stores, "no store to the literal's type", str([(e[2]) for e in stores]), fn_where(idx, fi), nontrivial=False)
    # non-literals and unknown operators are not folded
    r = Runner(idx, keep_real=("simplify_unary_expr",))
    fi, outs = r.run("simplify_unary_expr", lambda: [[Tok("UNARY_OP", "-"), r.pure("x", vt=mk_vt("tx", True, 32))]], args_list=True)
    ctx.check("unary fold only on literals", [o.value for o in outs] == [None], "None", str([lab(o.value) for o in outs]), fn_where(idx, fi))
    r = Runner(idx, keep_real=("simplify_unary_expr",))
    fi, outs = r.run("simplify_unary_expr", lambda: [[Tok("UNARY_OP", "!"), number(r, "a", 5, True, 32)]], args_list=True)
    ctx.check("`!` is not folded by the unary folder", [o.value for o in outs] == [None], "None", str([lab(o.value) for o in outs]), fn_where(idx, fi))
    # --- binary arithmetic: operator table and result type
    fa = idx.func("RZILTransformer.simplify_arithmetic_expr")
    wrap_to_type_checks(ctx)
    # value and type of every folded binary operation agree with the C11 evaluation of the unfolded expression
    def tname(t):
        return f"({'s' if t[0] else 'u'},{t[1]})"

    def folded(q, op_tok, op, a, ta, b, tb):
        r = Runner(idx, keep_real=(q,))
        fi, outs = r.run(q, lambda: [[number(r, "a", a, ta[0], ta[1]), Tok(op_tok, op), number(r, "b", b, tb[0], tb[1])]], args_list=True)
        res = set()
        for o in outs:
            v = o.value
            if o.kind == "raise":
                res.add(("reject",))
            elif isinstance(v, AObj) and v.cls == "Number":
                t = ctor(v, "v_type")
                val = ctor(v, "val")
                tt = (t.fields.get("_signed"), t.fields.get("_bit_width")) if isinstance(t, AObj) else None
                res.add(("value", val, tt))
            elif isinstance(v, AObj) and v.cls == "Bool":
                res.add(("bool", bool(ctor(v, "val"))))
            else:
                res.add(("other", lab(v)))
        return fi, res

    # the folders act on constant expressions only: with one operand that is not a literal nothing is folded - x + 0, x * 1, 0 * x ...
    # are no exceptions (the usual arithmetic conversions with the literal's type still apply, and x may carry a pending effect)
    for q, op_tok, ops in (("simplify_arithmetic_expr", "ARITH_OP", ("+", "-", "*", "/", "%")), ("simplify_compare_expr", "CMP_OP", ("<", "==", ">="))):
        kept = []
        for op in ops:
            for lit, suffix_t in ((0, (False, 32)), (1, (True, 64)), (0, (True, 32)), (1, (False, 32)), (7, (True, 32))):
                for pos in (0, 2):
                    r = Runner(idx, keep_real=(q,))

                    def args(pos=pos, lit=lit, suffix_t=suffix_t, op=op):
                        x = r.pure("x", vt=mk_vt("tx", True, 32), cls="Register")
                        n_ = number(r, "n", lit, suffix_t[0], suffix_t[1])
                        return [[x if pos == 0 else n_, Tok(op_tok, op), n_ if pos == 0 else x]]
                    fi, outs = r.run(q, args, args_list=True)
                    for o in outs:
                        if o.kind != "raise" and o.value is not None:
                            kept.append(f"{'x ' + op + ' ' + str(lit) if pos == 0 else str(lit) + ' ' + op + ' x'} ({tname(suffix_t)} literal) -> {lab(o.value)}")
        ctx.check(f"{q} folds constant expressions only", not kept, "None (not folded) when an operand is not a literal", "; ".join(kept[:3]) or "never folds", fn_where(idx, fi))
    operands = O.FOLD_OPERANDS if ctx.env.tier == "thorough" else O.FOLD_OPERANDS_QUICK
    ctx.need(len(operands) >= 8, "oracle operand table too small")
    for op in ("+", "-", "*", "/", "%"):
        bad = []
        n = 0
        for a, ta in operands:
            for b, tb in operands:
                exp = O.c_fold(op, a, ta, b, tb)
                fi, got = folded("simplify_arithmetic_expr", "ARITH_OP", op, a, ta, b, tb)
                n += 1
                if op == "%" and got == {("reject",)}:
                    continue  # not folding a remainder at all is fine (today's behaviour); folding it must give C's remainder
                if got != {exp}:
                    bad.append(f"{a}:{tname(ta)} {op} {b}:{tname(tb)} -> {sorted(map(str, got))}, C11: {exp}")
        ctx.check(f"fold binary {op}: value and type over {n} operand pairs", not bad, "C11 value reduced to the common type of the promoted operands (inexact or zero division rejected)",
                  f"{len(bad)} disagreements, e.g. {bad[:3]}", fn_where(idx, fa))
    fc = idx.func("RZILTransformer.simplify_compare_expr")
    for op in ("<", ">", "<=", ">=", "==", "!="):
        bad = []
        n = 0
        for a, ta in operands:
            for b, tb in operands:
                exp = O.c_fold(op, a, ta, b, tb)
                fi, got = folded("simplify_compare_expr", "CMP_OP", op, a, ta, b, tb)
                n += 1
                if got != {exp}:
                    bad.append(f"{a}:{tname(ta)} {op} {b}:{tname(tb)} -> {sorted(map(str, got))}, C11: {exp}")
        ctx.check(f"fold comparison {op}: truth value over {n} operand pairs", not bad, "operands converted to the common type, then compared",
                  f"{len(bad)} disagreements, e.g. {bad[:3]}", fn_where(idx, fc))
    # bool literals (folded comparisons) are promoted like any other operand
    for op in ("+", "-", "*"):
        fi, got = folded("simplify_arithmetic_expr", "ARITH_OP", op, 1, (False, 1), 1, (False, 1))
        exp = O.c_fold(op, 1, (False, 1), 1, (False, 1))
        ctx.check(f"fold binary {op} on two folded truth values", got == {exp}, str(exp), str(sorted(map(str, got))), fn_where(idx, fa))
    # callers test a folder's result for presence (`if result:`): no IR node may have a truth value of its own, or a folded 0
    # / an empty node would count as "not folded" after the folder has already removed operands
    node_classes = set(idx.subclasses("Pure")) | set(idx.subclasses("Effect"))
    truthy = sorted(f"{c}.{m}" for c in node_classes if c in idx.classes for m in ("__bool__", "__len__") if m in idx.classes[c].methods)
    ctx.check("IR nodes have no truth value of their own (__bool__ / __len__)", not truthy, "none defined", str(truthy), "rzilcompiler/Transformer/Pures/Pure.py")
    constant_condition_selection(ctx)


@rule("R09.7", "C09", "the run-time twin of the division folders is the C operation: the folders compute signed quotients and remainders for signed operands, so must the emitted opcode", min_instances=4)
def r09_7(ctx):
    from .c05 import signed_division_opcode

    signed_division_opcode(ctx)


def folded_conditional_type(ctx):
    """`c ? a : b` has the type the usual arithmetic conversions give a and b, whichever arm is selected (C11 6.5.15p5) - also when c is
    a constant and the compiler selects the arm itself: the folded expression must have the type of its run-time twin"""
    idx = get_index(ctx.env)
    name = lambda t: f"{'s' if t[0] else 'u'}{t[1]}"
    for t1, t2 in (((True, 32), (True, 32)), ((True, 32), (False, 32)), ((False, 32), (True, 32)), ((True, 8), (True, 64)), ((False, 8), (False, 16)), ((False, 32), (True, 64)), ((True, 64), (False, 64))):
        common = O.c_common(t1, t2)
        for cv, sel, own in ((1, "items[1]", t1), (0, "items[2]", t2)):
            r = Runner(idx, keep_real=("simplify_conditional_expr", "promotion_cast"))
            fi, outs = r.run("simplify_conditional_expr", lambda: [[number(r, "c", cv, True, 32), r.pure("items[1]", vt=mk_vt("t1", *t1)), r.pure("items[2]", vt=mk_vt("t2", *t2))]], args_list=True)
            obs = []
            ok = bool(outs)
            for o in outs:
                l = lab(o.value)
                m = re.match(r"Conv\(\(([su]),(\d+)\),", l)
                if l.startswith("Common("):
                    got = common  # converted by the helper whose summary this label is (its body is checked by R02.3 / R04.x)
                elif m:
                    got = (m.group(1) == "s", int(m.group(2)))
                else:
                    got = own
                obs.append(f"{l} : {name(got)}")
                ok = ok and o.kind != "raise" and origin_of(l) == sel and got == common
            ctx.check(f"{name(t1)} and {name(t2)} arms, constant condition {cv}: type of the folded ?:", ok, f"{sel} converted to {name(common)}", " | ".join(obs)[:120], fn_where(idx, fi), nontrivial=(own != common))


def origin_of(label):
    from .c05 import origin

    return origin(label)


@rule("R09.8", "C09", "a `?:` with a constant condition has the type of its run-time twin: the common type of both arms", min_instances=14)
def r09_8(ctx):
    folded_conditional_type(ctx)


def literal_classes_are_inlined(ctx):
    """every literal class is printed inline at its uses (no declaration is ever emitted for it: removing one is harmless, and none is
    declared without being consumed)"""
    idx = get_index(ctx.env)
    init = idx.func("RZILTransformer.__init__")
    inl = [n.value for n in ast.walk(init.node) if isinstance(n, ast.Assign) and U(n.targets[0]) == "self.inlined_pure_classes"]
    ctx.need(inl, "inlined_pure_classes not found")
    listed = {U(e) for e in (inl[0].elts if isinstance(inl[0], (ast.Tuple, ast.List)) else [inl[0]])}
    letvars = set(idx.subclasses("LetVar", strict=True))
    missing = sorted(c for c in letvars if c not in listed and not any(b in listed for b in idx.mro(c)[1:]))
    ctx.check("every literal class is inlined (needs no declaration)", not missing, f"{sorted(letvars)} covered by inlined_pure_classes", f"not inlined: {missing}; listed: {sorted(listed)}", fn_where(idx, init))


@rule("R09.3", "C09", "removal safety: operands that can have other users (de-duplicated by name) are only removed under a use-count guard", min_instances=4)
def r09_3(ctx, skip=()):
    from .c11 import add_op_registers_what_it_returns

    add_op_registers_what_it_returns(ctx)  # an operand a folder removed is registered again when live code names it later
    idx = get_index(ctx.env)
    literal_classes_are_inlined(ctx)
    # the folders and every transformer helper they (transitively) hand an operand to
    work = ["simplify_unary_expr", "simplify_arithmetic_expr", "simplify_compare_expr", "simplify_conditional_expr"]
    seen_q = []
    while work:
        q = work.pop(0)
        if q in seen_q:
            continue
        seen_q.append(q)
        fi = idx.func(f"RZILTransformer.{q}")
        for n in ast.walk(fi.node):
            if isinstance(n, ast.Call) and isinstance(n.func, ast.Attribute) and isinstance(n.func.value, ast.Name) and n.func.value.id == "self" \
                    and idx.resolve_method("RZILTransformer", n.func.attr) is not None and n.func.attr not in seen_q:
                callee = idx.resolve_method("RZILTransformer", n.func.attr)
                if any(isinstance(c, ast.Call) and call_tail(c) == "rm_op_by_name" for c in ast.walk(callee.node)) or \
                        any(isinstance(c, ast.Call) and isinstance(c.func, ast.Attribute) and isinstance(c.func.value, ast.Name) and c.func.value.id == "self" for c in ast.walk(callee.node)):
                    work.append(n.func.attr)
    # ... and any other transformer / extension method that removes an operand (who-may-remove: today only the folders)
    removers = [(fi.cls, fi.name) for fi in idx.funcs.values() if fi.cls in ("RZILTransformer", "HexagonTransformerExtension")
                and any(isinstance(c, ast.Call) and call_tail(c) == "rm_op_by_name" for c in ast.walk(fi.node))]
    for c, q in sorted(removers):
        if c == "RZILTransformer" and q not in seen_q:
            seen_q.append(q)
        elif c != "RZILTransformer":
            ctx.check(f"{c}.{q}: removes operands", False, "operands are removed by the constant folders only", "calls rm_op_by_name", fn_where(idx, idx.func(f"{c}.{q}")))
    for q in seen_q:
        if q in skip:
            continue
        fi = idx.func(f"RZILTransformer.{q}")
        for p in paths_of(fi.node):
            for e in p.calls(tail="rm_op_by_name"):
                arg = U(e.node.args[0])
                # which operand is removed?
                operand = arg.replace(".get_name()", "")
                guarded = any(pol and U(g) == f"isinstance({operand}, LetVar)" for g, pol in p.guards) or any((not pol) and U(g) in (f"isinstance({operand}, LetVar)",) for g, pol in [(g, not pol) for g, pol in p.guards if False])
                letvar = any(pol and "isinstance" in U(g) and operand in U(g) and "LetVar" in U(g) for g, pol in p.guards) or any((not pol) and U(g).startswith("not isinstance") for g, pol in [])
                neg_guard = any((not pol) and (U(g) == f"not isinstance({operand}, LetVar)" or (isinstance(g, ast.BoolOp) and f"not isinstance({operand}, LetVar)" in U(g))) for g, pol in p.guards)
                is_lit = letvar or neg_guard or any(pol is False and f"isinstance({operand}, LetVar)" in U(g) and U(g).startswith("not") for g, pol in p.guards)
                # guards are recorded with `not` stripped: (isinstance(x, LetVar), True) means x is a literal
                is_lit = is_lit or any(pol and U(g) == f"isinstance({operand}, LetVar)" for g, pol in p.guards)
                refcount = any("references_set" in U(g) or "use_count" in U(g) or "users" in U(g) for g, _ in p.guards)
                ctx.check(f"{q}: removal of {operand}", is_lit or refcount, "operand is a literal (inlined, undeclared) or the removal is guarded by a use count",
                          "arbitrary operand removed by name although an earlier statement may still use it (registers, variables and immediates are de-duplicated by name)", fn_where(idx, fi))
    # the holder's own bookkeeping removes exactly the pending sequence of a hybrid and its two members (reference counted)
    for fi in idx.funcs.values():
        if fi.cls != "ILOpsHolder":
            continue
        for n in ast.walk(fi.node):
            if isinstance(n, ast.Call) and call_tail(n) == "rm_op_by_name" and n.args:
                arg = U(n.args[0])
                reviewed = fi.name == "update_hybrid_ref" and arg in ("h_seq.get_name()", "h_seq.effect_ops[0].get_name()", "h_seq.effect_ops[1].get_name()")
                ctx.check(f"ILOpsHolder.{fi.name}: removal of {arg.replace('.get_name()', '')}", reviewed, "only the pending sequence of a hybrid without references and its two members",
                          "further operands removed by name (they may be used by live code)", fn_where(idx, fi), nontrivial=not reviewed)
    # hybrids are reference counted
    fu = idx.func("ILOpsHolder.update_hybrid_ref")
    txt = U(fu.node)
    ctx.check("pending hybrid effects are removed only when their last reference goes", "references_set.remove(pure)" in txt and "len(hybrid.references_set) == 0" in txt, "reference-counted removal", "guard missing", fn_where(idx, fu))


@rule("R09.4", "C09", "sizeof: ceil(width / 8) as a signed 32 bit literal", min_instances=6)
def r09_4(ctx):
    idx = get_index(ctx.env)
    fi = idx.func("Sizeof.__init__")
    for w, exp in ((1, 1), (8, 1), (9, 2), (16, 2), (32, 4), (64, 8), (1024, 128)):
        outs = Interp(idx).explore(lambda i, w=w: i.construct("Sizeof", ["n", mk_pure("x", mk_vt("tx", False, w))], {}))
        obs = {("RAISE" if o.kind == "raise" else (o.value.fields.get("value"), o.value.fields["value_type"].fields.get("_signed"), o.value.fields["value_type"].fields.get("_bit_width"))) for o in outs}
        ctx.check(f"sizeof({w} bit)", obs == {(exp, True, 32)}, str((exp, True, 32)), str(sorted(map(str, obs))), fn_where(idx, fi))
    cc = idx.func("RZILTransformer.c_call")
    ok = any(isinstance(n, ast.If) and "sizeof" in U(n.test) and any(call_name(c) == "Sizeof" for s in n.body for c in ast.walk(s) if isinstance(c, ast.Call)) for n in ast.walk(cc.node))
    ctx.check("sizeof(expr) is built from the operand's type", ok, "Sizeof(name, items[1])", "missing", fn_where(idx, cc))


@rule("R09.5", "C09", "literal parsing and rendering: base by token kind; SN/UN by signedness with the type's width and the same integer", min_instances=8)
def r09_5(ctx):
    idx = get_index(ctx.env)
    fb = idx.func("get_num_base_by_token")
    for tok, exp in (("HEX_NUMBER", 16), ("DEC_NUMBER", 10)):
        outs = Interp(idx).explore(lambda i, tok=tok: i.call_function(fb, [Tok(tok, "1")]))
        ctx.check(f"base of {tok}", [o.value for o in outs] == [exp], str(exp), str([outcome_text(o) for o in outs]), fn_where(idx, fb))
    outs = Interp(idx).explore(lambda i: i.call_function(fb, [Tok("COMMON_FLOAT", "1.0")]))
    ctx.check("other number tokens rejected", all(o.kind == "raise" for o in outs), "raises", str([outcome_text(o)[:30] for o in outs]), fn_where(idx, fb))
    # number callback
    for tok, text, exp in (("HEX_NUMBER", "0x1f", 31), ("DEC_NUMBER", "31", 31), ("HEX_NUMBER", "0XFF", 255), ("DEC_NUMBER", "0", 0)):
        r = Runner(idx)
        r.summarised = r.summarised  # defaults
        fi, outs = r.run("number", lambda tok=tok, text=text: [Tok(tok, text), None])
        vals = set()
        for o in outs:
            if o.kind == "raise":
                vals.add("RAISE")
            elif isinstance(o.value, AObj) and o.value.cls == "Number":
                t = ctor(o.value, "v_type")
                vals.add((ctor(o.value, "val"), t.fields.get("_signed"), t.fields.get("_bit_width")) if isinstance(t, AObj) else (ctor(o.value, "val"),))
        vals.discard("RAISE") if len(vals) > 1 else None
        ctx.check(f"number[{text}]", (exp, True, 32) in vals and all(v == (exp, True, 32) for v in vals if v != "RAISE"), str((exp, True, 32)), str(sorted(map(str, vals))), fn_where(idx, fi))
    # a suffix the typing does not know is rejected, not typed as plain int (0xffffffffUL is not -1)
    for suffix in ("UL", "ul", "LU"):
        r = Runner(idx)
        fi, outs = r.run("number", lambda suffix=suffix: [Tok("HEX_NUMBER", "0xffffffff"), Tok("INT_POST_TYPE", suffix)])
        got = set()
        for o in outs:
            if o.kind == "raise":
                got.add("rejected")
            elif isinstance(o.value, AObj) and o.value.cls == "Number":
                t = ctor(o.value, "v_type")
                got.add("signed" if isinstance(t, AObj) and t.fields.get("_signed") else "unsigned")
            else:
                got.add(lab(o.value))
        ctx.check(f"number[0xffffffff{suffix}]", bool(got) and got <= {"rejected", "unsigned"}, "rejected (or an unsigned type)", str(sorted(got)), fn_where(idx, fi))
    literal_rendering(ctx)
    number_token_classes(ctx)


def number_token_classes(ctx):
    """the number terminals take exactly the spellings whose base the compiler knows: DEC_NUMBER is read with base 10, so it must not
    accept a spelling with a leading zero (an octal constant in C: 010 is 8); HEX_NUMBER is read with base 16"""
    from sa.larkmodel import get_grammar

    gm = get_grammar(ctx.env)
    for tname, yes, no in (("DEC_NUMBER", ["0", "7", "10", "4294967296"], ["010", "007", "00", "0x10", "08"]), ("HEX_NUMBER", ["0x10", "0XfF", "0x0"], ["10", "0", "x10"])):
        t = gm.terminals.get(tname)
        ctx.need(t is not None and t["kind"] == "re", f"terminal {tname} missing")
        fl = re.I if "i" in t["flags"] else 0
        rx_ = re.compile(t["value"], fl)
        bad = [f"{x!r} not accepted" for x in yes if not rx_.fullmatch(x)] + [f"{x!r} accepted" for x in no if rx_.fullmatch(x)]
        ctx.check(f"{tname} spellings", not bad, f"accepts {yes}, rejects {no}", "; ".join(bad) or "ok", gm.where(tname))


def literal_rendering(ctx):
    """a literal is printed as SN / UN of its TYPE's width, whatever its value is (a value that does not fit its type is a matter of
    literal typing, R09.1 - the printed width must still be the width every consumer was typed against)"""
    idx = get_index(ctx.env)
    fr = idx.func("LetVar.get_rzil_val")
    for signed, val, exp in ((True, 5, "SN(<W>, 5)"), (False, 5, "UN(<W>, 5)"), (True, 255, "SN(<W>, 0xff)"), (False, 32, "UN(<W>, 0x20)"),
                             (True, 0x1ffffffff, "SN(<W>, 0x1ffffffff)"), (False, 0xffffffffffffffff, "UN(<W>, 0xffffffffffffffff)"), (True, 0x80000000, "SN(<W>, 0x80000000)"),
                             (True, -1, "SN(<W>, -1)"), (True, -31, "SN(<W>, -31)"), (True, -256, "SN(<W>, -256)"), (True, -0x100000000, "SN(<W>, -4294967296)"), (False, -1, "UN(<W>, -1)"),
                             (True, 31, "SN(<W>, 31)"), (True, 32, "SN(<W>, 0x20)")):
        outs = Interp(idx).explore(lambda i: i.call_function(fr, [], self_obj=AObj("Number", {"value": val, "value_type": mk_vt("t", signed, Sym("W"))}, label="self")))
        obs = {normalise(outcome_text(o)) for o in outs}
        ctx.check(f"literal rendering [{'s' if signed else 'u'}, {val}]", obs == {exp}, exp, str(sorted(obs)), fn_where(idx, fr))
    # narrow literals (the 1 / 0 of a truth value converted to an 8 or 16 bit type) are printed at their own width
    for signed, w, val in ((True, 8, 1), (False, 8, 0), (False, 16, 1), (True, 16, 0), (False, 1, 1), (True, 64, 1)):
        outs = Interp(idx).explore(lambda i: i.call_function(fr, [], self_obj=AObj("Number", {"value": val, "value_type": mk_vt("t", signed, w)}, label="self")))
        obs = {normalise(outcome_text(o)) for o in outs}
        exp = f"{'SN' if signed else 'UN'}({w}, {val})"
        ctx.check(f"literal rendering [{'s' if signed else 'u'}{w}, {val}]", obs == {exp}, exp, str(sorted(obs)), fn_where(idx, fr))
    fo = idx.func("ValueType.il_op")
    for signed in (True, False):
        outs = Interp(idx).explore(lambda i: i.call_function(fo, [255], self_obj=mk_vt("t", signed, Sym("W"))))
        obs = {normalise(outcome_text(o)) for o in outs}
        exp = f"{'SN' if signed else 'UN'}(<W>, 0xff)"
        ctx.check(f"ValueType.il_op [{'s' if signed else 'u'}]", obs == {exp}, exp, str(sorted(obs)), fn_where(idx, fo))
    fbr = idx.func("Bool.il_read")
    for val, exp in ((True, "IL_TRUE"), (False, "IL_FALSE")):
        outs = Interp(idx).explore(lambda i, val=val: i.call_function(fbr, [], self_obj=AObj("Bool", {"value": val}, label="self")))
        ctx.check(f"Bool rendering [{val}]", [o.value for o in outs] == [exp], exp, str([outcome_text(o) for o in outs]), fn_where(idx, fbr))


@rule("R09.6", "C09", "discarding a dead operand leaves the temporaries of live operations alone: the counter that names them only grows while a behaviour is transformed", min_instances=4)
def r09_6(ctx):
    from .c06 import r06_6

    r06_6(ctx)


FOLDING_CALLBACKS = [
    ("unary_expr", lambda r: [Tok("UNARY_OP", "-"), r.pure("items[1]", cls="Number")]),
    ("additive_expr", lambda r: [r.pure("items[0]", cls="Number"), Tok("ADD_OP", "+"), r.pure("items[2]", cls="Number")]),
    ("multiplicative_expr", lambda r: [r.pure("items[0]", cls="Number"), Tok("MUL_OP", "*"), r.pure("items[2]", cls="Number")]),
    ("relational_expr", lambda r: [r.pure("items[0]", cls="Number"), Tok("LT_OP", "<"), r.pure("items[2]", cls="Number")]),
    ("equality_expr", lambda r: [r.pure("items[0]", cls="Number"), Tok("EQ_OP", "=="), r.pure("items[2]", cls="Number")]),
]


@rule("R09.9", "C09", "the value of a folded expression is the constant folded from ITS operands: a callback hands on the folder's result itself, never a constant an earlier expression left behind under the same name (folded constants are named after their value only, their type varies)", min_instances=5)
def r09_9(ctx):
    idx = get_index(ctx.env)
    for cb, mk in FOLDING_CALLBACKS:
        r = Runner(idx)
        fi, outs = r.run(cb, lambda r=r, mk=mk: mk(r))
        folded = [o for o in outs if any(d == (f"simplify_{'unary' if cb == 'unary_expr' else 'compare' if cb in ('relational_expr', 'equality_expr') else 'arithmetic'}_expr folds", True) for d in o.decisions)]
        ctx.need(folded, f"{cb}: no folding path found (decisions: {[o.decisions[:2] for o in outs][:3]})")
        obs = sorted({("raises " + str(o.value)[:30]) if o.kind == "raise" else lab(o.value) for o in folded})
        ctx.check(f"{cb}: the folded constant is handed on as it is", obs == ["folded"], "the folder's result", str(obs)[:140], fn_where(idx, fi))


@rule("R09.10", "C09", "what the compiler evaluates itself is decided by the folders alone: an expression callback builds the same node for a literal / truth-value operand as for any other operand (a callback-local shortcut is a second, unchecked folder)", min_instances=20)
def r09_10(ctx):
    from .c02 import r02_8

    r02_8(ctx)
    # two literal operands: with the folders switched off, every binary expression callback builds its operator node - a callback that
    # hands back a literal has evaluated the expression itself (outside the folders the fold oracle checks)
    idx = get_index(ctx.env)
    specs = [("additive_expr", "ARITH_OP", ("+", "-")), ("multiplicative_expr", "ARITH_OP", ("*", "/", "%")), ("shift_expr", "SHIFT_OP", ("<<", ">>")),
             ("and_expr", "AND_OP", ("&",)), ("exclusive_or_expr", "XOR_OP", ("^",)), ("inclusive_or_expr", "OR_OP", ("|",)),
             ("logical_and_expr", "LAND", ("&&",)), ("logical_or_expr", "LOR", ("||",))]
    for cb, tok, ops in specs:
        if not idx.has_func(f"RZILTransformer.{cb}"):
            continue
        for op in ops:
            for (va, ta), (vb, tb) in (((1, (True, 32)), (4, (True, 32))), ((-16, (True, 32)), (2, (False, 32))), ((7, (True, 32)), (2, (True, 64)))):
                r = Runner(idx)
                r.fold = False
                fi, outs = r.run(cb, lambda: [number(r, "a", va, ta[0], ta[1]), Tok(tok, op), number(r, "b", vb, tb[0], tb[1])])
                got = sorted({"RAISE" if o.kind == "raise" else (o.value.cls if isinstance(o.value, AObj) else type(o.value).__name__) for o in outs})
                lits = [g for g in got if g in ("Number", "Bool", "LetVar", "Sizeof")]
                ctx.check(f"{cb}[{va} {op} {vb}] with the folders off builds an operator node", not lits, "ArithmeticOp / BitOp / BooleanOp (or a rejection)", str(got), fn_where(idx, fi), nontrivial=False)
