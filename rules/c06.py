"""C06 - value-producing side effects: exactly once, in order, only when selected."""
from __future__ import annotations

import ast

from sa.absint import AObj, EnumV, FlagV, Interp, Opaque, Sym, Tok, to_text
from sa.cbmodel import Runner
from sa.larkmodel import get_grammar, transformer_callbacks
from sa.pyindex import get_index
from sa.report import PROP_ASSUMPTIONS, PROP_EXPLANATION, rule
from sa.symex import U, call_name, call_tail, paths_of
from sa.template import normalise

from .c02 import ctor, lab, members_by_value, run_il_exec
from .c05 import eff, seq_effects
from .common import fn_where, interval_compare, mk_pure, mk_vt, outcome_text

PROP_EXPLANATION["C06"] = (
    "The set-value/execute order of every hybrid class and its mapping to the emitted pair in resolve_hybrid, the placement of "
    "pending effects relative to their consumer in chk_hybrid_dep (operand order, before the consumer; after it only for the "
    "loop step), the must-wrap obligation of every effect-producing callback, the ?: guard table for statement-expression arms and "
    "the uniqueness of h_tmpN are extracted by abstract interpretation; whether each statement position flushes pending effects "
    "is decided on the grammar model."
)


def hyb_order(name):
    return EnumV("HybridSeqOrder", name, None)


@rule("R06.1", "C06", "hybrid order table: postfix ++/-- read-then-update; calls and statement-expressions execute-then-read; resolve_hybrid emits the pair in that order", min_instances=10)
def r06_1(ctx):
    from .c03 import postfix_node_typing

    postfix_node_typing(ctx)  # the update is done in the variable's own width and the yielded old value has the variable's own type
    idx = get_index(ctx.env)
    ht = members_by_value(idx, "HybridType")

    def seq_of(cls, args):
        def once(interp):
            return interp.construct(cls, args(), {})
        outs = Interp(idx).explore(once)
        res = set()
        for o in outs:
            if o.kind == "raise":
                res.add("RAISE")
            else:
                so = o.value.fields.get("seq_order")
                res.add(so.member if isinstance(so, EnumV) else to_text(so))
        return res

    vt32 = lambda: mk_vt("t", True, 32)
    void = lambda: mk_vt("tv", False, 32, ("VOID",))
    cases = [
        ("PostfixIncDec[++]", "PostfixIncDec", lambda: ["n", mk_pure("x", vt32(), cls="LocalVar"), vt32(), ht["++"]], "SET_VAL_THEN_EXEC"),
        ("PostfixIncDec[--]", "PostfixIncDec", lambda: ["n", mk_pure("x", vt32(), cls="LocalVar"), vt32(), ht["--"]], "SET_VAL_THEN_EXEC"),
        ("Call[value]", "Call", lambda: ["n", vt32(), ["fcn", mk_pure("a", vt32())]], "EXEC_THEN_SET_VAL"),
        ("Call[void]", "Call", lambda: ["n", void(), ["fcn", mk_pure("a", vt32())]], "EXEC_ONLY"),
        ("SubRoutine[value]", "SubRoutine", lambda: ["n", vt32(), [], "body"], "EXEC_THEN_SET_VAL"),
        ("SubRoutine[void]", "SubRoutine", lambda: ["n", void(), [], "body"], "EXEC_ONLY"),
        ("GCCStmtDeclExpr", "GCCStmtDeclExpr", lambda: ["n", mk_pure("stmt", cls="Effect"), mk_pure("e", vt32()), vt32()], "EXEC_THEN_SET_VAL"),
    ]
    for key, cls, args, exp in cases:
        obs = seq_of(cls, args)
        ctx.check(f"{key} order", obs == {exp}, exp, str(sorted(obs)), fn_where(idx, idx.func(f"{cls}.__init__")))
    # SubRoutineCall: executes, then the caller reads ret_val
    def once(interp):
        sr = AObj("SubRoutine", {"value_type": vt32(), "name": "r", "routine_name": "r"}, label="sr")
        return interp.construct("SubRoutineCall", [sr, []], {})
    outs = Interp(idx, call_hook=lambda i, c, a, k, t: "r" if getattr(getattr(c, "finfo", None), "name", "") == "get_name" else NotImplemented).explore(once)
    obs = {("RAISE " + str(o.value)) if o.kind == "raise" else o.value.fields["seq_order"].member for o in outs}
    ctx.check("SubRoutineCall order", obs == {"EXEC_THEN_SET_VAL"}, "EXEC_THEN_SET_VAL", str(sorted(obs)), fn_where(idx, idx.func("SubRoutineCall.__init__")))
    # resolve_hybrid: order -> emitted pair
    for order, exp in (("SET_VAL_THEN_EXEC", ["set_tmp", "hybrid"]), ("EXEC_THEN_SET_VAL", ["hybrid", "set_tmp"]), ("NOT_SET", "RAISE")):
        r = Runner(idx, keep_real=("resolve_hybrid",))
        fi, outs = r.run("resolve_hybrid", lambda: [AObj("Hybrid", {"value_type": vt32(), "seq_order": hyb_order(order), "references_set": set()}, label="hybrid", opaque=True)], args_list=True)
        for o in outs:
            if o.kind == "raise":
                ctx.check(f"resolve_hybrid[{order}]", exp == "RAISE", str(exp), "RAISE", fn_where(idx, fi))
                continue
            seqs = [e[2] for e in o.events if e[0] == "node" and e[1] == "Sequence"]
            got = [("set_tmp" if x.startswith("Assignment(") else x) for x in seq_effects(seqs[-1])] if seqs else []
            ctx.check(f"resolve_hybrid[{order}]", got == exp, str(exp), str(got), fn_where(idx, fi))
            # value handed back is the temporary, and the pending entry is keyed by its name
            holder = r.self_obj.fields["il_ops_holder"]
            d = holder.fields["hybrid_effect_dict"]
            keys = [to_text(k) for k in d]
            v = o.value
            tname = to_text(ctor(v, "name")) if isinstance(v, AObj) and v.cls == "LocalVar" else None
            ctx.check(f"resolve_hybrid[{order}] registers the pending pair under the temporary's name and returns the temporary", tname is not None and keys == [tname] and tname.endswith("0"),
                      "hybrid_effect_dict[<name>] = seq ; return LocalVar(<name>), <name> = <prefix>0", f"keys={keys}, returns {lab(v)[:50]} named {tname}", fn_where(idx, fi))
            ctx.check(f"resolve_hybrid[{order}] numbers temporaries with a counter that only grows", holder.fields.get("hybrid_op_count") == 1, "hybrid_op_count 0 -> 1", str(holder.fields.get("hybrid_op_count")), fn_where(idx, fi))
    # void hybrids stay in statement position
    r = Runner(idx, keep_real=("resolve_hybrid",))
    fi, outs = r.run("resolve_hybrid", lambda: [AObj("Hybrid", {"value_type": void(), "seq_order": hyb_order("EXEC_ONLY"), "references_set": set()}, label="hybrid", opaque=True)], args_list=True)
    flushed_void = all(any(e[0] == "flush" and e[1] is o.value for e in o.events) for o in outs if o.kind != "raise")
    ctx.check("resolve_hybrid[void] returns the effect itself, sequenced after the pending effects of its arguments", [lab(o.value) for o in outs] == ["hybrid"] and flushed_void,
              "chk_hybrid_dep(hybrid)", f"{[lab(o.value) for o in outs]}, flushed={flushed_void}", fn_where(idx, fi))
    # PostfixIncDec templates
    for op, name in (("++", "INC"), ("--", "DEC")):
        for ocls, exp in (("Register", f"WRITE_REG(bundle, <x.get_op_var()>, {name}(<x.il_read()>, <W>))"), ("LocalVar", f"SETL(<x.vm_id()>, {name}(<x.il_read()>, <W>))")):
            fi2, outs = run_il_exec(idx, "PostfixIncDec", lambda: {"op_type": ht[op], "ops": [mk_pure("x", vt32(), cls=ocls)], "value_type": mk_vt("t", True, Sym("W")), "gl": "L" if ocls == "LocalVar" else "G"}, method="il_write")
            obs = " | ".join(sorted({normalise(outcome_text(o)) for o in outs}))
            ctx.check(f"PostfixIncDec.il_write[{op},{ocls}]", obs == exp, exp, obs, fn_where(idx, fi2))
    fi3 = idx.func("get_scope_letter")
    for ocls, exp in (("Register", "G"), ("GlobalVar", "G"), ("LocalVar", "L"), ("Variable", "L")):
        outs = Interp(idx).explore(lambda i: i.call_function(fi3, [mk_pure("x", cls=ocls)]))
        ctx.check(f"get_scope_letter[{ocls}]", [o.value for o in outs] == [exp], exp, str([outcome_text(o) for o in outs]), fn_where(idx, fi3))
    # the value of x++ is read through the operand (old value, because the temporary is set first)
    fi4 = idx.func("PostfixIncDec.il_read")
    outs = Interp(idx).explore(lambda i: i.call_function(fi4, [], self_obj=AObj("PostfixIncDec", {"ops": [mk_pure("x")]}, label="self")))
    ctx.check("PostfixIncDec.il_read reads the operand", [to_text(o.value) for o in outs] == ["<x.il_read()>"], "<x.il_read()>", str([to_text(o.value) for o in outs]), fn_where(idx, fi4))
    fi5 = idx.func("GCCStmtDeclExpr.il_read")
    outs = Interp(idx).explore(lambda i: i.call_function(fi5, [], self_obj=AObj("GCCStmtDeclExpr", {"expr": mk_pure("e"), "stmt": mk_pure("s", cls="Effect")}, label="self")))
    ctx.check("statement-expression value is its last expression", [to_text(o.value) for o in outs] == ["<e.il_read()>"], "<e.il_read()>", str([to_text(o.value) for o in outs]), fn_where(idx, fi5))
    fi6 = idx.func("GCCStmtDeclExpr.il_write")
    outs = Interp(idx).explore(lambda i: i.call_function(fi6, [], self_obj=AObj("GCCStmtDeclExpr", {"expr": mk_pure("e"), "stmt": mk_pure("s", cls="Effect")}, label="self")))
    ctx.check("statement-expression effect is its statement", [to_text(o.value) for o in outs] == ["<s.il_write()>"], "<s.il_write()>", str([to_text(o.value) for o in outs]), fn_where(idx, fi6))


def op_with_name(r, label, name):
    o = r.pure(label)
    r.stubs[(label, "get_name")] = name
    return o


def pending_effect_placement(ctx):
    """chk_hybrid_dep puts the pending effects of the temporaries a consumer reads in front of it (behind it on request), in the
    order of the consumer's operands - whatever numbers the temporaries carry (h_tmp9 before h_tmp10: the counter is never
    reset, so the numbers depend on what the transformer compiled before)"""
    idx = get_index(ctx.env)
    # the consumer may be any effect, or a hybrid without a value (a void call is handed over as it is)
    consumers = ["Effect"] + sorted(c for c in (set(idx.subclasses("Effect", strict=True)) | set(idx.subclasses("Hybrid"))) if c in idx.classes and c != "Effect")
    for order, exp, ccls in [(o, e, c) for c in consumers for o, e in ((None, ["s9", "s10", "consumer"]), ("HYB_THEN_SEQ", ["s9", "s10", "consumer"]), ("SEQ_THEN_HYB", ["consumer", "s9", "s10"]))
                             if c == "Effect" or o is None]:
        r = Runner(idx, keep_real=("chk_hybrid_dep",))
        box = {}
        tag = "" if ccls == "Effect" else f", consumer is a {ccls}"

        def args():
            ops = [op_with_name(r, "o9", "h_tmp9"), op_with_name(r, "ox", "x"), "ENUM_STR", op_with_name(r, "o10", "h_tmp10"), op_with_name(r, "o9b", "h_tmp9")]
            cons = r.pure("consumer", cls=ccls)
            r.stubs[("consumer", "get_op_list")] = ops
            return [cons] + ([hyb_order(order)] if order else [])

        def over():
            d = {"h_tmp9": eff(r, "s9"), "h_tmp10": eff(r, "s10"), "h_tmp3": eff(r, "s3")}
            box["d"] = d
            return {"il_ops_holder": AObj("ILOpsHolder", {"hybrid_effect_dict": d, "hybrid_op_count": 11}, label="holder", opaque=True)}

        fi, outs = r.run("chk_hybrid_dep", args, self_over=over, args_list=True)
        for o in outs:
            v = o.value
            got = seq_effects(v) if isinstance(v, AObj) and v.cls == "Sequence" else [lab(v)]
            ctx.check(f"chk_hybrid_dep[order={order or 'default'}{tag}] placement", got == exp, str(exp), str(got), fn_where(idx, fi), nontrivial=(ccls in ("Effect", "SubRoutineCall", "Assignment")))
            ctx.check(f"chk_hybrid_dep[order={order or 'default'}{tag}] leaves unreferenced pending effects pending", sorted(box["d"]) == ["h_tmp3"], "['h_tmp3']", str(sorted(box["d"])), fn_where(idx, fi), nontrivial=(ccls in ("Effect", "SubRoutineCall", "Assignment")))


@rule("R06.2", "C06", "chk_hybrid_dep: pending effects of referenced temporaries are sequenced in operand order before the consumer (after it only on request); unreferenced ones stay pending; every effect-producing callback wraps its result", min_instances=12)
def r06_2(ctx):
    idx = get_index(ctx.env)
    op_list_completeness(ctx)
    condition_effects_are_sequenced(ctx)
    pending_effect_placement(ctx)
    temporary_name_is_its_key(ctx)
    arm_statement_effects_taken_once(ctx)
    # nothing pending / nothing referenced -> the effect itself
    r = Runner(idx, keep_real=("chk_hybrid_dep",))
    def args0():
        cons = r.pure("consumer", cls="Effect")
        r.stubs[("consumer", "get_op_list")] = [op_with_name(r, "ox", "x")]
        return [cons]
    fi, outs = r.run("chk_hybrid_dep", args0, self_over=lambda: {"il_ops_holder": AObj("ILOpsHolder", {"hybrid_effect_dict": {"h_tmp3": eff(r, "s3")}, "hybrid_op_count": 4}, label="holder", opaque=True)}, args_list=True)
    ctx.check("chk_hybrid_dep without referenced temporaries returns the effect", [lab(o.value) for o in outs] == ["consumer"], "consumer", str([lab(o.value) for o in outs]), fn_where(idx, fi))
    # who may pop pending effects
    poppers = set()
    for fi2 in idx.funcs.values():
        for n in ast.walk(fi2.node):
            if isinstance(n, ast.Call) and isinstance(n.func, ast.Attribute) and n.func.attr in ("pop", "popitem", "clear") and "hybrid_effect_dict" in U(n.func.value):
                poppers.add(fi2.qual)
            if isinstance(n, ast.Call) and isinstance(n.func, ast.Attribute) and n.func.attr in ("pop", "popitem", "clear") and isinstance(n.func.value, ast.Name):
                # alias of the dict
                for m in ast.walk(fi2.node):
                    if isinstance(m, ast.Assign) and isinstance(m.targets[0], ast.Name) and m.targets[0].id == n.func.value.id and "hybrid_effect_dict" in U(m.value):
                        poppers.add(fi2.qual)
    exp = {"RZILTransformer.chk_hybrid_dep", "RZILTransformer.emit_final_seq_return", "RZILTransformer.reset", "ILOpsHolder.update_hybrid_ref", "RZILTransformer.take_pending_effects"}
    ctx.check("who may remove pending effects", poppers == exp, str(sorted(exp)), str(sorted(poppers)), "rzilcompiler/Transformer/RZILTransformer.py")
    # only the loop-step site asks for SEQ_THEN_HYB
    sites = []
    for fi2 in idx.funcs.values():
        for n in ast.walk(fi2.node):
            if isinstance(n, ast.Call) and call_tail(n) == "chk_hybrid_dep" and (len(n.args) > 1 or n.keywords):
                sites.append((fi2.qual, U(n.args[1]) if len(n.args) > 1 else U(n.keywords[0].value)))
    ctx.check("only the loop body+step sequence is followed by its pending effects", sites == [("RZILTransformer.for_loop", "HybridSeqOrder.SEQ_THEN_HYB")], "[for_loop: SEQ_THEN_HYB]", str(sites), "rzilcompiler/Transformer/RZILTransformer.py")
    # must-wrap: every callback that returns an effect with operands
    specs = [
        ("init_declarator", lambda r: [Tok("IDENTIFIER", "v"), r.pure("items[1]", vt=mk_vt("t1", True, 32))], "Assignment"),
        ("assignment_expr", lambda r: [r.pure("items[0]", vt=mk_vt("t0", True, 32)), Tok("ASSIGN_OP", "="), r.pure("items[2]", vt=mk_vt("t2", True, 32))], "Assignment"),
        ("assignment_expr", lambda r: [r.pure("items[0]", vt=mk_vt("t0", True, 32)), Tok("ASSIGN_OP", "+="), r.pure("items[2]", vt=mk_vt("t2", True, 32))], "Assignment"),
        ("mem_store", lambda r: [Tok("MEM_STORE", "mem_store_"), Tok("SIGN_TYPE", "s"), Tok("BIT_WIDTH", "32"), r.pure("items[3]"), r.pure("items[4]", vt=mk_vt("t4", False, 8))], "MemStore"),
        ("jump", lambda r: [Tok("JUMP", "JUMP"), r.pure("items[1]", vt=mk_vt("t1", False, 32))], "Jump"),
        ("jump_stmt", lambda r: [Tok("RETURN", "return"), r.pure("items[1]", vt=mk_vt("t1", False, 64))], "Assignment"),
        ("selection_stmt", lambda r: [Tok("IF", "if"), r.pure("items[1]"), eff(r, "items[2]")], "Branch"),
        ("selection_stmt", lambda r: [Tok("IF", "if"), r.pure("items[1]"), eff(r, "items[2]"), Tok("ELSE", "else"), eff(r, "items[4]")], "Branch"),
        ("cancel_slot_stmt", lambda r: [], "NOP"),
    ]
    for cb, mk, cls in specs:
        r = Runner(idx, sym_compare=interval_compare())
        fi, outs = r.run(cb, lambda mk=mk, r=r: mk(r))
        good = [o for o in outs if o.kind != "raise"]
        ctx.need(good, f"{cb} has no translating path")
        for o in good:
            v = o.value
            desc = f"{v.cls} flushed={v.fields.get('flushed')}" if isinstance(v, AObj) else lab(v)
            ctx.check(f"{cb} -> {cls} is wrapped in chk_hybrid_dep", isinstance(v, AObj) and v.cls == cls and v.fields.get("flushed") == "HYB_THEN_SEQ", f"{cls} flushed HYB_THEN_SEQ", desc, fn_where(idx, fi))
            if cls == "Branch":
                for arm in ("then", "otherwise"):
                    a = ctor(v, arm)
                    if isinstance(a, AObj) and a.cls == "Sequence":
                        ctx.check(f"{cb}: {arm} arm flushes its own pending effects inside the arm", a.fields.get("flushed") == "HYB_THEN_SEQ", "arm Sequence flushed", str(a.fields.get("flushed")), fn_where(idx, fi))


@rule("R06.5", "C06", "?: guard table: a statement-expression arm runs only when selected (then-arm: BRANCH(c, stmt, EMPTY); else-arm: BRANCH(c, EMPTY, stmt))", min_instances=4)
def r06_5(ctx):
    ternary_guard_checks(ctx)


def ternary_guard_checks(ctx, pending=True):
    idx = get_index(ctx.env)
    gm = get_grammar(ctx.env)
    alt = [a for a in gm.rules["conditional_expr"] if len(a.symbols) > 1]
    ctx.check("conditional_expr layout", len(alt) == 1 and [c.name for c in alt[0].children] == ["logical_or_expr", "expr", "conditional_expr"], "[cond, then, else]", str([[c.name for c in a.children] for a in alt]), gm.where("conditional_expr"))

    def arm(r, label, hybrid):
        if not hybrid:
            return r.pure(label, vt=mk_vt("t" + label, True, 32))
        owner = AObj("GCCStmtDeclExpr", {"stmt": eff(r, f"{label}.stmt")}, label=f"{label}.owner", opaque=True)
        return r.pure(label, vt=mk_vt("t" + label, True, 32, ("PURE", "HYBRID_LVAR")), hybrid_owner=owner)

    for th, eh in ((True, False), (False, True), (True, True), (False, False)):
        r = Runner(idx)
        fi, outs = r.run("conditional_expr", lambda: [r.pure("items[0]"), arm(r, "items[1]", th), arm(r, "items[2]", eh)])
        good = [o for o in outs if o.kind != "raise" and not any(t.endswith(" folds") and v for t, v in o.decisions)]
        ctx.need(good, "conditional_expr has no translating path")
        for o in good:
            upd = {}
            for e in o.events:
                if e[0] == "setter" and e[2] == "update_stmt":
                    b = e[3]
                    upd[e[1].label] = f"Branch(cond={lab(ctor(b, 'cond'))}, then={lab(ctor(b, 'then'))[:14]}, otherwise={lab(ctor(b, 'otherwise'))[:14]})" if isinstance(b, AObj) and b.cls == "Branch" else lab(b)
            exp = {}
            if th:
                exp["items[1].owner"] = "Branch(cond=items[0], then=items[1].stmt, otherwise=Empty()"[:200]
            if eh:
                exp["items[2].owner"] = "Branch(cond=items[0], then=Empty(), otherwise=items[2].stmt"[:200]
            norm = {k: v.replace("Empty())", "Empty()").rstrip(")") for k, v in upd.items()}
            expn = {k: v.rstrip(")") for k, v in exp.items()}
            ctx.check(f"conditional_expr[then {'stmt-expr' if th else 'plain'}, else {'stmt-expr' if eh else 'plain'}] guards", norm == expn, str(expn), str(norm), fn_where(idx, fi))
            v = o.value
            ok = isinstance(v, AObj) and v.cls == "Ternary" and lab(ctor(v, "cond")) == "items[0]"
            ctx.check(f"conditional_expr[then {'stmt-expr' if th else 'plain'}, else {'stmt-expr' if eh else 'plain'}] value", ok, "Ternary(cond=items[0], ...)", lab(v)[:60], fn_where(idx, fi), nontrivial=False)
    # any other value-producing operation in an arm (i++, a call): its pending effect has to be guarded by the condition too
    for which in (("then", "else") if pending else ()):
        r = Runner(idx)
        box = {}

        def items_p(which=which):
            owner = AObj("PostfixIncDec", {}, label="inc.owner", opaque=True)
            pend = r.pure("pending_arm", vt=mk_vt("tp", True, 32, ("PURE", "HYBRID_LVAR")), cls="LocalVar", hybrid_owner=owner)
            r.stubs[("pending_arm", "get_name")] = "h_tmp7"
            plain = r.pure("plain_arm", vt=mk_vt("tq", True, 32))
            r.stubs[("plain_arm", "get_name")] = "x"
            return [r.pure("items[0]"), pend, plain] if which == "then" else [r.pure("items[0]"), plain, pend]

        def over_p():
            e7 = eff(r, "pending7")
            box["e7"] = e7
            h = AObj("ILOpsHolder", {"hybrid_effect_dict": {"h_tmp7": e7}, "hybrid_op_count": 8}, label="holder", opaque=True)
            box["h"] = h
            return {"il_ops_holder": h}

        fi, outs = r.run("conditional_expr", items_p, self_over=over_p)
        good = [o for o in outs if o.kind != "raise" and not any(t.endswith(" folds") and v for t, v in o.decisions)]
        ctx.need(good, "conditional_expr has no translating path for an arm with a pending operation")
        for o in good:
            d = box["h"].fields.get("hybrid_effect_dict")
            entry = d.get("h_tmp7") if isinstance(d, dict) else None
            guarded = isinstance(entry, AObj) and entry.cls == "Branch" and lab(ctor(entry, "cond")) == "items[0]" and \
                (ctor(entry, "then") is box["e7"] if which == "then" else ctor(entry, "otherwise") is box["e7"])
            ctx.check(f"?: whose {which}-arm is the value of `i++` or a call: the operation runs only if the arm is selected", guarded,
                      f"pending effect wrapped as BRANCH(cond, {'effect, EMPTY' if which == 'then' else 'EMPTY, effect'})",
                      "the pending effect stays unconditional: it is sequenced in front of the consumer and runs whichever arm is selected", fn_where(idx, fi))
    # update_stmt really replaces the statement that is emitted
    fu = idx.func("GCCStmtDeclExpr.update_stmt")
    box = {}
    def once(interp):
        old, new = mk_pure("old", cls="Effect"), mk_pure("new", cls="Effect")
        g = AObj("GCCStmtDeclExpr", {"stmt": old, "effect_ops": [old, mk_pure("e")]}, label="g")
        box["g"] = g
        interp.call_function(fu, [new], self_obj=g)
    Interp(idx).explore(once)
    g = box["g"]
    ctx.check("GCCStmtDeclExpr.update_stmt replaces the emitted statement and the dependency entry", lab(g.fields["stmt"]) == "new" and lab(g.fields["effect_ops"][0]) == "new", "stmt=new, effect_ops[0]=new", f"stmt={lab(g.fields['stmt'])}, effect_ops[0]={lab(g.fields['effect_ops'][0])}", fn_where(idx, fu))
    # ... whatever kind of statement it wraps (an `if` inside the statement-expression is a BRANCH already and still has to be guarded)
    et = idx.enum_table("EffectType")
    for member in sorted(et):
        box = {}
        def once_k(interp, member=member):
            old = AObj("Effect", {"type": EnumV("EffectType", member, et[member])}, label="old", opaque=True)
            new = mk_pure("new", cls="Effect")
            g = AObj("GCCStmtDeclExpr", {"stmt": old, "effect_ops": [old, mk_pure("e")]}, label="g")
            box["g"] = g
            interp.call_function(fu, [new], self_obj=g)
        Interp(idx).explore(once_k)
        g = box["g"]
        ctx.check(f"update_stmt replaces a statement of kind {member}", lab(g.fields["stmt"]) == "new" and lab(g.fields["effect_ops"][0]) == "new", "stmt=new, effect_ops[0]=new",
                  f"stmt={lab(g.fields['stmt'])}, effect_ops[0]={lab(g.fields['effect_ops'][0])}", fn_where(idx, fu), nontrivial=False)


def _prefix_once(ctx):
    # shared with C08 (R08.5 calls r06_6 as well): run the per-routine prefix clause once per rule context
    if getattr(ctx, "_prefix_done", False):
        return
    ctx._prefix_done = True
    from .c08 import routine_prefix_checks

    routine_prefix_checks(ctx)


@rule("R06.6", "C06", "temporaries: h_tmpN generated from a counter that is incremented on every name and never decremented or reset during a behaviour", min_instances=2)
def r06_6(ctx):
    _prefix_once(ctx)
    idx = get_index(ctx.env)
    writers = []
    for fi in idx.funcs.values():
        for n in ast.walk(fi.node):
            if isinstance(n, (ast.Assign, ast.AugAssign)):
                for t in (n.targets if isinstance(n, ast.Assign) else [n.target]):
                    if isinstance(t, ast.Attribute) and t.attr == "hybrid_op_count":
                        writers.append((fi.qual, U(n)))
    # while a behaviour is being transformed (anything a grammar callback can reach) the only write is the increment in
    # resolve_hybrid; writes from outside (constructor, a compiler method preparing a fresh transformer) cannot fall between
    # two operations of one behaviour
    gm = get_grammar(ctx.env)
    cb_names = transformer_callbacks(idx) & ({a.callback for alts in gm.rules.values() for a in alts} | set(gm.rules))
    roots = [idx.func(f"RZILTransformer.{c}") for c in sorted(cb_names) if idx.has_func(f"RZILTransformer.{c}")]
    ctx.need(len(roots) >= 30, f"only {len(roots)} grammar callbacks found")
    during = set(idx.reachable(roots))
    inside = sorted(w for w in writers if w[0] in during)
    exp_inside = [("RZILTransformer.resolve_hybrid", "self.il_ops_holder.hybrid_op_count += 1")]
    ctx.check("writers of hybrid_op_count while a behaviour is transformed", inside == exp_inside, str(exp_inside), str(inside), "rzilcompiler/Transformer/RZILTransformer.py")
    ctx.check("the counter starts at a number", ("ILOpsHolder.__init__", "self.hybrid_op_count = 0") in writers, "ILOpsHolder.__init__: self.hybrid_op_count = 0", str(sorted(w for w in writers if w[0] not in during)), "rzilcompiler/Transformer/ILOpsHolder.py", nontrivial=False)
    # the name ends with the counter's value and the counter moves on: two operations of one behaviour never share a temporary
    fi = idx.func("RZILTransformer.resolve_hybrid")
    seen = []
    for count in (7, 8, 19):
        r = Runner(idx, keep_real=("resolve_hybrid",))
        box = {}

        def over(count=count):
            h = AObj("ILOpsHolder", {"hybrid_effect_dict": {}, "hybrid_op_count": count}, label="holder", opaque=True)
            box["h"] = h
            return {"il_ops_holder": h, "hybrid_tmp_prefix": "PFX"}

        def args():
            return [AObj("Hybrid", {"value_type": mk_vt("th", True, 32), "seq_order": hyb_order("EXEC_THEN_SET_VAL"), "references_set": set()}, label="hybrid", opaque=True)]

        f2, outs = r.run("resolve_hybrid", args, self_over=over, args_list=True)
        good = [o for o in outs if o.kind != "raise"]
        ctx.need(good, "resolve_hybrid has no non-raising path")
        for o in good:
            tmps = [e[2] for e in o.events if e[0] == "node" and e[1] == "LocalVar"]
            nm = to_text(ctor(tmps[0], "name")) if len(tmps) == 1 else None
            seen.append(nm)
            ok = isinstance(nm, str) and nm.endswith(str(count)) and not nm[: -len(str(count))][-1:].isdigit() and box["h"].fields.get("hybrid_op_count") == count + 1
            ctx.check(f"temporary name for counter value {count}", ok, f"<prefix>{count}, counter afterwards {count + 1}", f"name {nm}, counter afterwards {box['h'].fields.get('hybrid_op_count')}", fn_where(idx, fi))
    ctx.check("temporary names of different counter values differ", len(set(seen)) == len(seen), "pairwise distinct", str(seen), fn_where(idx, fi), nontrivial=False)


def temporary_name_is_its_key(ctx):
    """the pending effect of an operation is found again by the NAME of its temporary: whatever prefix the transformer was given (a routine
    body's transformer gets its own after construction), the name under which the temporary ends up registered is the key of the pending
    entry.  resolve_hybrid and add_op are both interpreted; every other attribute of the transformer holds what the constructor put there
    (unknown to the run: a value derived from the prefix at construction time may be stale)."""
    idx = get_index(ctx.env)
    fi = idx.func("RZILTransformer.resolve_hybrid")
    # the attribute(s) that carry the prefix: what compile_sub_routine stores on the routine's transformer and resolve_hybrid reads
    cs = idx.func("Compiler.compile_sub_routine")
    tvars = {U(n.targets[0]) for n in ast.walk(cs.node) if isinstance(n, ast.Assign) and isinstance(n.value, ast.Call) and call_name(n.value) == "RZILTransformer"}
    stored = {n.targets[0].attr for n in ast.walk(cs.node) if isinstance(n, ast.Assign) and isinstance(n.targets[0], ast.Attribute) and U(n.targets[0].value) in tvars}
    read = {n.attr for n in ast.walk(fi.node) if isinstance(n, ast.Attribute) and isinstance(n.ctx, ast.Load) and U(n.value) == "self"}
    pattrs = sorted(stored & read)
    for prefix in ("h_tmp", "h_tmp_clz32_", "h_tmp_sat_inc_2_", "t"):
        for order in ("EXEC_THEN_SET_VAL", "SET_VAL_THEN_EXEC"):
            r = Runner(idx, keep_real=("resolve_hybrid", "add_op"), node_bases=("Effect",))

            def once(interp, prefix=prefix, order=order):
                r.nodes = []
                h = AObj("ILOpsHolder", {"op_count": 5, "read_ops": {}, "exec_ops": {}, "write_ops": {}, "hybrid_effect_dict": {}, "hybrid_op_count": 3}, label="holder", opaque=False)
                s_ = r.mk_self(il_ops_holder=h, inlined_pure_classes=(), parameters={}, **{a: prefix for a in pattrs})
                r.self_obj = s_
                hyb = AObj("Hybrid", {"value_type": mk_vt("th", True, 32), "seq_order": hyb_order(order), "references_set": set()}, label="hybrid", opaque=True)
                v = interp.call_function(fi, [hyb], None, self_obj=s_)
                return [v, h]
            outs = Interp(idx, call_hook=r.hook).explore(once, max_runs=256)
            good = [o for o in outs if o.kind == "return"]
            bad = []
            for o in good:
                v, h = o.value
                nm = v.fields.get("name") if isinstance(v, AObj) else None
                keys = [to_text(k) for k in h.fields["hybrid_effect_dict"]]
                regs = [to_text(k) for k in h.fields["read_ops"]]
                nm = to_text(nm) if nm is not None else None
                if not (nm is not None and keys == [nm] and nm in regs):
                    bad.append(f"temporary named {to_text(nm)}, registered {regs}, pending entry under {keys}")
            ctx.check(f"resolve_hybrid + add_op, prefix {prefix!r}, {order}: the temporary is registered under the key of its pending entry", bool(good) and not bad,
                      "one name: LocalVar name = key of hybrid_effect_dict = key of read_ops", "; ".join(sorted(set(bad))[:2]) or ("no returning path" if not good else "ok"), fn_where(idx, fi),
                      nontrivial=(prefix != "h_tmp"))


MUST_USE = {"chk_hybrid_dep", "resolve_hybrid", "init_a_cast", "promotion_cast", "cast_operands", "add_op"}


@rule("R06.7", "C06", "the sequence returned by chk_hybrid_dep (consumer plus its pending effects) is the one that is used; pending effects of nested hybrids stay attached", min_instances=3)
def r06_7(ctx):
    idx = get_index(ctx.env)
    n = 0
    for fi in idx.funcs.values():
        if fi.cls != "RZILTransformer":
            continue
        for s in ast.walk(fi.node):
            if isinstance(s, ast.Expr) and isinstance(s.value, ast.Call) and call_tail(s.value) in MUST_USE - {"add_op"}:
                ctx.check(f"{fi.qual}: result of {call_tail(s.value)} is discarded", False, "result is returned, assigned or passed on", U(s)[:80], fn_where(idx, fi))
            if isinstance(s, ast.Call) and call_tail(s) == "chk_hybrid_dep":
                n += 1
    ctx.check("chk_hybrid_dep call sites found", n >= 15, ">= 15 call sites", str(n), "rzilcompiler/Transformer/RZILTransformer.py", nontrivial=False)
    # resolve_hybrid: when the hybrid's own operands have pending effects, the registered pair includes them
    r = Runner(idx, keep_real=("resolve_hybrid",))
    r.flush_forks = True
    fi, outs = r.run("resolve_hybrid", lambda: [AObj("Hybrid", {"value_type": mk_vt("t", True, 32), "seq_order": hyb_order("EXEC_THEN_SET_VAL"), "references_set": set()}, label="hybrid", opaque=True)], args_list=True)
    seen = 0
    for o in outs:
        if o.kind == "raise":
            continue
        forked = [v for t, v in o.decisions if t == "pending effects reference the consumer"]
        if not any(forked):
            continue
        seen += 1
        d = r.self_obj.fields["il_ops_holder"].fields["hybrid_effect_dict"] if False else None
    # evaluate per outcome through the events: the dict store is an event
    for o in outs:
        if o.kind == "raise":
            continue
        forked = [v for t, v in o.decisions if t == "pending effects reference the consumer"]
        stores = [e for e in o.events if e[0] == "setitem" and isinstance(e[1], dict)]
        if not stores:
            ctx.check("resolve_hybrid registers its pending pair", False, "hybrid_effect_dict[h_tmpN] = seq", "no store", fn_where(idx, fi))
            continue
        val = stores[-1][3]
        if any(forked):
            ok = isinstance(val, AObj) and (val.label or "").startswith("Flushed(")
            ctx.check("resolve_hybrid[nested pending effects] registers the flushed sequence", ok, "Flushed(Sequence([hybrid, set_tmp]))", lab(val)[:80], fn_where(idx, fi))
        else:
            ctx.check("resolve_hybrid[no nested pending effects] registers the pair", isinstance(val, AObj) and val.cls == "Sequence", "Sequence([hybrid, set_tmp])", lab(val)[:80], fn_where(idx, fi), nontrivial=False)


def block_item_checks(ctx):
    """a block item whose value is a pending hybrid temporary is replaced by its pending effect (sequenced in place)"""
    idx = get_index(ctx.env)
    for pending in (True, False):
        r = Runner(idx)
        box = {}
        def items():
            v = r.pure("items[0]", vt=mk_vt("t0", True, 32, ("PURE", "HYBRID_LVAR")), cls="LocalVar")
            r.stubs[("items[0]", "get_name")] = "h_tmp4"
            return [v]
        def over():
            d = {"h_tmp4": eff(r, "pending4"), "h_tmp2": eff(r, "pending2")} if pending else {"h_tmp2": eff(r, "pending2")}
            box["d"] = d
            return {"il_ops_holder": AObj("ILOpsHolder", {"hybrid_effect_dict": d, "hybrid_op_count": 5}, label="holder", opaque=True)}
        fi, outs = r.run("block_item", items, self_over=over)
        got = [lab(o.value) if o.kind != "raise" else outcome_text(o) for o in outs]
        exp = ["pending4"] if pending else ["items[0]"]
        ctx.check(f"block_item[value {'with' if pending else 'without'} pending effect]", got == exp and sorted(box["d"]) == ["h_tmp2"], f"{exp}, other pending effects untouched", f"{got}, pending {sorted(box['d'])}", fn_where(idx, fi))
    r = Runner(idx)
    fi, outs = r.run("block_item", lambda: [eff(r, "stmt")])
    ctx.check("block_item[effect] passes the statement through", [lab(o.value) for o in outs] == ["stmt"], "stmt", str([lab(o.value) for o in outs]), fn_where(idx, fi))


@rule("R06.3", "C06", "flush completeness: a value-producing operation whose value is unused (expression statement) is still sequenced at its source position", min_instances=3)
def r06_3(ctx):
    from .c15 import get_engine

    idx = get_index(ctx.env)
    gm = get_grammar(ctx.env)
    ke = get_engine(ctx.env)
    for e in ke.errors:
        ctx.need(False, f"kind engine: {e}")
    cbs = transformer_callbacks(idx)
    # statement positions: where does a pending-hybrid value end up?
    es = [a for a in gm.rules["expr_stmt"] if len(a.symbols) == 2]
    ctx.need(len(es) == 1, "expr_stmt: `expr ;` alternative not found")
    ctx.note(f"`expr ;` is {gm.shape(es[0], cbs)[0]} (no flushing callback runs for an expression statement)")
    block_item_checks(ctx)
    sites = {"fbody (top-level Effect filter)": "RZILTransformer.emit_final_seq_return", "selection_stmt: Sequence element": "RZILTransformer.selection_stmt",
             "iteration_stmt: Sequence element": "RZILTransformer.for_loop", "gcc_extended_expr: Sequence element": "RZILTransformer.gcc_extended_expr"}
    hits = {k: f for k, f in ke.findings.items() if f.kind == "D2" and k.endswith("pending hybrid value")}
    for site, q in sites.items():
        k = f"{site}: pending hybrid value"
        f = hits.pop(k, None)
        fi = idx.func(q)
        ctx.check(f"statement position [{site.split(':')[0].split(' (')[0]}] never receives an unflushed hybrid value", f is None, "pending effects are sequenced where the statement stands",
                  "an expression statement such as `i++;` or `f(x);` arrives here as a plain value; its effect stays pending and is emitted at the start of the instruction / outside this block" if f else "ok", fn_where(idx, fi))
    for k, f in hits.items():
        ctx.check(k, False, "pending effects are sequenced where the statement stands", f.observed, f.where)


@rule("R06.4", "C06", "side effects inside a loop condition would have to run on every iteration: such a loop is rejected, never translated with the effect hoisted out of the loop", min_instances=2)
def r06_4(ctx):
    idx = get_index(ctx.env)
    for pending in (True, False):
        r = Runner(idx)

        def items():
            cond = r.pure("items[2]", vt=mk_vt("tc", True, 32, ("PURE", "HYBRID_LVAR") if pending else ("PURE",)), cls="LocalVar")
            r.stubs[("items[2]", "get_name")] = "h_tmp7" if pending else "x"
            return [Tok("FOR", "for"), eff(r, "items[1]"), cond, eff(r, "items[3]"), eff(r, "items[4]")]

        def over():
            return {"il_ops_holder": AObj("ILOpsHolder", {"hybrid_effect_dict": {"h_tmp7": eff(r, "pending7")} if pending else {}, "hybrid_op_count": 8}, label="holder", opaque=True)}

        fi, outs = r.run("iteration_stmt", items, self_over=over)
        obs = sorted({"raises" if o.kind == "raise" else "translates" for o in outs})
        exp = ["raises"] if pending else ["translates"]
        ctx.check(f"for loop whose condition {'has a' if pending else 'has no'} pending side effect", obs == exp, str(exp), str(obs), fn_where(idx, fi))
    # the value of the operation may sit anywhere below the condition: `(uint8_t) j++ < 3`, `(f(k) + 0) < 30`
    for depth in (1, 2, 3):
        r = Runner(idx)

        def items_nested(depth=depth):
            h = r.pure("pending_value", vt=mk_vt("th", True, 32, ("PURE", "HYBRID_LVAR")), cls="LocalVar")
            r.stubs[("pending_value", "get_name")] = "h_tmp7"
            node = h
            for d in range(depth):
                cls = ("Cast", "ArithmeticOp", "CompareOp")[d % 3]
                lbl = f"level{d}"
                node = r.pure(lbl, vt=mk_vt("t" + lbl, True, 32), cls=cls, ops=[node, r.pure(f"other{d}", cls="Number")])
                r.stubs[(lbl, "get_name")] = lbl
                r.stubs[(f"other{d}", "get_name")] = f"const{d}"
                r.stubs[(lbl, "get_ops")] = node.fields["ops"]
            node.label = "items[2]"
            r.stubs[("items[2]", "get_name")] = "cond"
            r.stubs[("items[2]", "get_ops")] = node.fields["ops"]
            return [Tok("FOR", "for"), eff(r, "items[1]"), node, eff(r, "items[3]"), eff(r, "items[4]")]

        def over_nested():
            return {"il_ops_holder": AObj("ILOpsHolder", {"hybrid_effect_dict": {"h_tmp7": eff(r, "pending7")}, "hybrid_op_count": 8}, label="holder", opaque=True)}

        fi, outs = r.run("iteration_stmt", items_nested, self_over=over_nested)
        obs = sorted({"raises" if o.kind == "raise" else "translates" for o in outs})
        ctx.check(f"for loop whose condition uses a pending value {depth} level(s) below its top operator", obs == ["raises"], "['raises']", str(obs), fn_where(idx, fi))


@rule("R06.8", "C06", "one operation per evaluation: every translating path of a value-producing callback builds its own hybrid node and resolves that one, whatever the transformer has seen before", min_instances=5)
def r06_8(ctx):
    idx = get_index(ctx.env)
    vt32 = lambda n: mk_vt(n, True, 32)

    def routine_over(r):
        def over():
            s = AObj("SubRoutine", {}, label="routine", opaque=True)
            r.stubs[("routine", "get_parameter_value_types")] = "PARAM_TYPES"
            r.stubs[("routine", "get_name")] = "clz32"
            return {"sub_routines": {"clz32": s}}
        return over

    cases = [
        ("postfix_expr[++]", "postfix_expr", lambda r: [r.pure("items[0]", vt=vt32("t0"), cls="LocalVar"), Tok("INC_OP", "++")], "PostfixIncDec", None),
        ("postfix_expr[--]", "postfix_expr", lambda r: [r.pure("items[0]", vt=vt32("t0"), cls="LocalVar"), Tok("DEC_OP", "--")], "PostfixIncDec", None),
        ("sub_routine[registered routine]", "sub_routine", lambda r: ["clz32", r.pure("items[1]", vt=vt32("t1"))], "SubRoutineCall", routine_over),
        ("sub_routine[unregistered -> c_call]", "sub_routine", lambda r: ["some_helper", r.pure("items[1]", vt=vt32("t1"))], "Call", routine_over),
        ("c_call", "c_call", lambda r: ["some_helper", r.pure("items[1]", vt=vt32("t1"))], "Call", None),
        ("gcc_extended_expr[stmt; value]", "gcc_extended_expr", lambda r: [eff(r, "items[0]"), r.pure("items[1]", vt=vt32("t1"))], "GCCStmtDeclExpr", None),
    ]
    for key, cb, mk, cls, over in cases:
        r = Runner(idx)
        if cb in ("sub_routine", "c_call"):
            r.summarised = r.summarised | {"cast_sub_routine_args"}
            r.s_cast_sub_routine_args = lambda interp, args, kwargs: args[1]
        fi, outs = r.run(cb, lambda: mk(r), self_over=over(r) if over else None)
        good = [o for o in outs if o.kind != "raise"]
        ctx.need(good, f"{key}: no translating path")
        for o in good:
            created = [e[2] for e in o.events if e[0] == "node" and e[1] == cls]
            v = o.value
            h = v.fields.get("hybrid") if isinstance(v, AObj) else None
            ok = len(created) == 1 and h is created[0]
            ctx.check(f"{key} resolves a hybrid built by this evaluation", ok, f"Hyb(new {cls})",
                      f"{lab(v)[:70]} (nodes built on this path: {[lab(c)[:40] for c in created]}; decisions: {[d for d in o.decisions][:4]})", fn_where(idx, fi))


def op_list_completeness(ctx):
    """chk_hybrid_dep finds the temporaries an effect depends on through Effect.get_op_list(): that list has to contain the
    leaf operands below every kind of operand node (otherwise a pending effect referenced through such a node is left over
    and emitted at the start of the instruction)."""
    idx = get_index(ctx.env)
    fi = idx.func("Effect.get_op_list")
    kinds = sorted(c for c in (set(idx.subclasses("PureExec")) | set(idx.subclasses("Hybrid"))) if c in idx.classes)
    ctx.need(len(kinds) >= 10, f"operand node classes: only {len(kinds)} found")
    for cname in kinds:
        box = {}

        def once(i, cname=cname):
            leaf = AObj("LocalVar", {"name": "h_tmp3"}, label="leaf", opaque=True)
            inner = AObj(cname, {"ops": [leaf], "effect_ops": [leaf]}, label="node", opaque=True)
            outer = AObj("Cast", {"ops": [inner]}, label="outer", opaque=True)
            eff0 = AObj("Effect", {"effect_ops": [outer]}, label="effect")
            box["leaf"] = leaf
            return i.call_function(fi, [], self_obj=eff0)

        def hook(interp, callee, args, kwargs, text):
            # a nested effect / hybrid answers with its own list (same method, checked for the base class here)
            from sa.absint import OpaqueMethod
            if isinstance(callee, OpaqueMethod) and callee.attr in ("get_op_list",):
                return [box["leaf"]]
            return NotImplemented

        try:
            outs = Interp(idx, call_hook=hook, may_subclass=False).explore(once)
        except Exception as e:
            ctx.need(False, f"Effect.get_op_list[{cname}]: {e}")
        found = all(o.kind != "raise" and any(x is box["leaf"] for x in (o.value if isinstance(o.value, list) else [o.value])) for o in outs) and bool(outs)
        ctx.check(f"get_op_list reaches a temporary below a {cname} operand", found, "the leaf operand is listed", "leaf missing: a pending effect referenced through this node is never sequenced before its consumer", fn_where(idx, fi))


def condition_effects_are_sequenced(ctx):
    """an `if` whose condition contains a value-producing operation: whatever the body looks like (also empty), the operation's
    pending effect leaves the pending table and is part of what the callback returns"""
    idx = get_index(ctx.env)
    bodies = (("one statement", lambda r: [eff(r, "s0")]), ("empty block", lambda r: [AObj("Empty", {"name": "empty", "effect_ops": [], "type": Opaque("t")}, label="empty0")]),
              ("two empty statements", lambda r: [AObj("Empty", {"name": "empty", "effect_ops": [], "type": Opaque("t")}, label="empty0"), AObj("Empty", {"name": "empty", "effect_ops": [], "type": Opaque("t")}, label="empty1")]))
    for bname, mk in bodies:
        for with_else in (False, True):
            r = Runner(idx)
            box = {}

            def items(mk=mk, with_else=with_else):
                cond = r.pure("items[1]", vt=mk_vt("tc", True, 32, ("PURE", "HYBRID_LVAR")), cls="LocalVar")
                r.stubs[("items[1]", "get_name")] = "h_tmp7"
                it = [Tok("IF", "if"), cond, mk(r)]
                if with_else:
                    it += [Tok("ELSE", "else"), [eff(r, "e0")]]
                return it

            def over():
                pend = eff(r, "pending7")
                box["pend"] = pend
                h = AObj("ILOpsHolder", {"hybrid_effect_dict": {"h_tmp7": pend}, "hybrid_op_count": 8}, label="holder", opaque=True)
                box["h"] = h
                return {"il_ops_holder": h}

            fi, outs = r.run("selection_stmt", items, self_over=over)
            good = [o for o in outs if o.kind != "raise"]
            ctx.need(good, f"selection_stmt has no translating path [{bname}]")
            for o in good:
                # the callback's result must be an effect that (a) has the condition among its operands and (b) went through
                # chk_hybrid_dep (whose body - pop the referenced pending effects, put them in front - is checked above)
                v = o.value
                flushed = [e[1] for e in o.events if e[0] == "flush"]
                uses_cond = isinstance(v, AObj) and any(isinstance(x, AObj) and x.label == "items[1]" for x in r.node_op_list(v))
                ok = isinstance(v, AObj) and any(f is v or (isinstance(v, AObj) and v.fields.get("wraps") is f) for f in flushed) and uses_cond
                ctx.check(f"if (<value-producing operation>) with {bname}{' and else' if with_else else ''}: its effect is sequenced with the branch", ok,
                          "the result is the flushed effect that evaluates the condition", f"returns {lab(v)[:50]} (evaluates the condition: {uses_cond}; flushed: {[lab(f)[:20] for f in flushed]})", fn_where(idx, fi))


def arm_statement_effects_taken_once(ctx):
    """an if / else arm that is an operation whose value is not used (`if (c) i++;`, `else f(x);`): the arm's sequence takes the pending
    effect over - it is a member of the arm and no longer pending afterwards (left pending, it would be sequenced a second time by the
    next consumer or at the end of the behaviour: one effect, two parents)"""
    idx = get_index(ctx.env)
    for with_else in (False, True):
        r = Runner(idx)
        box = {}

        def items(with_else=with_else):
            t7 = r.pure("then_tmp", vt=mk_vt("t7", True, 32, ("PURE", "HYBRID_LVAR")), cls="LocalVar")
            r.stubs[("then_tmp", "get_name")] = "h_tmp7"
            it = [Tok("IF", "if"), r.pure("items[1]", vt=mk_vt("tc", True, 32)), t7]
            if with_else:
                t8 = r.pure("else_tmp", vt=mk_vt("t8", True, 32, ("PURE", "HYBRID_LVAR")), cls="LocalVar")
                r.stubs[("else_tmp", "get_name")] = "h_tmp8"
                it += [Tok("ELSE", "else"), t8]
            return it

        def over():
            p7, p8 = eff(r, "pending7"), eff(r, "pending8")
            h = AObj("ILOpsHolder", {"hybrid_effect_dict": {"h_tmp7": p7, "h_tmp8": p8}, "hybrid_op_count": 9, "read_ops": {}, "exec_ops": {}, "write_ops": {}, "let_ops": {}, "op_count": 20}, label="holder", opaque=False)
            box["h"] = h
            return {"il_ops_holder": h}

        fi, outs = r.run("selection_stmt", items, self_over=over)
        good = [o for o in outs if o.kind != "raise"]
        ctx.need(good, "selection_stmt has no translating path for an arm that is a pending operation")
        for o in good:
            left = sorted(to_text(k) for k in box["h"].fields["hybrid_effect_dict"])
            seqs = [e[2] for e in o.events if e[0] == "node" and e[1] == "Sequence"]
            members = [x for sq in seqs for x in seq_effects(sq)]
            exp_left = [] if with_else else ["h_tmp8"]
            want = ["pending7"] + (["pending8"] if with_else else [])
            ok = left == exp_left and all(members.count(w) == 1 for w in want)
            ctx.check(f"if (c) <operation>;{' else <operation>;' if with_else else ''}: each arm takes its operation's pending effect over", ok, f"members {want} once each, still pending afterwards: {exp_left}",
                      f"arm members {members}, still pending {left}", fn_where(idx, fi))


@rule("R06.9", "C06", "the value an operation yields is the one C defines, and an operation that is folded away disappears completely: a call result is ret_val narrowed to the declared return type; dropping the temporary of a dead arm removes its pending effect in both emission orders", min_instances=6)
def r06_9(ctx):
    from .c03 import r03_4
    from .c12 import r12_7

    r03_4(ctx)
    r12_7(ctx)


def operand_order(ctx):
    """the operand list of an operator node is in C evaluation order (the order its pending side effects are sequenced in): condition
    before the arms of ?:, left before right, arguments left to right"""
    from .c02 import members_by_value

    idx = get_index(ctx.env)
    P = lambda l: mk_pure(l, mk_vt("t" + l, True, 32))
    ar = members_by_value(idx, "ArithmeticType")
    bo = members_by_value(idx, "BitOperationType")
    cm = members_by_value(idx, "CompareOpType")
    bl = members_by_value(idx, "BooleanOpType")
    specs = [
        ("Ternary", lambda: ["n", P("cond"), P("then"), P("else")], ["cond", "then", "else"]),
        ("ArithmeticOp", lambda: ["n", P("a"), P("b"), ar["-"]], ["a", "b"]),
        ("BitOp", lambda: ["n", P("a"), P("b"), bo["<<"]], ["a", "b"]),
        ("CompareOp", lambda: ["n", P("a"), P("b"), cm["<"]], ["a", "b"]),
        ("BooleanOp", lambda: ["n", P("a"), P("b"), bl["&&"]], ["a", "b"]),
    ]
    classes = ["Pure"] + sorted(c for c in set(idx.subclasses("Pure")) | set(idx.subclasses("Hybrid")) if c in idx.classes and c != "Pure")
    op_fields = ("arith_type", "op_type")
    for c, mk, exp in specs:
        fi = idx.resolve_method(c, "__init__")
        ctx.need(fi is not None, f"{c}.__init__ not found")
        differing = []
        base = None
        # ... whatever kind of node an operand is (a literal in front is no reason to swap: the operator would have to be mirrored too)
        for pos in range(len(exp)):
            for ocls in classes:
                def once(i, c=c, mk=mk, pos=pos, ocls=ocls):
                    args = mk()
                    k = [j for j, a in enumerate(args) if isinstance(a, AObj) and a.label in exp][pos]
                    old = args[k]
                    extra = {"value": 5, "inlined": True} if ocls in ("Number", "Sizeof", "Bool", "LetVar") else {"ops": [], "lets": []} if (ocls in idx.classes and "PureExec" in idx.mro(ocls)) else None
                    args[k] = mk_pure(old.label, old.fields.get("value_type"), cls=ocls, fields=extra)
                    o = AObj(c, {}, label="node")
                    i.call_function(fi, args, self_obj=o)
                    return o
                try:
                    outs = Interp(idx).explore(once)
                except Exception as e:
                    differing.append(f"operand {exp[pos]} a {ocls}: {type(e).__name__}")
                    continue
                got = set()
                for o in outs:
                    if o.kind != "return" or not isinstance(o.value, AObj):
                        got.add("RAISE")
                        continue
                    ops = o.value.fields.get("ops")
                    opm = next((o.value.fields[f].member for f in op_fields if isinstance(o.value.fields.get(f), EnumV)), None)
                    got.add((tuple(lab(x) for x in ops) if isinstance(ops, list) else None, opm))
                if ocls == "Pure" and pos == 0:
                    base = got
                    ctx.check(f"{c}: operands listed in evaluation order", {g[0] for g in got if g != "RAISE"} == {tuple(exp)}, str(exp), str(sorted(map(str, got))), fn_where(idx, fi))
                elif got != base:
                    differing.append(f"operand {exp[pos]} a {ocls}: {sorted(map(str, got))[:1]}")
        ctx.check(f"{c}: operands and operator are stored as given, whatever kind of node an operand is", not differing, f"as for plain operands: {sorted(map(str, base or []))[:1]}", "; ".join(differing[:3]) or "ok", fn_where(idx, fi))


@rule("R06.10", "C06", "evaluation order and return discipline: operator nodes list their operands in C evaluation order (the order pending effects are flushed in); bundled routine bodies return only where nothing can follow", min_instances=10)
def r06_10(ctx):
    from .c08 import return_positions_lint

    operand_order(ctx)
    return_positions_lint(ctx)
    from .c17 import maximal_munch_checks

    maximal_munch_checks(ctx)  # x++ / x-- are operations of their own in every reading of the text (otherwise the operation vanishes)


@rule("R06.11", "C06", "an operation runs once, in the behaviour it belongs to: whatever way a compilation ends (also with an exception), its pending operations do not reach the next behaviour - every entry point resets the transformer on every exit", min_instances=2)
def r06_11(ctx):
    from .c14 import r14_2

    r14_2(ctx)
