"""C19 - loading and splitting resolved shortcode loses nothing."""
from __future__ import annotations

import ast
import re

from sa import rxmodel as rx
from sa.pyindex import get_index
from sa.report import PROP_ASSUMPTIONS, PROP_EXPLANATION, rule
from sa.symex import U, call_name, call_tail, paths_of

from .common import fn_where

PROP_EXPLANATION["C19"] = (
    "For-all-strings statements about the two splitting regexes are decided on their regex ASTs (anchoring, every consuming "
    "atom captured, unique split points) together with a linear-use dataflow of the capture groups into the returned parts; "
    "the loader loop is checked path by path (every non-comment line is split and stored, no swallowed error); the bundled "
    "file is linted."
)
PP = "PreprocessorHexagon"


def find_re_call(fn, names=("match", "search", "fullmatch"), idx=None, cls=None):
    """regex applications in `fn`, normalised to the module-level form re.<method>(pattern, subject, flags...):
    a pre-compiled pattern (local, module-level or class-level `re.compile(...)`) applied with <pattern>.<method>(subject)
    is rewritten to that form, so the rules see the same call whichever spelling the code uses."""
    compiled = {}  # expression text -> re.compile(...) call
    for n in ast.walk(fn):
        if isinstance(n, ast.Assign) and isinstance(n.value, ast.Call) and U(n.value.func) == "re.compile":
            for t in n.targets:
                compiled[U(t)] = n.value
    if idx is not None:
        mod = next((m for m, t in idx.modules.items() if any(f is fn for f in ast.walk(t))), None)
        for m, binds in idx.module_bindings.items():
            if mod is None or m == mod:
                for name, v in binds.items():
                    if isinstance(v, ast.Call) and U(v.func) == "re.compile":
                        compiled.setdefault(name, v)
        if cls is not None and cls in idx.classes:
            for c in idx.mro(cls):
                if c not in idx.classes:
                    continue
                for a, v in idx.classes[c].class_attrs.items():
                    if isinstance(v, ast.Call) and U(v.func) == "re.compile":
                        for recv in ("self", "cls", c, cls):
                            compiled.setdefault(f"{recv}.{a}", v)
    calls = []
    for n in ast.walk(fn):
        if not (isinstance(n, ast.Call) and isinstance(n.func, ast.Attribute) and n.func.attr in names):
            continue
        if U(n.func.value) == "re":
            calls.append(n)
        elif U(n.func.value) in compiled:
            comp = compiled[U(n.func.value)]
            new = ast.Call(func=ast.Attribute(value=ast.Name(id="re", ctx=ast.Load()), attr=n.func.attr, ctx=ast.Load()),
                           args=list(comp.args[:1]) + list(n.args[:1]) + list(comp.args[1:]) + list(n.args[1:]), keywords=list(comp.keywords))
            ast.copy_location(new, n)
            ast.fix_missing_locations(new)
            new._orig = n
            calls.append(new)
    calls.sort(key=lambda c: (getattr(c, "lineno", 0), getattr(c, "col_offset", 0)))
    return calls


def failed_match(g, pol, is_match_value):
    """is the guard (g, pol) the statement `the regex found nothing`?  spellings: `not m`, `m is None`, `m == None`, `not (m is not None)`"""
    if is_match_value(g):
        return not pol
    if isinstance(g, ast.Compare) and len(g.ops) == 1 and isinstance(g.comparators[0], ast.Constant) and g.comparators[0].value is None and is_match_value(g.left):
        if isinstance(g.ops[0], (ast.Is, ast.Eq)):
            return bool(pol)
        if isinstance(g.ops[0], (ast.IsNot, ast.NotEq)):
            return not pol
    return False


def pattern_text(node, scope=None):
    """the pattern as text when it is a literal, or an f-string / concatenation of literals and local names bound once to a literal
    (scope: the function the call stands in)"""
    consts = {}
    if scope is not None:
        seen = {}
        for n in ast.walk(scope):
            if isinstance(n, ast.Assign) and len(n.targets) == 1 and isinstance(n.targets[0], ast.Name):
                seen.setdefault(n.targets[0].id, []).append(n.value)
        consts = {k: v[0].value for k, v in seen.items() if len(v) == 1 and isinstance(v[0], ast.Constant) and isinstance(v[0].value, str)}

    def txt(x):
        if isinstance(x, ast.Constant) and isinstance(x.value, str):
            return x.value
        if isinstance(x, ast.Name) and x.id in consts:
            return consts[x.id]
        if isinstance(x, ast.FormattedValue) and x.format_spec is None and x.conversion == -1:
            inner = txt(x.value)
            return inner
        if isinstance(x, ast.JoinedStr):
            parts = [txt(v) for v in x.values]
            return None if any(p is None for p in parts) else "".join(parts)
        if isinstance(x, ast.BinOp) and isinstance(x.op, ast.Add):
            l, r = txt(x.left), txt(x.right)
            return None if l is None or r is None else l + r
        return None
    return txt(node)


def group_uses(expr, mvar):
    """list of group indices used in expr, in textual order: match.group(k) / match[k]"""
    out = []

    class V(ast.NodeVisitor):
        def visit_Call(self, n):
            if isinstance(n.func, ast.Attribute) and n.func.attr == "group" and n.args and isinstance(n.args[0], ast.Constant):
                out.append(n.args[0].value)
            self.generic_visit(n)

    V().visit(expr)
    return out


def literal_parts(expr):
    """string literals concatenated into the value (literals inside the re.match(...) call are not part of it)."""
    out = []

    def rec(n):
        if isinstance(n, ast.Call) and isinstance(n.func, ast.Attribute) and U(n.func.value) == "re":
            return
        if isinstance(n, ast.Constant) and isinstance(n.value, str):
            out.append(n.value)
        for c in ast.iter_child_nodes(n):
            rec(c)

    rec(expr)
    return out


@rule("R19.1", "C19", "split_resolved_shortcode: anchored at both ends, every consuming atom captured and returned, unique split points, subject unmodified", min_instances=8)
def r19_1(ctx):
    idx = get_index(ctx.env)
    fi = idx.func(f"{PP}.split_resolved_shortcode")
    calls = find_re_call(fi.node, idx=idx, cls=PP)
    ctx.need(len(calls) >= 1, "split_resolved_shortcode: no re.match/search call found")
    ctx.check("one pattern decides what a well-formed line is", len(calls) == 1, "a single anchored pattern; a line it does not match is rejected",
              f"{len(calls)} patterns: {[pattern_text(c_.args[0], fi.node) for c_ in calls]} - a fallback pattern accepts lines the anchored one rejects", fn_where(idx, fi))
    c = calls[0]
    pat = pattern_text(c.args[0], fi.node)
    ctx.need(pat is not None, "split_resolved_shortcode: pattern is not a literal")
    flags = re.ASCII if any("ASCII" in U(a) for a in c.args[2:]) or any("ASCII" in U(k.value) for k in c.keywords) else 0
    atoms = rx.parse(pat, flags)
    w = fn_where(idx, fi)
    param = fi.node.args.args[0].arg
    ctx.check("line regex anchored at the start", c.func.attr in ("match", "fullmatch") or (atoms and atoms[0].kind == "at" and "BEGINNING" in atoms[0].text), "re.match / ^", f"re.{c.func.attr}", w)
    ctx.check("line regex anchored at the end", c.func.attr == "fullmatch" or (atoms and atoms[-1].kind == "at" and "END" in atoms[-1].text), "$ / fullmatch", rx.describe(atoms[-1:]), w)
    ctx.check("line regex subject is the line itself", U(c.args[1]) == param, param, U(c.args[1]), w, note="trimming the subject before matching can drop body characters")
    rebinds = [U(n) for n in ast.walk(fi.node) if isinstance(n, (ast.Assign, ast.AugAssign)) and any(isinstance(t, ast.Name) and t.id == param for t in (n.targets if isinstance(n, ast.Assign) else [n.target]))]
    ctx.check("the line parameter is not rewritten before matching", not rebinds, "no assignment to the parameter", str(rebinds), w)
    shape = rx.describe(atoms)
    exp_shape = "'insn(' G1(CLASS{1,inf}) ', ' G2(ANY{1,inf}) ')' @END"
    ctx.check("line regex shape: literal frame around two captured fields", shape == exp_shape, exp_shape, shape, w)
    ctx.check("no consuming atom outside a capture group", not rx.uncaptured_nonliterals(atoms), "every non-literal atom captured", str(rx.uncaptured_nonliterals(atoms)), w)
    # unique split: the name class cannot match the separator's first character
    g1 = next((a for a in atoms if a.kind == "group" and a.group == 1), None)
    if g1 is not None and g1.sub and g1.sub[0].kind == "repeat" and g1.sub[0].inner and g1.sub[0].inner[0].kind == "class":
        cls = g1.sub[0].inner[0]
        i = atoms.index(g1)
        nxt = atoms[i + 1] if i + 1 < len(atoms) else None
        ok = nxt is not None and nxt.kind == "literal" and not rx.class_matches(cls, nxt.text[0], flags)
        ctx.check("name field cannot swallow the separator", ok, "separator's first character not in the name class", rx.describe([nxt]) if nxt else "?", w)
        for ch in "({, )":
            ctx.check(f"name class excludes {ch!r}", not rx.class_matches(cls, ch, flags), "excluded", "matches", w, nontrivial=False)
    # body: greedy, ends at the last ')' because the closing literal is followed by the end anchor
    g2 = next((a for a in atoms if a.kind == "group" and a.group == 2), None)
    ok = g2 is not None and g2.sub and g2.sub[0].kind == "repeat" and g2.sub[0].greedy and atoms[-2:] and atoms[-2].kind == "literal" and atoms[-2].text == ")" and atoms[-1].kind == "at"
    ctx.check("body field is greedy and closed by the final `)` before the end anchor", bool(ok), "(.+)\\)$", rx.describe(atoms[-3:]), w)
    # returned value: (group 1, group 2) on the matching path; a failed match raises
    ps = paths_of(fi.node)
    rets = [p for p in ps if p.outcome == "return"]
    ctx.check("returns exactly (name, body) = (group 1, group 2)", len(rets) == 1 and isinstance(rets[0].value, ast.Tuple) and [group_uses(e, None) for e in rets[0].value.elts] == [[1], [2]]
              and all(isinstance(e, ast.Call) and call_tail(e) == "group" for e in rets[0].value.elts),
              "(match.group(1), match.group(2))", str([U(p.value)[:80] for p in rets]), w)
    raising = [p for p in ps if p.outcome == "raise"]
    orig = getattr(c, "_orig", c)
    mvars = {t.id for n in ast.walk(fi.node) if isinstance(n, ast.Assign) and n.value is orig for t in n.targets if isinstance(t, ast.Name)}
    def is_match_value(g):  # the path walker propagates bindings: the guard is the variable or the call it is bound to
        return (isinstance(g, ast.Name) and g.id in mvars) or g is orig or U(g) == U(orig)
    failing = [p for p in raising if any(failed_match(g, pol, is_match_value) for g, pol in p.guards)]
    bad_rets = [p for p in rets if any(failed_match(g, pol, is_match_value) for g, pol in p.guards)]
    ctx.check("a line that does not match is rejected with an exception", bool(failing) and not bad_rets,
              "raise on the path where the match object is None", f"{len(failing)} raising paths under a failed match, {len(bad_rets)} returning ones", w)


@rule("R19.2", "C19", "split_compounds: anchored, all three text segments captured, each used exactly once and in order in the returned parts, only braces added", min_instances=7)
def r19_2(ctx):
    idx = get_index(ctx.env)
    fi = idx.func(f"{PP}.split_compounds")
    calls = find_re_call(fi.node, idx=idx, cls=PP)
    ctx.need(len(calls) == 1, f"split_compounds: expected one re.match call, found {len(calls)}")
    c = calls[0]
    pat = pattern_text(c.args[0], fi.node)
    ctx.need(pat is not None, "split_compounds: pattern is not a literal")
    atoms = rx.parse(pat)
    w = fn_where(idx, fi)
    param = fi.node.args.args[0].arg
    ctx.check("compound regex anchored at the start", c.func.attr in ("match", "fullmatch"), "re.match", f"re.{c.func.attr}", w)
    ctx.check("compound regex anchored at the end", atoms and atoms[-1].kind == "at" and "END" in atoms[-1].text, "$", rx.describe(atoms[-1:]), w)
    ctx.check("compound regex subject is the behaviour itself", U(c.args[1]) == param, param, U(c.args[1]), w)
    rebinds = [U(n)[:70] for n in ast.walk(fi.node) if isinstance(n, (ast.Assign, ast.AugAssign)) and any(isinstance(t, ast.Name) and t.id == param for t in (n.targets if isinstance(n, ast.Assign) else [n.target]))]
    ctx.check("the behaviour text is not rewritten before it is split", not rebinds, "no assignment to the parameter", str(rebinds), w)
    unc = rx.uncaptured_nonliterals(atoms)
    ctx.check("no consuming atom outside a capture group", not unc, "text before, between and after the markers is captured", str(unc), w)
    shape = rx.describe(atoms)
    exp = "'{' G1(ANY{0,inf}) '__COMPOUND_PART1__' G2('{' ANY{1,inf} '}') '__COMPOUND_PART1__' G3(ANY{0,inf}) '}' @END"
    ctx.check("compound regex shape", shape == exp, exp, shape, w)
    ps = [p for p in paths_of(fi.node) if p.outcome == "return"]
    ctx.need(ps, "split_compounds has no returning path")
    for p in ps:
        v = p.value
        if not (isinstance(v, ast.Tuple) and len(v.elts) == 2):
            ctx.check("returns two parts", False, "(part1, part2)", U(v)[:100], w)
            continue
        uses = [group_uses(e, None) for e in v.elts]
        flat = uses[0] + uses[1]
        blank_guarded = {k for g, pol in p.guards for k in group_uses(g, None) if not pol and ".strip()" in U(g)}
        key = "parts on path [" + ("prefix blank" if 1 in blank_guarded else "prefix present") + "]"
        missing = [k for k in (1, 2, 3) if flat.count(k) == 0 and k not in blank_guarded]
        dup = [k for k in (1, 2, 3) if flat.count(k) > 1]
        ctx.check(key + ": every captured segment is used exactly once", not missing and not dup, "groups 1,2,3 once each (a blank prefix may be dropped)", f"uses part1={uses[0]} part2={uses[1]}", w)
        ctx.check(key + ": segments stay in source order", flat == sorted(flat) and uses[1] == [3] and 2 in uses[0], "part1 = [1,]2 ; part2 = 3", f"part1={uses[0]} part2={uses[1]}", w)
        lits = [set(literal_parts(e)) for e in v.elts]
        ctx.check(key + ": only braces are added", all(l <= {"{", "}"} for l in lits) and lits[1] == {"{", "}"}, "'{' and '}' only", str(lits), w)
    # marker literal agreement with the loader
    ld = idx.func(f"{PP}.load_insn_behavior")
    tested = [n.left.value for n in ast.walk(ld.node) if isinstance(n, ast.Compare) and isinstance(n.left, ast.Constant) and isinstance(n.left.value, str) and isinstance(n.ops[0], (ast.In, ast.NotIn))]
    ctx.check("loader tests the same marker the regex splits on", tested == ["__COMPOUND_PART1__"] and "__COMPOUND_PART1__" in pat, "__COMPOUND_PART1__", str(tested), fn_where(idx, ld))


@rule("R19.3", "C19", "loader discipline: every non-comment line is split and stored under its name, in order, no swallowed error", min_instances=5)
def r19_3(ctx):
    # the file is read as it is: no decoding mode that silently drops or replaces characters (a name or a body with a character
    # outside the expected set must reach the anchored pattern and be rejected there, not be "repaired" into another name)
    idx0 = get_index(ctx.env)
    lossy = []
    n_open = 0
    for q in ("load_insn_behavior", "remove_onetime_do_whiles", "preprocess_shortcode"):
        fq = idx0.func(f"{PP}.{q}")
        for c_ in ast.walk(fq.node):
            if isinstance(c_, ast.Call) and call_name(c_) == "open":
                n_open += 1
                for k_ in c_.keywords:
                    if k_.arg == "errors" and not (isinstance(k_.value, ast.Constant) and k_.value.value in ("strict", None)):
                        lossy.append(f"{q}:{c_.lineno} open(..., errors={U(k_.value)})")
    ctx.check("shortcode files are decoded strictly", n_open >= 3 and not lossy, "open() without a lossy errors= mode", "; ".join(lossy) or f"{n_open} open() calls", f"rzilcompiler/Preprocessor/Hexagon/PreprocessorHexagon.py")
    idx = get_index(ctx.env)
    fi = idx.func(f"{PP}.load_insn_behavior")
    w = fn_where(idx, fi)
    ctx.check("no exception handler in the loader", not any(isinstance(n, ast.Try) for n in ast.walk(fi.node)), "no try/except", "try statement present", w)
    ps = paths_of(fi.node)
    loops = [e for p in ps for e in p.events if e.kind == "loop"]
    ctx.need(loops, "load_insn_behavior has no line loop")
    lp = loops[0]
    ctx.check("loader iterates over all lines of the resolved file", lp.node[0] == "for" and U(lp.node[2]).endswith(".readlines()"), "for line in f.readlines()", U(lp.node[2]), w)
    line = U(lp.node[1])
    n_store = 0
    for bp in lp.extra:
        guards = bp.guard_text()
        stores = [e for e in bp.events if e.kind == "store" and U(e.node).startswith("self.behaviors[")]
        splits = [e for e in bp.events if e.kind == "call" and call_tail(e.node) == "split_resolved_shortcode"]
        def comment_test(g):
            # line[0] == '#'  /  line.startswith('#')  /  line[:1] == '#'
            t = U(g)
            return t in (f"{line}@iter[0] == '#'", f"{line}@iter.startswith('#')", f"{line}@iter[:1] == '#'")
        is_comment_path = any(pol and comment_test(g) for g, pol in bp.guards)
        if is_comment_path:
            ctx.check("comment lines are skipped", bp.outcome == "continue" and not stores, "continue", f"{bp.outcome}, {len(stores)} stores", w)
            continue
        other_skip = [U(g) for g, pol in bp.guards if not comment_test(g) and "__COMPOUND_PART1__" not in U(g)]
        ok = len(stores) == 1 and len(splits) == 1 and not other_skip
        if len(splits) == 1 and isinstance(splits[0].node, ast.Call) and splits[0].node.args:
            arg = U(splits[0].node.args[0])
            ctx.check("the line is split as it was read (nothing rewrites it on the way to the splitter)", arg in (line + "@iter", line), f"split_resolved_shortcode({line})", f"split_resolved_shortcode({arg[:70]})", w)
        ctx.check(f"non-comment path [{guards[:70]}] splits the line and stores it", ok, "one split, one store, no further condition", f"splits={len(splits)} stores={len(stores)} extra conditions={other_skip}", w)
        if len(stores) == 1:
            n_store += 1
            st = stores[0]
            keytxt = U(st.node.slice)
            ctx.check("stored under the name returned by the splitter", "split_resolved_shortcode" in keytxt and keytxt.endswith("[0]"), "behaviors[name]", keytxt[:80], w)
            val = st.extra
            marker_guard = [(g, pol) for g, pol in bp.guards if "__COMPOUND_PART1__" in U(g)]
            ctx.check("single / compound decided by the marker test", len(marker_guard) == 1, "one test for the part marker on the path", str([U(g)[:40] for g, _ in marker_guard]), w, nontrivial=False)
            g0, pol0 = marker_guard[0] if marker_guard else (None, None)
            has_marker = None
            if isinstance(g0, ast.Compare):
                has_marker = pol0 if isinstance(g0.ops[0], ast.In) else (not pol0)
            compound = bool(has_marker)
            if compound:
                ok = isinstance(val, ast.List) and len(val.elts) == 2 and all("split_compounds" in U(e) for e in val.elts) and U(val.elts[0]).endswith("[0]") and U(val.elts[1]).endswith("[1]")
                # an order-preserving copy of the returned pair is the same thing: list(pair) / [*pair]
                if isinstance(val, ast.Call) and U(val.func) == "list" and len(val.args) == 1 and isinstance(val.args[0], ast.Call) and call_tail(val.args[0]) == "split_compounds":
                    ok = True
                if isinstance(val, ast.List) and len(val.elts) == 1 and isinstance(val.elts[0], ast.Starred) and isinstance(val.elts[0].value, ast.Call) and call_tail(val.elts[0].value) == "split_compounds":
                    ok = True
                ctx.check("compound: both parts stored in order", ok, "[part1, part2] from split_compounds(body)", U(val)[:100], w)
            else:
                ok = isinstance(val, ast.List) and len(val.elts) == 1 and "split_resolved_shortcode" in U(val.elts[0]) and U(val.elts[0]).endswith("[1]")
                ctx.check("single behaviour: the body stored unchanged", ok, "[body]", U(val)[:100], w)
    ctx.need(n_store == 2, f"expected two storing paths (single, compound), found {n_store}")


@rule("R19.4", "C19", "resource lint: every line of the bundled resolved shortcode is `insn(NAME, BODY)`, names unique, compounds have exactly two markers", min_instances=2000)
def r19_4(ctx):
    p = ctx.env.repo / "Resources" / "Hexagon" / "Preprocessor" / "shortcode_resolved.h"
    ctx.need(p.is_file(), f"anchor missing: {p}")
    names = {}
    rel = "Resources/Hexagon/Preprocessor/shortcode_resolved.h"
    bad = 0
    for ln, line in enumerate(p.read_text().splitlines(), 1):
        if not line or line[0] == "#":
            continue
        m = re.match(r"insn\((\w+), (.+)\)$", line, re.ASCII)
        if not m:
            ctx.check(f"line {ln} shape", False, "insn(NAME, BODY)", line[:60], f"{rel}:{ln}")
            bad += 1
            continue
        name, body = m.group(1), m.group(2)
        dup = name in names
        names[name] = ln
        okc = True
        obs = "ok"
        if "__COMPOUND_PART1__" in body:
            okc = body.count("__COMPOUND_PART1__") == 2 and body.count("{") == body.count("}")
            obs = f"{body.count('__COMPOUND_PART1__')} markers"
        ctx.check(f"insn {name}", not dup and okc, "unique name; a compound has two markers and balanced braces", "duplicate name" if dup else obs, f"{rel}:{ln}", nontrivial=False)
    ctx.check("number of bundled instructions", len(names) >= 2000, ">= 2000", str(len(names)), rel)


def compound_split_valuation(ctx):
    """split_compounds evaluated on bodies of every shape of head (nothing, statements, a block, a loop): the two parts together hold
    every token of the body, in order - nothing in front of the first marker is lost, whatever it ends with"""
    from sa.absint import AObj, Interp

    idx = get_index(ctx.env)
    fi = idx.func(f"{PP}.split_compounds")
    M = "__COMPOUND_PART1__"
    bodies = [
        ("no head", "{" + M + "{ A; }" + M + " B; }"),
        ("statements in front", "{ H; G = 1; " + M + "{ A; }" + M + " B; }"),
        ("a block in front", "{ if (c) { H; } " + M + "{ A; }" + M + " B; }"),
        ("a loop in front", "{ for (i = 0; i < 2; i++) { H; } " + M + "{ A; }" + M + " B; C; }"),
        ("a nested block in front", "{ { H; } " + M + "{ if (p) { A; } }" + M + " B; }"),
    ]

    def squash(t):
        return re.sub(r"[\s{}]", "", t.replace(M, ""))
    for name, body in bodies:
        outs = Interp(idx).explore(lambda i, body=body: i.call_function(fi, [body], self_obj=AObj(PP, {}, label="self")))
        got = [o.value if o.kind == "return" else "RAISE" for o in outs]
        ok = len(got) == 1 and isinstance(got[0], (tuple, list)) and len(got[0]) == 2 and all(isinstance(x, str) for x in got[0]) and squash("".join(got[0])) == squash(body) \
            and "A;" in got[0][0] and "B;" in got[0][1] and "H;" not in got[0][1]
        ctx.check(f"split_compounds [{name}]: both parts together hold the whole body", ok or got == ["RAISE"], "part 1 = head + marked block, part 2 = the rest (or the body is rejected)", str(got)[:160], fn_where(idx, fi))


@rule("R19.5", "C19", "splitting a compound body loses nothing: whatever stands in front of the first marker (statements, a block, a loop) is part of the first behaviour", min_instances=5)
def r19_5(ctx):
    compound_split_valuation(ctx)
