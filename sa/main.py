"""CLI: ./check <ID> [--tier quick|thorough] [--replay <path>] [--repo <dir>] [--rule Rxx.y] [--list]"""
from __future__ import annotations

import argparse
import importlib
import json
import os
import pkgutil
import sys
import traceback
from pathlib import Path

HERE = Path(__file__).resolve().parent.parent
sys.path.insert(0, str(HERE))

from sa import report  # noqa: E402


def load_rules():
    import rules

    for m in pkgutil.iter_modules(rules.__path__):
        importlib.import_module(f"rules.{m.name}")


def main(argv=None) -> int:
    ap = argparse.ArgumentParser(prog="check")
    ap.add_argument("prop", nargs="?")
    ap.add_argument("--tier", default=os.environ.get("VERIF_TIER", "quick"), choices=["quick", "thorough"])
    ap.add_argument("--repo", default=os.environ.get("VERIF_REPO", "/repo"))
    ap.add_argument("--replay")
    ap.add_argument("--rule")
    ap.add_argument("--list", action="store_true")
    ap.add_argument("--no-evidence", action="store_true")
    ap.add_argument("--no-selftest", action="store_true")
    args = ap.parse_args(argv)
    try:
        seed = int(os.environ.get("VERIF_SEED", "0"))
    except ValueError:
        seed = 0
    try:
        load_rules()
    except Exception:
        print("ANALYSIS-ERROR cannot load rule modules")
        traceback.print_exc()
        return 2
    if args.list:
        for r in sorted(report.RULES.values(), key=lambda r: (r.prop, r.rid)):
            print(f"{r.prop} {r.rid:8s} floor={r.min_instances:<3d} {r.tier:8s} {r.title}")
        return 0
    if not args.prop:
        ap.error("property id required")
    prop = args.prop.upper()
    repo = Path(args.repo).resolve()
    only_rule = args.rule
    only_key = None
    if args.replay:
        data = json.loads(Path(args.replay).read_text())
        only_rule, only_key = data["rule"], data["key"]
        prop = data.get("property", prop)
    status = report.run_property(
        prop, repo, args.tier, seed, only_rule=only_rule, only_key=only_key,
        write_evidence=not (args.no_evidence or args.replay or args.rule),
        thorough_selftest=(args.tier == "thorough" and not args.no_selftest and not args.replay and not args.rule),
    )
    return status


if __name__ == "__main__":
    try:
        rc = main()
    except SystemExit:
        raise
    except Exception:
        print("ANALYSIS-ERROR internal failure of the checker")
        traceback.print_exc()
        rc = 2
    sys.stdout.flush()
    os._exit(rc)
