"""E-AI core: path-sensitive symbolic walk over one small Python function (DESIGN.md A.2).

Values are `ast` expression trees in which local names have been replaced by their defining expressions
(never mutated, freely shared). Every syntactic path yields: the list of guards (condition, polarity), the ordered
event trace (calls with substituted arguments, attribute/subscript stores, loops), and the outcome
(return value / raise / fall-through).  Domains (TEMPLATE, PREDICATE, KIND, COUNTER) are interpretations of these
symbolic terms done by the rules.  This is not symbolic execution with a solver: guards are only folded when they are
constant, or enumerated by the rules over finite valuation sets.
"""
from __future__ import annotations

import ast
import copy
from dataclasses import dataclass, field

from .report import AnalysisError

MAX_PATHS = 4096


def U(node) -> str:
    if node is None:
        return "None"
    if isinstance(node, str):
        return node
    try:
        return ast.unparse(node)
    except Exception:
        return f"<{type(node).__name__}>"


def chain(node) -> str | None:
    """'self.ext.set_token_meta_data' for nested Attribute/Name; None otherwise."""
    parts = []
    while isinstance(node, ast.Attribute):
        parts.append(node.attr)
        node = node.value
    if isinstance(node, ast.Name):
        parts.append(node.id)
        return ".".join(reversed(parts))
    return None


def call_name(node) -> str | None:
    if isinstance(node, ast.Call):
        return chain(node.func)
    return None


def call_tail(node) -> str | None:
    """last component of the callee chain ('add_op' for self.add_op(...))."""
    if isinstance(node, ast.Call):
        if isinstance(node.func, ast.Attribute):
            return node.func.attr
        if isinstance(node.func, ast.Name):
            return node.func.id
    return None


@dataclass
class Event:
    kind: str  # call | store | augstore | expr | loop | except | exc-edge | delete | unknown
    node: object = None
    extra: object = None
    cond: bool = False  # inside IfExp arm / short-circuit rhs
    multi: bool = False  # inside comprehension / lambda
    inloop: int = 0
    lineno: int = 0


@dataclass
class State:
    env: dict
    guards: list
    events: list
    localdefs: dict
    loopdepth: int = 0

    def fork(self):
        return State(dict(self.env), list(self.guards), list(self.events), dict(self.localdefs), self.loopdepth)


@dataclass
class Path:
    outcome: str  # return | raise | fall | continue | break
    value: object
    guards: list
    events: list
    env: dict
    localdefs: dict
    lineno: int = 0

    def calls(self, tail: str | None = None, full: str | None = None):
        out = []
        for e in self.events:
            if e.kind == "call":
                if tail and call_tail(e.node) != tail:
                    continue
                if full and call_name(e.node) != full:
                    continue
                out.append(e)
        return out

    def guard_text(self) -> str:
        return " and ".join((("" if pol else "not ") + "(" + U(g) + ")") for g, pol in self.guards) or "True"


class Unsupported(AnalysisError):
    pass


def fold(expr):
    """Constant-fold a guard. Returns True/False or None (unknown)."""
    try:
        v = _fold(expr)
    except _NoFold:
        return None
    return bool(v)


class _NoFold(Exception):
    pass


def _fold(e):
    if isinstance(e, ast.Constant):
        return e.value
    if isinstance(e, (ast.Tuple, ast.List)):
        return [_fold(x) for x in e.elts]
    if isinstance(e, ast.UnaryOp) and isinstance(e.op, ast.Not):
        return not _fold(e.operand)
    if isinstance(e, ast.BoolOp):
        vals = []
        for v in e.values:
            try:
                vals.append(("k", _fold(v)))
            except _NoFold:
                vals.append(("u", None))
        if isinstance(e.op, ast.And):
            if any(k == "k" and not v for k, v in vals):
                return False
            if all(k == "k" for k, _ in vals):
                return vals[-1][1]
        else:
            if any(k == "k" and v for k, v in vals):
                return True
            if all(k == "k" for k, _ in vals):
                return vals[-1][1]
        raise _NoFold
    if isinstance(e, ast.Compare) and len(e.ops) == 1:
        a, b = _fold(e.left), _fold(e.comparators[0])
        op = e.ops[0]
        if isinstance(op, ast.Eq):
            return a == b
        if isinstance(op, ast.NotEq):
            return a != b
        if isinstance(op, ast.Lt):
            return a < b
        if isinstance(op, ast.LtE):
            return a <= b
        if isinstance(op, ast.Gt):
            return a > b
        if isinstance(op, ast.GtE):
            return a >= b
        if isinstance(op, ast.In):
            return a in b
        if isinstance(op, ast.NotIn):
            return a not in b
        if isinstance(op, ast.Is):
            return a is b
        if isinstance(op, ast.IsNot):
            return a is not b
    if isinstance(e, ast.Call) and isinstance(e.func, ast.Name) and e.func.id == "len" and len(e.args) == 1:
        if isinstance(e.args[0], (ast.Tuple, ast.List)):
            return len(e.args[0].elts)
    raise _NoFold


def _is_mutable_ctor(v) -> bool:
    if isinstance(v, (ast.List, ast.Dict, ast.Set)) and not (getattr(v, "elts", None) or getattr(v, "keys", None)):
        return True
    return isinstance(v, ast.Call) and isinstance(v.func, ast.Name) and v.func.id in ("list", "dict", "set") and not v.args and not v.keywords


class Executor:
    def __init__(self, fn: ast.FunctionDef, max_paths: int = MAX_PATHS, fold_guards: bool = True):
        self.fn = fn
        self.max_paths = max_paths
        self.fold_guards = fold_guards
        self.finished: list[Path] = []

    # ------------------------------------------------------------ expressions
    def ev(self, expr, st: State, cond=False, multi=False, bound=frozenset()):
        """Substitute locals and record call events in evaluation order. Returns the substituted tree."""
        if expr is None:
            return None
        if isinstance(expr, ast.Name):
            if isinstance(expr.ctx, ast.Load) and expr.id in st.env and expr.id not in bound:
                return st.env[expr.id]
            return expr
        if isinstance(expr, ast.Constant):
            return expr
        if isinstance(expr, ast.IfExp):
            t = self.ev(expr.test, st, cond, multi, bound)
            b = self.ev(expr.body, st, True, multi, bound)
            o = self.ev(expr.orelse, st, True, multi, bound)
            f = fold(t) if self.fold_guards else None
            if f is True:
                return b
            if f is False:
                return o
            return self._re(expr, test=t, body=b, orelse=o)
        if isinstance(expr, ast.BoolOp):
            vals = [self.ev(v, st, cond or i > 0, multi, bound) for i, v in enumerate(expr.values)]
            return self._re(expr, values=vals)
        if isinstance(expr, (ast.ListComp, ast.SetComp, ast.GeneratorExp, ast.DictComp)):
            b2 = set(bound)
            gens = []
            for g in expr.generators:
                it = self.ev(g.iter, st, cond, multi, frozenset(b2))
                for n in ast.walk(g.target):
                    if isinstance(n, ast.Name):
                        b2.add(n.id)
                ifs = [self.ev(i, st, True, True, frozenset(b2)) for i in g.ifs]
                gens.append(self._re(g, iter=it, ifs=ifs))
            if isinstance(expr, ast.DictComp):
                k = self.ev(expr.key, st, cond, True, frozenset(b2))
                v = self.ev(expr.value, st, cond, True, frozenset(b2))
                return self._re(expr, key=k, value=v, generators=gens)
            elt = self.ev(expr.elt, st, cond, True, frozenset(b2))
            return self._re(expr, elt=elt, generators=gens)
        if isinstance(expr, ast.Lambda):
            b2 = set(bound) | {a.arg for a in expr.args.args}
            body = self.ev(expr.body, st, True, True, frozenset(b2))
            return self._re(expr, body=body)
        if isinstance(expr, ast.Call):
            func = self.ev(expr.func, st, cond, multi, bound)
            args = [self.ev(a, st, cond, multi, bound) for a in expr.args]
            kws = [self._re(k, value=self.ev(k.value, st, cond, multi, bound)) for k in expr.keywords]
            new = self._re(expr, func=func, args=args, keywords=kws)
            st.events.append(Event("call", new, None, cond, multi, st.loopdepth, getattr(expr, "lineno", 0)))
            return new
        # generic: rebuild with substituted children
        changes = {}
        for fname, val in ast.iter_fields(expr):
            if isinstance(val, ast.expr):
                nv = self.ev(val, st, cond, multi, bound)
                if nv is not val:
                    changes[fname] = nv
            elif isinstance(val, list) and val and all(isinstance(x, ast.AST) for x in val):
                nl = [self.ev(x, st, cond, multi, bound) if isinstance(x, ast.expr) else self._ev_other(x, st, cond, multi, bound) for x in val]
                if any(a is not b for a, b in zip(nl, val)):
                    changes[fname] = nl
        if not changes:
            return expr
        return self._re(expr, **changes)

    def _ev_other(self, node, st, cond, multi, bound):
        # e.g. ast.FormattedValue handled by generic path since it is an expr; keywords, comprehension handled elsewhere
        if isinstance(node, ast.keyword):
            return self._re(node, value=self.ev(node.value, st, cond, multi, bound))
        return node

    @staticmethod
    def _re(node, **changes):
        new = copy.copy(node)
        for k, v in changes.items():
            setattr(new, k, v)
        return new

    # ------------------------------------------------------------ statements
    def run(self) -> list[Path]:
        st = State({}, [], [], {})
        open_states = self.block(self.fn.body, [st])
        for s in open_states:
            self.finish(s, "fall", None, getattr(self.fn, "end_lineno", 0))
        return self.finished

    def finish(self, st: State, outcome: str, value, lineno=0):
        self.finished.append(Path(outcome, value, st.guards, st.events, st.env, st.localdefs, lineno))
        if len(self.finished) > self.max_paths:
            raise Unsupported(f"path explosion in {self.fn.name} (> {self.max_paths})")

    def block(self, stmts, states: list[State], loop_sink: list | None = None) -> list[State]:
        for s in stmts:
            nxt = []
            for st in states:
                nxt.extend(self.stmt(s, st, loop_sink))
            states = nxt
            if len(states) > self.max_paths:
                raise Unsupported(f"path explosion in {self.fn.name}")
            if not states:
                break
        return states

    def branch(self, cond, st: State):
        """Returns list of (state, polarity) after recording the guard; folds constants and repeated guards."""
        if isinstance(cond, ast.UnaryOp) and isinstance(cond.op, ast.Not):
            # record `not x` as the guard x with flipped polarity
            return [(s2, not pol) for s2, pol in self.branch(cond.operand, st)]
        f = fold(cond) if self.fold_guards else None
        if f is None:
            txt = U(cond)
            for g, pol in st.guards:
                if U(g) == txt:
                    f = pol
                    break
        if f is True:
            return [(st, True)]
        if f is False:
            return [(st, False)]
        a, b = st, st.fork()
        a.guards.append((cond, True))
        b.guards.append((cond, False))
        return [(a, True), (b, False)]

    def assign_target(self, tgt, val, st: State, lineno=0):
        if isinstance(tgt, ast.Name):
            if _is_mutable_ctor(val):
                # a fresh mutable container: keep the name (identity matters), remember what it was bound to
                st.env[tgt.id] = ast.Name(id=tgt.id, ctx=ast.Load())
                st.events.append(Event("bind", tgt.id, val, False, False, st.loopdepth, lineno))
            else:
                st.env[tgt.id] = val
        elif isinstance(tgt, (ast.Tuple, ast.List)):
            if isinstance(val, (ast.Tuple, ast.List)) and len(val.elts) == len(tgt.elts):
                for t, v in zip(tgt.elts, val.elts):
                    self.assign_target(t, v, st, lineno)
            else:
                for i, t in enumerate(tgt.elts):
                    self.assign_target(t, ast.Subscript(value=val, slice=ast.Constant(i), ctx=ast.Load()), st, lineno)
        elif isinstance(tgt, (ast.Attribute, ast.Subscript)):
            t2 = self.ev(tgt, st) if not isinstance(tgt, ast.Attribute) else self._re(tgt, value=self.ev(tgt.value, st))
            st.events.append(Event("store", t2, val, False, False, st.loopdepth, lineno))
        elif isinstance(tgt, ast.Starred):
            self.assign_target(tgt.value, ast.Starred(value=val, ctx=ast.Load()), st, lineno)
        else:
            st.events.append(Event("unknown", tgt, val, lineno=lineno))

    def stmt(self, s, st: State, loop_sink) -> list[State]:
        ln = getattr(s, "lineno", 0)
        if isinstance(s, ast.Assign):
            val = self.ev(s.value, st)
            for t in s.targets:
                self.assign_target(t, val, st, ln)
            return [st]
        if isinstance(s, ast.AnnAssign):
            if s.value is not None:
                val = self.ev(s.value, st)
                self.assign_target(s.target, val, st, ln)
            return [st]
        if isinstance(s, ast.AugAssign):
            val = self.ev(s.value, st)
            if isinstance(s.target, ast.Name):
                old = st.env.get(s.target.id, ast.Name(id=s.target.id, ctx=ast.Load()))
                st.env[s.target.id] = ast.BinOp(left=old, op=s.op, right=val)
            else:
                t2 = self._re(s.target, value=self.ev(s.target.value, st))
                st.events.append(Event("augstore", t2, (s.op, val), False, False, st.loopdepth, ln))
            return [st]
        if isinstance(s, ast.Expr):
            if isinstance(s.value, ast.Constant):
                return [st]  # docstring
            v = self.ev(s.value, st)
            if not isinstance(s.value, ast.Call):
                st.events.append(Event("expr", v, None, False, False, st.loopdepth, ln))
            return [st]
        if isinstance(s, ast.Return):
            v = self.ev(s.value, st) if s.value is not None else ast.Constant(None)
            self.finish(st, "return", v, ln)
            return []
        if isinstance(s, ast.Raise):
            v = self.ev(s.exc, st) if s.exc is not None else None
            self.finish(st, "raise", v, ln)
            return []
        if isinstance(s, ast.Assert):
            c = self.ev(s.test, st)
            st.guards.append((c, True))
            return [st]
        if isinstance(s, ast.If):
            c = self.ev(s.test, st)
            out = []
            for st2, pol in self.branch(c, st):
                out.extend(self.block(s.body if pol else s.orelse, [st2], loop_sink))
            return out
        if isinstance(s, ast.Match):
            subj = self.ev(s.subject, st)
            out = []
            cur = st
            for case in s.cases:
                cond = self.pattern_cond(case.pattern, subj, cur)
                if cond is True:
                    taken, rest = cur, None
                else:
                    if case.guard is not None:
                        cond = ast.BoolOp(op=ast.And(), values=[cond, self.ev(case.guard, cur)])
                    pair = self.branch(cond, cur)
                    taken = next((x for x, p in pair if p), None)
                    rest = next((x for x, p in pair if not p), None)
                if taken is not None:
                    out.extend(self.block(case.body, [taken], loop_sink))
                cur = rest
                if cur is None:
                    break
            if cur is not None:
                out.append(cur)
            return out
        if isinstance(s, (ast.For, ast.While)):
            return self.loop(s, st, loop_sink)
        if isinstance(s, ast.Continue):
            if loop_sink is None:
                raise Unsupported("continue outside loop")
            loop_sink.append(("continue", st))
            return []
        if isinstance(s, ast.Break):
            if loop_sink is None:
                raise Unsupported("break outside loop")
            loop_sink.append(("break", st))
            return []
        if isinstance(s, ast.Try):
            return self.try_(s, st, loop_sink)
        if isinstance(s, ast.With):
            for item in s.items:
                v = self.ev(item.context_expr, st)
                if item.optional_vars is not None:
                    self.assign_target(item.optional_vars, v, st, ln)
            return self.block(s.body, [st], loop_sink)
        if isinstance(s, ast.FunctionDef):
            st.localdefs[s.name] = s
            return [st]
        if isinstance(s, (ast.Pass, ast.Import, ast.ImportFrom, ast.Global, ast.Nonlocal)):
            return [st]
        if isinstance(s, ast.Delete):
            st.events.append(Event("delete", s, None, lineno=ln))
            return [st]
        raise Unsupported(f"statement kind {type(s).__name__} at line {ln} in {self.fn.name}")

    def pattern_cond(self, pat, subj, st):
        if isinstance(pat, ast.MatchValue):
            return ast.Compare(left=subj, ops=[ast.Eq()], comparators=[self.ev(pat.value, st)])
        if isinstance(pat, ast.MatchSingleton):
            return ast.Compare(left=subj, ops=[ast.Is()], comparators=[ast.Constant(pat.value)])
        if isinstance(pat, ast.MatchOr):
            conds = [self.pattern_cond(p, subj, st) for p in pat.patterns]
            if any(c is True for c in conds):
                return True
            return ast.BoolOp(op=ast.Or(), values=conds)
        if isinstance(pat, ast.MatchAs):
            if pat.pattern is None:
                if pat.name:
                    st.env[pat.name] = subj
                return True
            c = self.pattern_cond(pat.pattern, subj, st)
            if pat.name:
                st.env[pat.name] = subj
            return c
        raise Unsupported(f"match pattern {type(pat).__name__}")

    def loop(self, s, st: State, outer_sink) -> list[State]:
        ln = s.lineno
        if isinstance(s, ast.For):
            it = self.ev(s.iter, st)
            if isinstance(it, (ast.Tuple, ast.List)) and not s.orelse and len(it.elts) <= 8:
                # unroll over a literal
                states = [st]
                for elt in it.elts:
                    nxt = []
                    for cur in states:
                        self.assign_target(s.target, elt, cur, ln)
                        sink = []
                        after = self.block(s.body, [cur], sink)
                        nxt.extend(after)
                        for kind, s2 in sink:
                            if kind == "continue":
                                nxt.append(s2)
                            else:
                                raise Unsupported("break in unrolled loop")
                    states = nxt
                return states
            header = ("for", s.target, it)
        else:
            header = ("while", None, self.ev(s.test, st))
        # generic loop: analyse the body once from the pre-state with assigned names havocked
        assigned = set()
        for n in ast.walk(s):
            if isinstance(n, ast.Name) and isinstance(n.ctx, ast.Store):
                assigned.add(n.id)
        body_st = st.fork()
        body_st.events = []
        body_st.guards = []
        body_st.loopdepth += 1
        pre_env = dict(st.env)
        for a in assigned:
            body_st.env[a] = ast.Name(id=f"{a}@loop", ctx=ast.Load())
        if isinstance(s, ast.For):
            for n in ast.walk(s.target):
                if isinstance(n, ast.Name):
                    body_st.env[n.id] = ast.Name(id=f"{n.id}@iter", ctx=ast.Load())
        sink: list = []
        sub = Executor(self.fn, self.max_paths, self.fold_guards)
        n_before = len(self.finished)
        # returns/raises inside the body are function exits: let them land in self.finished with loop marker
        ends = self.block(s.body, [body_st], sink)
        for p in self.finished[n_before:]:
            p.guards = list(st.guards) + [(ast.Name(id="@in-loop", ctx=ast.Load()), True)] + p.guards
            p.events = list(st.events) + p.events
        body_paths = [Path("fall", None, e.guards, e.events, e.env, e.localdefs) for e in ends]
        body_paths += [Path(kind, None, e.guards, e.events, e.env, e.localdefs) for kind, e in sink]
        st.events.append(Event("loop", header, body_paths, False, False, st.loopdepth, ln))
        for a in assigned:
            vals = []
            for bp in body_paths:
                v = bp.env.get(a)
                if v is not None and not (isinstance(v, ast.Name) and v.id == f"{a}@loop"):
                    vals.append(v)
            init = pre_env.get(a, ast.Name(id=a, ctx=ast.Load()))
            st.env[a] = ast.Call(func=ast.Name(id="@loopphi", ctx=ast.Load()), args=[init] + vals, keywords=[])
        if getattr(s, "orelse", None):
            return self.block(s.orelse, [st], outer_sink)
        return [st]

    def try_(self, s: ast.Try, st: State, loop_sink) -> list[State]:
        pre = st.fork()
        n_before = len(self.finished)
        body_end = self.block(s.body, [st], loop_sink)
        if s.orelse:
            body_end = self.block(s.orelse, body_end, loop_sink)
        finished_in_body = self.finished[n_before:]
        assigned = set()
        for n in ast.walk(ast.Module(body=s.body, type_ignores=[])):
            if isinstance(n, ast.Name) and isinstance(n.ctx, ast.Store):
                assigned.add(n.id)
        has_call = any(isinstance(n, (ast.Call, ast.Raise)) for b in s.body for n in ast.walk(b))
        handler_end = []
        n_before_h = len(self.finished)
        if has_call:
            for h in s.handlers:
                hs = pre.fork()
                for a in assigned:
                    hs.env[a] = ast.Name(id=f"{a}@try", ctx=ast.Load())
                hs.events.append(Event("except", h.type, U(h.type) if h.type else "BaseException", lineno=h.lineno))
                hs.guards.append((ast.Name(id=f"@exception:{U(h.type) if h.type else 'BaseException'}", ctx=ast.Load()), True))
                if h.name:
                    hs.env[h.name] = ast.Name(id=f"{h.name}@exc", ctx=ast.Load())
                handler_end.extend(self.block(h.body, [hs], loop_sink))
        finished_in_handlers = self.finished[n_before_h:]
        if s.finalbody:
            # finally runs on every exit: normal ends, handler ends, returns/raises inside, and the unhandled edge
            for p in finished_in_body + finished_in_handlers:
                tmp = State(dict(p.env), list(p.guards), list(p.events), dict(p.localdefs))
                ends = self.block(s.finalbody, [tmp], loop_sink)
                if ends:
                    p.events = ends[0].events
                    p.env = ends[0].env
            if has_call:
                catches_all = any(h.type is None or U(h.type) in ("Exception", "BaseException") for h in s.handlers)
                if not catches_all or not s.handlers:
                    es = pre.fork()
                    es.events.append(Event("exc-edge", None, "unhandled exception in try body", lineno=s.lineno))
                    es.guards.append((ast.Name(id="@exception:unhandled", ctx=ast.Load()), True))
                    ends = self.block(s.finalbody, [es], loop_sink)
                    for e in ends:
                        self.finish(e, "raise", ast.Name(id="@propagated", ctx=ast.Load()), s.lineno)
            out = self.block(s.finalbody, body_end + handler_end, loop_sink)
            return out
        return body_end + handler_end


def paths_of(fn: ast.FunctionDef, fold_guards: bool = True) -> list[Path]:
    return Executor(fn, fold_guards=fold_guards).run()


def expand_ifexp(expr, limit: int = 64):
    """Split an expression containing IfExp nodes into [(guards, expr_without_ifexp)]."""
    def rec(e):
        if isinstance(e, ast.IfExp):
            out = []
            for g, b in rec(e.body):
                out.append(([(e.test, True)] + g, b))
            for g, o in rec(e.orelse):
                out.append(([(e.test, False)] + g, o))
            return out
        if isinstance(e, ast.AST):
            alts = [([], {})]
            for fname, val in ast.iter_fields(e):
                if isinstance(val, ast.expr):
                    subs = rec(val)
                    if len(subs) == 1 and subs[0][1] is val:
                        continue
                    alts = [(g + sg, {**ch, fname: sv}) for g, ch in alts for sg, sv in subs]
                elif isinstance(val, list) and val and all(isinstance(x, ast.expr) for x in val):
                    per = [rec(x) for x in val]
                    if all(len(p) == 1 and p[0][1] is x for p, x in zip(per, val)):
                        continue
                    combos = [([], [])]
                    for p in per:
                        combos = [(g + sg, lst + [sv]) for g, lst in combos for sg, sv in p]
                    alts = [(g + cg, {**ch, fname: lst}) for g, ch in alts for cg, lst in combos]
                if len(alts) > limit:
                    raise Unsupported("IfExp explosion")
            res = []
            for g, ch in alts:
                if ch:
                    n = copy.copy(e)
                    for k, v in ch.items():
                        setattr(n, k, v)
                    res.append((g, n))
                else:
                    res.append((g, e))
            return res
        return [([], e)]

    return rec(expr)
