"""KIND domain: abstract interpretation of `Transformer.transform` over the grammar (DESIGN.md A.3 / R15.1 / R06.3).

Every grammar rule gets the set of abstract kinds its value can have; the kinds of a callback's result are obtained by
abstractly running the callback (sa.cbmodel.Runner) on representatives of its children's kinds.  Two kinds of findings:
 D1  a child that carries semantic content (an effect, a raw tree containing one, a pending hybrid value) is not
     reachable from the callback's result on a non-raising path (silently dropped inside a callback),
 D2  a value that is not an Effect but carries content (raw Tree, control keyword, pending hybrid) reaches a discard site:
     the top-level `isinstance(op, Effect)` filter, or the effects list of a Sequence (non-effects are not emitted).
"""
from __future__ import annotations

import itertools
from dataclasses import dataclass, field

from .absint import AObj, FlagV, Opaque, Tok, to_text, EnumV
from .cbmodel import Runner
from .larkmodel import GrammarModel, transformer_callbacks
from .report import AnalysisError

WATCH_KW = {"BREAK", "CONTINUE", "GOTO", "CASE", "DEFAULT", "WHILE", "DO", "SWITCH", "RETURN"}
SAMPLE = {"IDENTIFIER": "foo", "HEX_NUMBER": "0x1", "DEC_NUMBER": "1", "INT_POST_TYPE": "U", "ESCAPED_STRING": '"s"', "SIGN_TYPE": "s",
          "BIT_WIDTH": "32", "IMMEDIATE": "s", "REG_TYPE": "R", "SRC_REG": "s", "DEST_REG": "d", "SRC_DEST_REG": "x", "SRC_REG_PAIR": "ss",
          "DEST_REG_PAIR": "dd", "SRC_DEST_REG_PAIR": "xx", "UNARY_OP": "-", "ASSIGN_OP": "=", "FLOAT_MACRO": "fUNFLOAT", "RIZIN_MACRO": "extract32",
          "SIGN_TYPE_INT": "int", "COMMON_FLOAT": "1.0", "COMMON_SIGNED_FLOAT": "-1.0"}


# spellings of the terminals whose text the callbacks branch on
VARIANTS = {"UNARY_OP": ("-", "~", "!", "+"), "ASSIGN_OP": ("=", "+=", "<<=")}


# callbacks of the declaration machinery: their odd children (declarator / specifier trees, qualifier tokens) are rejected by
# constructor-time checks of the IR nodes, which the node summaries do not model -> no D1 verdicts there
DECL_MACHINERY = {"declaration", "init_declarator", "declaration_specifiers", "specifier_qualifier_list", "type_specifier"}
STMT_TREES = {"labeled_stmt", "expr"}


def norm_payload(pl) -> frozenset:
    return frozenset(p for p in pl if p in ("effect", "pending") or p.startswith("kw:"))


NEST = ("NEST",)  # marker element of a list kind: some elements sit in a nested list


def payload_of(d) -> frozenset:
    k = d[0]
    if k == "E":
        return frozenset() if d[1] in ("Empty",) else frozenset({"effect"})
    if k == "H":
        return frozenset({"pending"})
    if k == "T":
        return frozenset({f"kw:{d[1]}"}) if d[1] in WATCH_KW else frozenset()
    if k == "R":
        return norm_payload(d[2])
    if k == "L":
        out = frozenset()
        for x in d[1]:
            out |= payload_of(x)
        return out
    return frozenset()


def short(d) -> str:
    k = d[0]
    if k == "E":
        return f"Effect:{d[1]}"
    if k == "P":
        return f"Pure:{d[1]}"
    if k == "H":
        return "pending-hybrid value"
    if k == "T":
        return f"Token:{d[1]}"
    if k == "R":
        return f"raw Tree({d[1]})"
    if k == "L":
        return ("nested " if NEST in d[1] else "") + "list[" + ", ".join(sorted(short(x) for x in d[1] if x != NEST)) + "]"
    return {"S": "str", "N": "None", "V": "ValueType"}.get(k, k)


@dataclass
class Finding:
    kind: str  # D1 | D2
    key: str
    observed: str
    where: str


class KindEngine:
    EXTRA_SUMMARISED = {"cast_sub_routine_args", "cast_arg_list"}

    def __init__(self, idx, gm: GrammarModel, max_combos=48):
        self.idx, self.gm = idx, gm
        self.cbs = transformer_callbacks(idx)
        self.vals: dict[str, set] = {r: set() for r in gm.rules}
        self.findings: dict[str, Finding] = {}
        self.runs = 0
        self.raised_alts: dict[str, set] = {}
        self.alt_results: dict[str, set] = {}
        self.max_combos = max_combos
        self.effect_classes = set(idx.subclasses("Effect"))
        self.pure_classes = set(idx.subclasses("Pure"))
        self.errors: list[str] = []
        self.memo: dict = {}
        self.lit = {n: gm.literal(n) for n in gm.terminals}

    # ------------------------------------------------------------------ materialise / classify
    def mk(self, r: Runner, d, label):
        k = d[0]
        from rules.common import mk_vt  # local import to avoid a cycle at module import time

        if k == "E":
            cls = d[1]
            # not opaque: an attribute the real Effect class does not have raises AttributeError, as in the real transformer
            f = {"name": label, "effect_ops": [], "type": Opaque("effect_type")}
            if cls == "Assignment":
                f.update({"src": r.pure(label + ".src"), "dest": r.pure(label + ".dest", type=EnumV("PureType", "LOCAL", 1)), "assign_type": EnumV("AssignmentType", "ASSIGN", "=")})
            if cls == "Sequence":
                # a flushed consumer: [pending effect of an operand, the consumer itself]
                inner = AObj("Assignment", {"name": label + ".last", "effect_ops": [], "type": Opaque("effect_type"), "src": r.pure(label + ".last.src"),
                                            "dest": r.pure(label + ".last.dest", type=EnumV("PureType", "LOCAL", 1)), "assign_type": EnumV("AssignmentType", "ASSIGN", "=")}, label=label + ".last", origin=label, opaque=False)
                first = AObj("Sequence", {"name": label + ".first", "effect_ops": [], "effects": [], "type": Opaque("effect_type")}, label=label + ".first", origin=label, opaque=False)
                f.update({"effects": [first, inner]})
            if cls in self.pure_classes:
                from rules.common import mk_vt as _mk

                f.update({"value_type": _mk("t" + label, False, 32, ("VOID",)), "ops": [], "seq_order": Opaque("seq_order")})
            return AObj(cls, f, label=label, origin=label, opaque=False)
        if k == "P":
            return r.pure(label, vt=mk_vt("t" + label, True, 32), cls=d[1])
        if k == "H":
            owner = AObj("Hybrid", {}, label=label + ".owner", opaque=True)
            return r.pure(label, vt=mk_vt("t" + label, True, 32, ("PURE", "HYBRID_LVAR")), cls="LocalVar", hybrid_owner=owner, pending=True)
        if k == "T":
            if len(d) > 2:
                return Tok(d[1], d[2])
            lit = self.lit.get(d[1])
            return Tok(d[1], lit if lit is not None else SAMPLE.get(d[1], "tok"))
        if k == "S":
            return "ident"
        if k == "N":
            return None
        if k == "V":
            return mk_vt("T" + label, True, 32)
        if k == "R":
            return AObj("Tree", {"data": d[1], "children": []}, label=label, origin=label)
        if k == "L":
            flat = [self.mk(r, x, f"{label}.{i}") for i, x in enumerate(sorted((x for x in d[1] if x != NEST), key=str))]
            if NEST in d[1] and flat:
                return [flat[:-1], flat[-1]] if len(flat) > 1 else [flat]
            return flat
        raise AnalysisError(f"kind {d}")

    def classify(self, v, carried=None):
        if v is None:
            return ("N",)
        if isinstance(v, Tok):
            return ("T", v.type)
        if isinstance(v, str):
            return ("S",)
        if isinstance(v, (list, tuple)):
            elems = set()
            for x in v:
                d = self.classify(x, carried)
                if d[0] == "L":
                    elems |= set(d[1])
                    elems.add(NEST)  # the list is nested: a use site has to flatten it (left-recursive list rules return [[...], item])
                else:
                    elems.add(d)
            return ("L", frozenset(elems))
        if isinstance(v, Opaque):
            return ("P", "Pure")
        if isinstance(v, AObj):
            if v.cls == "Tree":
                pl = frozenset()
                if carried and id(v) in carried:
                    pl = carried[id(v)]
                return ("R", str(v.fields.get("data")), pl)
            if v.cls == "ValueType":
                return ("V",)
            if v.fields.get("pending") or (v.label or "").startswith("Hyb("):
                return ("H",)
            if v.cls in self.effect_classes and v.cls in self.pure_classes:
                # a Hybrid object returned as such = void call: stays in statement position as an effect
                return ("E", v.cls)
            if v.cls in self.effect_classes:
                return ("E", v.cls)
            if v.cls in self.pure_classes:
                return ("P", v.cls)
            return ("P", "Pure")
        if isinstance(v, (int, float, bool)):
            return ("S",)
        return ("P", "Pure")

    @staticmethod
    def reach(v, seen=None):
        if seen is None:
            seen = set()
        if isinstance(v, AObj):
            if id(v) in seen:
                return seen
            seen.add(id(v))
            for x in v.fields.values():
                KindEngine.reach(x, seen)
        elif isinstance(v, (list, tuple, set)):
            for x in v:
                KindEngine.reach(x, seen)
        elif isinstance(v, dict):
            for x in v.values():
                KindEngine.reach(x, seen)
        return seen

    # ------------------------------------------------------------------ evaluation
    def child_options(self, c):
        if c.kind == "term":
            if c.name in VARIANTS and self.gm.literal(c.name) is None:
                # a terminal with several spellings that the callbacks tell apart: one run per spelling
                return {("T", c.name, v) for v in VARIANTS[c.name]}
            return {("T", c.name)}
        if c.kind == "none":
            return {("N",)}
        return set(self.vals.get(c.name, set()))

    def eval_alt(self, alt):
        gm = self.gm
        if str(alt.origin) in ("fbody", "start"):
            return set()
        sh = gm.shape(alt, self.cbs)
        out = set()
        for children in gm.expand_splices(alt.children):
            opts = [self.child_options(c) for c in children]
            if any(not o for o in opts):
                continue
            if sh[0] == "inline" or (sh[0].startswith("inline-or") and len(children) == 1):
                out |= opts[0]
                continue
            if sh[0] == "splice":
                continue
            if sh[0] in ("tree",) or sh[0] == "inline-or-tree":
                pl = frozenset()
                for o in opts:
                    for d in o:
                        pl |= payload_of(d)
                out.add(("R", str(alt.origin), norm_payload(pl)))
                continue
            # callback
            combos = self.combos(opts)
            for combo in combos:
                out |= self.run_callback(alt, children, combo)
        return out

    def combos(self, opts):
        pri = {"E": 0, "H": 1, "R": 2, "L": 3, "P": 4, "S": 5, "T": 6, "N": 7, "V": 8}
        lim = []
        for o in opts:
            by = {}
            for d in sorted(o, key=lambda d: (pri.get(d[0], 9), 0 if (d[0] == "E" and d[1] in ("Assignment", "Sequence")) else 1, str(d))):
                by.setdefault(d[0], []).append(d)
            pick = []
            for k in sorted(by, key=lambda k: pri.get(k, 9)):
                pick.extend(by[k][: (3 if k in ("E", "P") else 4 if k == "T" else 2)])
            lim.append(pick)
        allc = list(itertools.islice(itertools.product(*lim), 4000))
        if len(allc) <= self.max_combos:
            return allc
        # cover every (position, kind) at least once, all other positions at their first option
        # (the other positions hold a well-formed operand - a plain value, the plain spelling of a token - so that the callback gets
        # as far as the position that is varied)
        def neutral(l):
            for d in l:
                if d[0] == "P":
                    return d
            for d in l:
                if d[0] == "T" and len(d) > 2 and d[2] == SAMPLE.get(d[1]):
                    return d
            return l[0]
        base = [neutral(l) for l in lim]
        res = {tuple(base)}
        for i, l in enumerate(lim):
            for d in l:
                c = list(base)
                c[i] = d
                res.add(tuple(c))
        for c in allc[: self.max_combos]:
            res.add(c)
        return list(res)

    def run_callback(self, alt, children, combo):
        mk = (str(alt.origin), alt.order, combo)
        if mk not in self.memo:
            self.memo[mk] = self._run_callback(alt, children, combo)
        return self.memo[mk]

    def _run_callback(self, alt, children, combo):
        name = str(alt.callback)
        key_alt = f"{alt.origin}#{alt.order}"
        # (macro_expr gets a concrete macro table below: its argument check is interpreted, not summarised)
        r = Runner(self.idx, summarised=(Runner.SUMMARISED | self.EXTRA_SUMMARISED) - ({"cast_arg_list"} if name == "macro_expr" else set()))
        r.fold = False  # constant folding is C09's subject; here literals behave like any other pure
        from rules.common import mk_vt

        r.stubs[("ext", "get_value_type_by_resource_type")] = lambda a: mk_vt("Tres", True, 32)
        for m in ("reg", "hex_reg", "reg_alias"):
            r.stubs[("ext", m)] = lambda a, r=r: r.pure("reg", vt=mk_vt("treg", True, 32), cls="Register")
        r.stubs[("ext", "imm")] = lambda a, r=r: r.pure("imm", vt=mk_vt("timm", True, 32), cls="Immediate")
        r.s_cast_sub_routine_args = lambda interp, args, kwargs: args[1] if len(args) > 1 else kwargs.get("args")
        r.s_cast_arg_list = lambda interp, args, kwargs: None
        box = {}

        runs_objs = []

        pend = {}

        def items():
            objs = [self.mk(r, d, f"items[{i}]") for i, d in enumerate(combo)]
            runs_objs.append(objs)  # explore() re-executes per path: outcome k belongs to run k
            pend.clear()
            for i, d in enumerate(combo):
                if d[0] == "H":
                    nm = f"h_tmp_items{i}"
                    r.stubs[(f"items[{i}]", "get_name")] = nm
                    pend[nm] = AObj("Sequence", {"name": "pending_" + nm, "effects": [], "effect_ops": [], "type": Opaque("effect_type")}, label=f"pending({i})", origin="pending", opaque=False)
            return objs

        def self_over():
            over = {"il_ops_holder": AObj("ILOpsHolder", {"hybrid_effect_dict": pend, "hybrid_op_count": 9}, label="holder", opaque=True)}
            if name == "macro_expr" and combo and combo[0][0] == "T":
                # a registered macro whose parameters are of the laxest kind (external types are passed through unconverted): what the
                # callback does with each argument kind is decided by the callback itself, not by an unknown macro table
                from rules.common import mk_vt

                tok = self.mk(r, combo[0], "name")
                over["macros"] = {tok.value: AObj("Macro", {"param_types": [mk_vt(f"pt{i}", False, 64, ("EXTERNAL",)) for i in range(len(combo) - 1)], "name": tok.value}, label="macro", opaque=True)}
            return over

        self.runs += 1
        try:
            fi, outs = r.run(name, items, self_over=self_over, max_runs=96, may_subclass=False)
        except AnalysisError as e:
            self.errors.append(f"{key_alt} [{', '.join(short(d) for d in combo)}]: {e}")
            return set()
        res = set()
        where = f"{fi.path.relative_to(self.idx.repo)}:{fi.node.lineno}"
        content_idx = []
        if name not in DECL_MACHINERY:
            for i, d in enumerate(combo):
                if d[0] == "E" and d[1] != "Empty":
                    content_idx.append(i)
                elif d[0] == "R" and d[1] in STMT_TREES and payload_of(d) & {"effect"}:
                    content_idx.append(i)
                elif d[0] == "L" and payload_of(d) & {"effect"}:
                    content_idx.append(i)
        for k_out, o in enumerate(outs):
            if o.kind == "raise":
                self.raised_alts.setdefault(key_alt, set()).add(tuple(short(d) for d in combo))
                continue
            objs = runs_objs[k_out]
            carried = {}
            for i, d in enumerate(combo):
                if d[0] == "R" and isinstance(objs[i], AObj):
                    carried[id(objs[i])] = d[2]
            rd = self.classify(o.value, carried)
            # a pending value consumed by a flushed effect is no longer pending; handled by classify (effects are 'E')
            res.add(rd)
            self.alt_results.setdefault(key_alt, set()).add(rd)
            reached = self.reach(o.value)
            # a child handed to a function outside the model (extension, holder, node method) counts as consumed there
            for e in o.events:
                if e[0] == "call":
                    self.reach(list(e[2]) + list(e[3].values()), reached)
            # D1: content-carrying children must be reachable from the result
            for i in content_idx:
                obj = objs[i]
                ids = self.reach(obj)
                lost = False
                if isinstance(obj, AObj):
                    # the child itself has to be part of the result: taking a piece out of it (the last effect of a sequence)
                    # loses the rest
                    lost = id(obj) not in reached
                elif isinstance(obj, list):
                    # every statement of a list child has to arrive: taking the first (or last) element loses the others
                    def flat(x):
                        for y in x:
                            if isinstance(y, (list, tuple)):
                                yield from flat(y)
                            else:
                                yield y
                    elems = [id(y) for y in flat(obj) if isinstance(y, AObj)]
                    lost = not (ids & reached) or any(e_ not in reached for e_ in elems)
                if not lost and combo[i][0] == "E" and rd[0] == "P" and isinstance(obj, AObj) and obj.cls not in self.pure_classes:
                    # the effect became an operand of a VALUE node: values are read, never sequenced - the effect is declared at
                    # best, but no sequence names it
                    d = combo[i]
                    k = f"{name}[{alt.origin}#{alt.order}: {alt.skeleton()}] child {i} (effect below a value)"
                    f = self.findings.setdefault(k, Finding("D1", k, "an effect handed on as the operand of a value node: nothing sequences it", where))
                    f.kinds = getattr(f, "kinds", set()) | {short(d)}
                if lost:
                    d = combo[i]
                    k = f"{name}[{alt.origin}#{alt.order}: {alt.skeleton()}] child {i}"
                    f = self.findings.setdefault(k, Finding("D1", k, "not part of the callback's result on a translating path", where))
                    f.kinds = getattr(f, "kinds", set()) | {short(d)}
            # D2: non-effects with content handed to a Sequence's effect list
            for e in o.events:
                if e[0] == "node" and e[1] == "Sequence":
                    lst = e[2].fields.get("__ctor__", {}).get("effects")
                    lst = lst if isinstance(lst, list) else [lst]
                    flushed = e[2].fields.get("flushed")
                    for pos, x in enumerate(lst):
                        d = self.classify(x, carried)
                        if isinstance(x, (list, tuple)):
                            # Sequence only keeps Effect instances: a list handed over as one element is dropped as a whole
                            content = sorted(p for p in payload_of(d) if p in ("effect", "pending") or p.startswith("kw:"))
                            if content:
                                k = f"{name}: Sequence element: nested statement list is not an Effect"
                                self.findings.setdefault(k, Finding("D2", k, f"the statements of a nested list are dropped (content: {content}); the list has to be flattened first", where))
                            continue
                        if d[0] == "H" and ((flushed == "SEQ_THEN_HYB" and pos == len(lst) - 1) or (flushed == "HYB_THEN_SEQ" and pos == 0)):
                            continue  # its pending effect is sequenced right next to it by the flush of this very sequence
                        self._discard(f"{name}: Sequence element", d, where)
        return res

    def discard_site(self, site, value, carried, where):
        d = self.classify(value, carried)
        self._discard(site, d, where)

    def _discard(self, site, d, where):
        if d[0] == "L":
            for x in d[1]:
                self._discard(site, x, where)
            return
        if d[0] == "E":
            return
        if d[0] == "R":
            content = sorted(p for p in d[2] if p in ("effect", "pending") or p.startswith("kw:"))
            if not content:
                return  # a tree without statements/effects inside (e.g. _Static_assert): nothing is lost
            k = f"{site}: raw Tree({d[1]}) is not an Effect"
            self.findings.setdefault(k, Finding("D2", k, f"untranslated syntax dropped (content: {content})", where))
        elif d[0] == "T" and d[1] in WATCH_KW:
            k = f"{site}: keyword {d[1]} is not an Effect"
            self.findings.setdefault(k, Finding("D2", k, "control keyword dropped", where))
        elif d[0] == "H":
            k = f"{site}: pending hybrid value"
            self.findings.setdefault(k, Finding("D2", k, "value of a side-effecting operation discarded while its effect is still pending (later hoisted to the instruction start)", where))

    @staticmethod
    def merge(descs: set) -> set:
        """one list kind per rule (lists are flattened at every use site), one raw-tree kind per rule name."""
        out = set()
        elems = set()
        trees = {}
        has_list = False
        for d in descs:
            if d[0] == "L":
                has_list = True
                elems |= set(d[1])
            elif d[0] == "R":
                trees[d[1]] = trees.get(d[1], frozenset()) | d[2]
            else:
                out.add(d)
        if has_list:
            # nested trees inside the list are merged as well
            le = set()
            lt = {}
            for d in elems:
                if d[0] == "R":
                    lt[d[1]] = lt.get(d[1], frozenset()) | d[2]
                else:
                    le.add(d)
            le |= {("R", k, v) for k, v in lt.items()}
            out.add(("L", frozenset(le)))
        out |= {("R", k, v) for k, v in trees.items()}
        return out

    def solve(self, rules=None, max_rounds=14):
        gm = self.gm
        order = [r for r in gm.rules if rules is None or r in rules]
        for rnd in range(max_rounds):
            changed = False
            for rname in order:
                new = set()
                for alt in gm.rules[rname]:
                    new |= self.eval_alt(alt)
                new = self.merge(new | self.vals[rname])
                if new != self.vals[rname]:
                    self.vals[rname] = new
                    changed = True
            if not changed:
                break
        else:
            self.errors.append("kind fixpoint did not converge")
        # top level discard site: run emit_final_seq_return on every kind a statement can have
        fb = self.idx.func("RZILTransformer.emit_final_seq_return")
        where = f"{fb.path.relative_to(self.idx.repo)}:{fb.node.lineno}"
        for d in sorted(self.vals.get("stmt", set()), key=str):
            for x in (d[1] if d[0] == "L" else [d]):
                if x[0] == "H":
                    if not self.top_level_takes_pending():
                        self._discard("fbody (top-level Effect filter)", x, where)
                else:
                    self._discard("fbody (top-level Effect filter)", x, where)
        return self

    def top_level_takes_pending(self) -> bool:
        """does emit_final_seq_return sequence the pending effect of a top-level hybrid value at the statement's position?"""
        r = Runner(self.idx, summarised=Runner.SUMMARISED | self.EXTRA_SUMMARISED)
        box = {}

        def args():
            v = r.pure("items[0]", cls="LocalVar", pending=True)
            r.stubs[("items[0]", "get_name")] = "h_tmp1"
            s1 = r.pure("s1", cls="Effect")
            box["s1"] = s1
            return [[s1, v, r.pure("s2", cls="Effect")], ""]

        def over():
            pend = AObj("Sequence", {"name": "pending1"}, label="pending1", opaque=True)
            box["p"] = pend
            return {"il_ops_holder": AObj("ILOpsHolder", {"hybrid_effect_dict": {"h_tmp1": pend}, "hybrid_op_count": 2}, label="holder", opaque=True),
                    "imm_set_effect_list": [], "code_format": Opaque("fmt")}

        try:
            fi, outs = r.run("emit_final_seq_return", args, self_over=over, args_list=True, max_runs=32)
        except AnalysisError as e:
            self.errors.append(f"emit_final_seq_return: {e}")
            return False
        ok = bool(outs)
        for o in outs:
            seqs = [e[2] for e in o.events if e[0] == "node" and e[1] == "Sequence"]
            labels = [[getattr(x, "label", None) for x in (q.fields.get("__ctor__", {}).get("effects") or [])] for q in seqs]
            if ["s1", "pending1", "s2"] not in labels:
                ok = False
        return ok
