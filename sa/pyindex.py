"""E-PY: source index and resolved call graph over rzilcompiler/**/*.py (Tests/ excluded).

No type checker is available in this sandbox (no mypy/pyright/libcst), so resolution is a small
hand-rolled inference sufficient for a code base of this size (DESIGN.md A.1).
"""
from __future__ import annotations

import ast
from dataclasses import dataclass, field
from pathlib import Path

from .report import AnalysisError

MUTATORS = {"append", "extend", "add", "remove", "pop", "clear", "update", "insert", "setdefault", "discard", "popitem", "sort", "reverse"}


@dataclass
class ClassInfo:
    name: str
    module: str
    path: Path
    node: ast.ClassDef
    bases: list[str]
    methods: dict[str, ast.FunctionDef] = field(default_factory=dict)
    class_attrs: dict[str, ast.expr] = field(default_factory=dict)  # name -> value expr (class body assignments)


@dataclass
class FuncInfo:
    qual: str  # "Class.method" or "module:function"
    cls: str | None
    name: str
    node: ast.FunctionDef
    path: Path
    module: str


class Index:
    def __init__(self, repo: Path):
        self.repo = Path(repo)
        self.pkg = self.repo / "rzilcompiler"
        if not self.pkg.is_dir():
            raise AnalysisError(f"anchor missing: package directory {self.pkg}")
        self.modules: dict[str, ast.Module] = {}
        self.paths: dict[str, Path] = {}
        self.sources: dict[str, str] = {}
        self.classes: dict[str, ClassInfo] = {}
        self.funcs: dict[str, FuncInfo] = {}
        self.module_funcs: dict[str, list[FuncInfo]] = {}  # simple name -> infos
        self.module_consts: dict[str, ast.expr] = {}  # simple name -> value (module-level simple assigns)
        self.module_bindings: dict[str, dict[str, ast.expr]] = {}  # module -> name -> value
        self._load()
        self.attr_classes = self._infer_attr_classes()

    # ------------------------------------------------------------------ loading
    def _load(self):
        for p in sorted(self.pkg.rglob("*.py")):
            rel = p.relative_to(self.repo)
            if "Tests" in rel.parts:
                continue
            mod = ".".join(rel.with_suffix("").parts)
            try:
                src = p.read_text()
                tree = ast.parse(src, filename=str(p))
            except SyntaxError as e:
                raise AnalysisError(f"cannot parse {rel}: {e}")
            self.modules[mod] = tree
            self.paths[mod] = p
            self.sources[mod] = src
            for node in tree.body:
                if isinstance(node, ast.ClassDef):
                    bases = []
                    for b in node.bases:
                        if isinstance(b, ast.Name):
                            bases.append(b.id)
                        elif isinstance(b, ast.Attribute):
                            bases.append(b.attr)
                    ci = ClassInfo(node.name, mod, p, node, bases)
                    for item in node.body:
                        if isinstance(item, ast.FunctionDef):
                            ci.methods[item.name] = item
                            fi = FuncInfo(f"{node.name}.{item.name}", node.name, item.name, item, p, mod)
                            self.funcs[fi.qual] = fi
                        elif isinstance(item, ast.Assign):
                            for t in item.targets:
                                if isinstance(t, ast.Name):
                                    ci.class_attrs[t.id] = item.value
                        elif isinstance(item, ast.AnnAssign) and isinstance(item.target, ast.Name) and item.value is not None:
                            ci.class_attrs[item.target.id] = item.value
                    if node.name in self.classes:
                        raise AnalysisError(f"duplicate class name {node.name} ({mod} and {self.classes[node.name].module})")
                    self.classes[node.name] = ci
                elif isinstance(node, ast.FunctionDef):
                    fi = FuncInfo(f"{mod.split('.')[-1]}:{node.name}", None, node.name, node, p, mod)
                    self.funcs[fi.qual] = fi
                    self.module_funcs.setdefault(node.name, []).append(fi)
                elif isinstance(node, ast.Assign):
                    for t in node.targets:
                        if isinstance(t, ast.Name):
                            self.module_consts[t.id] = node.value
                            self.module_bindings.setdefault(mod, {})[t.id] = node.value
                elif isinstance(node, ast.AnnAssign) and isinstance(node.target, ast.Name) and node.value is not None:
                    self.module_consts[node.target.id] = node.value
                    self.module_bindings.setdefault(mod, {})[node.target.id] = node.value

    # ------------------------------------------------------------------ lookup
    def where(self, node: ast.AST, path: Path | None = None) -> str:
        if path is None:
            path = getattr(node, "_path", None)
        rel = path.relative_to(self.repo) if path else "?"
        return f"{rel}:{getattr(node, 'lineno', '?')}"

    def cls(self, name: str) -> ClassInfo:
        if name not in self.classes:
            raise AnalysisError(f"anchor missing: class {name}")
        return self.classes[name]

    def func(self, qual: str) -> FuncInfo:
        """'Class.method' (resolved through the MRO) or a module-level function name."""
        if "." in qual:
            cname, m = qual.split(".", 1)
            fi = self.resolve_method(cname, m)
            if fi is None:
                raise AnalysisError(f"anchor missing: method {qual}")
            return fi
        infos = self.module_funcs.get(qual)
        if not infos:
            raise AnalysisError(f"anchor missing: function {qual}")
        if len(infos) > 1:
            raise AnalysisError(f"ambiguous module-level function {qual}")
        return infos[0]

    def has_func(self, qual: str) -> bool:
        try:
            self.func(qual)
            return True
        except AnalysisError:
            return False

    def own_method(self, cname: str, m: str) -> FuncInfo | None:
        ci = self.classes.get(cname)
        if ci and m in ci.methods:
            return self.funcs[f"{cname}.{m}"]
        return None

    def mro(self, cname: str) -> list[str]:
        """C3 linearisation over in-repo classes (external bases such as Transformer/Enum are dropped)."""
        def merge(seqs):
            res = []
            seqs = [list(s) for s in seqs if s]
            while seqs:
                for s in seqs:
                    cand = s[0]
                    if not any(cand in t[1:] for t in seqs):
                        break
                else:
                    raise AnalysisError(f"inconsistent MRO for {cname}")
                res.append(cand)
                seqs = [[x for x in s if x != cand] for s in seqs]
                seqs = [s for s in seqs if s]
            return res

        def lin(c):
            ci = self.classes.get(c)
            if ci is None:
                return []
            bases = [b for b in ci.bases if b in self.classes]
            return [c] + merge([lin(b) for b in bases] + [bases])

        return lin(cname)

    def resolve_method(self, cname: str, m: str) -> FuncInfo | None:
        for c in self.mro(cname):
            if m in self.classes[c].methods:
                return self.funcs[f"{c}.{m}"]
        return None

    def subclasses(self, cname: str, strict: bool = False) -> list[str]:
        out = [c for c in self.classes if cname in self.mro(c)]
        if strict:
            out = [c for c in out if c != cname]
        return out

    def external_bases(self, cname: str) -> set[str]:
        out = set()
        for c in self.mro(cname):
            out |= {b for b in self.classes[c].bases if b not in self.classes}
        return out

    def is_enum(self, cname: str) -> bool:
        return bool(self.external_bases(cname) & {"Enum", "StrEnum", "IntEnum", "Flag", "IntFlag"})

    def enum_table(self, cname: str) -> dict[str, object]:
        """member -> constant value (None for auto())."""
        ci = self.cls(cname)
        out = {}
        for k, v in ci.class_attrs.items():
            if isinstance(v, ast.Constant):
                out[k] = v.value
            elif isinstance(v, ast.Call) and isinstance(v.func, ast.Name) and v.func.id == "auto":
                out[k] = None
        return out

    def const_str(self, name: str, depth: int = 0):
        """Resolve a module-level constant (following simple aliases) to a Python value, if literal."""
        v = self.module_consts.get(name)
        if v is None or depth > 5:
            return None
        if isinstance(v, ast.Name):
            return self.const_str(v.id, depth + 1)
        try:
            return ast.literal_eval(v)
        except Exception:
            return None

    # ------------------------------------------------------------------ attribute classes
    def _infer_attr_classes(self) -> dict[tuple[str, str], set[str]]:
        """(class, attribute) -> set of in-repo classes the attribute may hold."""
        out: dict[tuple[str, str], set[str]] = {}

        def note(c, a, k):
            if k in self.classes:
                out.setdefault((c, a), set()).add(k)

        for cname, ci in self.classes.items():
            for m in ci.methods.values():
                ann = {a.arg: a.annotation for a in m.args.args if a.annotation is not None}
                for n in ast.walk(m):
                    tgt = val = None
                    if isinstance(n, ast.Assign) and len(n.targets) == 1:
                        tgt, val = n.targets[0], n.value
                    elif isinstance(n, ast.AnnAssign):
                        tgt, val = n.target, n.value
                        if isinstance(tgt, ast.Attribute) and isinstance(tgt.value, ast.Name) and tgt.value.id == "self":
                            for k in ast.walk(n.annotation):
                                if isinstance(k, ast.Name):
                                    note(cname, tgt.attr, k.id)
                    if not (isinstance(tgt, ast.Attribute) and isinstance(tgt.value, ast.Name) and tgt.value.id == "self"):
                        continue
                    if isinstance(val, ast.Call) and isinstance(val.func, ast.Name):
                        note(cname, tgt.attr, val.func.id)
                    elif isinstance(val, ast.Name) and val.id in ann:
                        for k in ast.walk(ann[val.id]):
                            if isinstance(k, ast.Name):
                                note(cname, tgt.attr, k.id)
            for a, v in ci.class_attrs.items():
                if isinstance(v, ast.Call) and isinstance(v.func, ast.Name):
                    note(cname, a, v.func.id)
        # Untyped back-references the repo uses (constructor argument without annotation):
        # HexagonTransformerExtension(self) is only constructed inside RZILTransformer.__init__.
        for cname, ci in self.classes.items():
            for m in ci.methods.values():
                for n in ast.walk(m):
                    if isinstance(n, ast.Call) and isinstance(n.func, ast.Name) and n.func.id in self.classes:
                        callee_init = self.resolve_method(n.func.id, "__init__")
                        if not callee_init:
                            continue
                        params = [a.arg for a in callee_init.node.args.args][1:]
                        for i, a in enumerate(n.args):
                            if isinstance(a, ast.Name) and a.id == "self" and i < len(params):
                                # find `self.<x> = <param>` in callee __init__
                                for s in ast.walk(callee_init.node):
                                    if (
                                        isinstance(s, ast.Assign)
                                        and isinstance(s.value, ast.Name)
                                        and s.value.id == params[i]
                                        and isinstance(s.targets[0], ast.Attribute)
                                    ):
                                        out.setdefault((callee_init.cls, s.targets[0].attr), set()).add(cname)
        return out

    def attr_class(self, cname: str, attr: str) -> set[str]:
        res = set()
        for c in self.mro(cname):
            res |= self.attr_classes.get((c, attr), set())
        return res

    # ------------------------------------------------------------------ call resolution
    def resolve_call(self, call: ast.Call, enclosing_cls: str | None, local_types: dict[str, set[str]] | None = None) -> list[FuncInfo]:
        """Possible in-repo callees of a call expression. Constructor calls resolve to __init__."""
        f = call.func
        local_types = local_types or {}
        if isinstance(f, ast.Name):
            if f.id in self.classes:
                init = self.resolve_method(f.id, "__init__")
                return [init] if init else []
            return list(self.module_funcs.get(f.id, []))
        if isinstance(f, ast.Attribute):
            recv = f.value
            m = f.attr
            # Explicit base call  K.m(self, ...)
            if isinstance(recv, ast.Name) and recv.id in self.classes:
                r = self.resolve_method(recv.id, m)
                return [r] if r else []
            # super().m(...)
            if isinstance(recv, ast.Call) and isinstance(recv.func, ast.Name) and recv.func.id == "super" and enclosing_cls:
                for c in self.mro(enclosing_cls)[1:]:
                    if m in self.classes[c].methods:
                        return [self.funcs[f"{c}.{m}"]]
                return []
            recv_classes: set[str] = set()
            if isinstance(recv, ast.Name) and recv.id == "self" and enclosing_cls:
                recv_classes = {enclosing_cls}
                out = []
                r = self.resolve_method(enclosing_cls, m)
                if r:
                    out.append(r)
                for sc in self.subclasses(enclosing_cls, strict=True):
                    o = self.own_method(sc, m)
                    if o and o not in out:
                        out.append(o)
                return out
            if isinstance(recv, ast.Name) and recv.id in local_types:
                recv_classes = local_types[recv.id]
            elif isinstance(recv, ast.Attribute) and isinstance(recv.value, ast.Name) and recv.value.id == "self" and enclosing_cls:
                recv_classes = self.attr_class(enclosing_cls, recv.attr)
            elif (
                isinstance(recv, ast.Attribute)
                and isinstance(recv.value, ast.Attribute)
                and isinstance(recv.value.value, ast.Name)
                and recv.value.value.id == "self"
                and enclosing_cls
            ):
                for k in self.attr_class(enclosing_cls, recv.value.attr):
                    recv_classes |= self.attr_class(k, recv.attr)
            if recv_classes:
                out = []
                for k in recv_classes:
                    r = self.resolve_method(k, m)
                    if r and r not in out:
                        out.append(r)
                    for sc in self.subclasses(k, strict=True):
                        o = self.own_method(sc, m)
                        if o and o not in out:
                            out.append(o)
                if out:
                    return out
            # Unknown receiver: class-hierarchy analysis over every in-repo method of that name.
            return [self.funcs[f"{c}.{m}"] for c, ci in self.classes.items() if m in ci.methods]
        return []

    def callees(self, fi: FuncInfo) -> list[tuple[ast.Call, list[FuncInfo]]]:
        out = []
        for n in ast.walk(fi.node):
            if isinstance(n, ast.Call):
                out.append((n, self.resolve_call(n, fi.cls)))
        return out

    def reachable(self, roots: list[FuncInfo], stop: set[str] | None = None) -> dict[str, FuncInfo]:
        seen: dict[str, FuncInfo] = {}
        work = list(roots)
        while work:
            fi = work.pop()
            if fi.qual in seen or (stop and fi.qual in stop):
                continue
            seen[fi.qual] = fi
            for _, cs in self.callees(fi):
                for c in cs:
                    if c.qual not in seen:
                        work.append(c)
            # methods taken as VALUES (`self.m` stored in a dispatch table, handed to map / a callback slot): they may be called
            # through the value later, so they count as reachable
            if fi.cls:
                call_funcs = {id(n.func) for n in ast.walk(fi.node) if isinstance(n, ast.Call)}
                for n in ast.walk(fi.node):
                    if isinstance(n, ast.Attribute) and isinstance(n.ctx, ast.Load) and id(n) not in call_funcs and isinstance(n.value, ast.Name) and n.value.id == "self":
                        m = self.resolve_method(fi.cls, n.attr)
                        if m is not None and m.qual not in seen:
                            work.append(m)
        return seen

    # ------------------------------------------------------------------ effects
    def attr_effects(self, fi: FuncInfo):
        """(reads, rebinds, mutations) as sets of (receiver-text, attr) for `self.x` / `self.a.x` receivers."""
        reads, rebinds, muts = set(), set(), set()

        def recv_text(n):
            try:
                return ast.unparse(n)
            except Exception:
                return "?"

        for n in ast.walk(fi.node):
            if isinstance(n, ast.Attribute):
                if isinstance(n.ctx, ast.Store):
                    rebinds.add((recv_text(n.value), n.attr))
                elif isinstance(n.ctx, ast.Load):
                    reads.add((recv_text(n.value), n.attr))
            if isinstance(n, ast.AugAssign) and isinstance(n.target, ast.Attribute):
                muts.add((recv_text(n.target.value), n.target.attr))
            if isinstance(n, ast.Call) and isinstance(n.func, ast.Attribute) and n.func.attr in MUTATORS:
                tgt = n.func.value
                if isinstance(tgt, ast.Attribute):
                    muts.add((recv_text(tgt.value), tgt.attr))
            if isinstance(n, (ast.Assign, ast.AugAssign, ast.Delete)):
                tgts = n.targets if isinstance(n, (ast.Assign, ast.Delete)) else [n.target]
                for t in tgts:
                    if isinstance(t, ast.Subscript) and isinstance(t.value, ast.Attribute):
                        muts.add((recv_text(t.value.value), t.value.attr))
        return reads, rebinds, muts


def is_mutable_literal(v: ast.AST) -> bool:
    if isinstance(v, (ast.List, ast.Dict, ast.Set, ast.ListComp, ast.DictComp, ast.SetComp)):
        return True
    if isinstance(v, ast.Call) and isinstance(v.func, ast.Name) and v.func.id in ("list", "dict", "set", "defaultdict", "OrderedDict", "deque", "Counter"):
        return True
    return False


def free_module_state(idx: "Index", fi: FuncInfo) -> list[tuple[str, str]]:
    """Module-level mutable bindings (or `global` names) a function refers to: [(name, how)]."""
    out = []
    binds = idx.module_bindings.get(fi.module, {})
    local = {a.arg for a in fi.node.args.args} | {a.arg for a in fi.node.args.kwonlyargs}
    for n in ast.walk(fi.node):
        if isinstance(n, ast.Name) and isinstance(n.ctx, ast.Store):
            local.add(n.id)
    globs = set()
    for n in ast.walk(fi.node):
        if isinstance(n, (ast.Global, ast.Nonlocal)):
            globs |= set(n.names)
    for g in sorted(globs):
        out.append((g, "global statement"))
    for n in ast.walk(fi.node):
        if isinstance(n, ast.Name) and isinstance(n.ctx, ast.Load) and n.id not in (local - globs):
            v = binds.get(n.id)
            if v is not None and is_mutable_literal(v):
                out.append((n.id, "module-level mutable container"))
    # function attributes used as static storage: f.cache = ...
    for n in ast.walk(fi.node):
        if isinstance(n, ast.Attribute) and isinstance(n.value, ast.Name) and n.value.id == fi.name and fi.cls is None:
            out.append((f"{fi.name}.{n.attr}", "function attribute"))
    # mutable default arguments
    for d in list(fi.node.args.defaults) + [d for d in fi.node.args.kw_defaults if d is not None]:
        if is_mutable_literal(d):
            out.append((U_(d), "mutable default argument"))
    # decorators that memoise
    for d in fi.node.decorator_list:
        t = U_(d)
        if any(k in t for k in ("cache", "lru_cache", "memo")):
            out.append((t, "memoising decorator"))
    return sorted(set(out))


def U_(n):
    try:
        return ast.unparse(n)
    except Exception:
        return "?"


def get_index(env) -> Index:
    return env.get("index", lambda: Index(env.repo))
