"""Self-validation of the checker (DESIGN.md §4): mutants must be reported by the named rule, twins must stay silent.

Each catalogue entry is a textual edit (old -> new, exactly one occurrence) of one file of a scratch copy of
rzilcompiler/ + Resources/ made under a mkdtemp directory outside /repo and /verif and removed afterwards.  The same
rules are then pointed at the scratch copy (nothing is executed there either).  Results only feed the evidence file;
they never print VIOLATION and never change the exit status of the tree under test.
"""
from __future__ import annotations

import importlib
import io
import contextlib
import os
import shutil
import tempfile
from concurrent.futures import ProcessPoolExecutor
from pathlib import Path

from . import report


def make_scratch(repo: Path) -> Path:
    d = Path(tempfile.mkdtemp(prefix="rzilc_selftest_", dir=os.environ.get("VERIF_SCRATCH", "/tmp")))
    shutil.copytree(repo / "rzilcompiler", d / "rzilcompiler", ignore=shutil.ignore_patterns("__pycache__", "Tests"))
    shutil.copytree(repo / "Resources", d / "Resources")
    return d


def apply_patch(root: Path, patch: Path):
    import subprocess

    r = subprocess.run(["git", "apply", "--unsafe-paths", str(patch)], cwd=root, capture_output=True, text=True)
    if r.returncode != 0:
        raise RuntimeError(f"seed patch does not apply: {patch}: {r.stderr.strip()[:120]}")


def apply_edit(root: Path, rel: str, old: str, new: str):
    p = root / rel
    s = p.read_text()
    if s.count(old) != 1:
        raise RuntimeError(f"catalogue entry does not apply: {rel}: {s.count(old)} occurrences of {old[:50]!r}")
    p.write_text(s.replace(old, new))


def _one(args):
    prop, entry, repo = args
    name = entry["name"]
    root = None
    try:
        root = make_scratch(Path(repo))
        for ed in entry.get("edits", []):
            apply_edit(root, ed["file"], ed["old"], ed["new"])
        if entry.get("patch"):
            apply_patch(root, Path(entry["patch"]))
        buf = io.StringIO()
        with contextlib.redirect_stdout(buf):
            from sa import main as _m  # noqa

            _m.load_rules() if not report.RULES else None
            status = report.run_property(prop, root, "quick", 0, write_evidence=False, quiet=True)
        last = report.LAST
        rules = sorted({v.rule for v in last.get("violations", [])})
        return {"name": name, "kind": entry["kind"], "status": status, "rules": rules,
                "errors": [e[:200] for e in last.get("errors", [])][:2]}
    except Exception as e:
        return {"name": name, "kind": entry["kind"], "status": -1, "rules": [], "errors": [f"{type(e).__name__}: {e}"]}
    finally:
        if root is not None:
            shutil.rmtree(root, ignore_errors=True)


def catalogue(prop: str):
    """mutants (hand-written + confirmed seeded changes of this property) and twins (all of them)"""
    out = []
    try:
        mod = importlib.import_module(f"selftest.{prop.lower()}")
        out += list(mod.CATALOGUE)
    except ModuleNotFoundError:
        pass
    from selftest.mutants import MUTANTS
    from selftest.twins import TWINS

    for p, name, rule, file, old, new in MUTANTS:
        if p == prop:
            out.append({"name": f"M:{name}", "kind": "M", "rule": rule, "edits": [{"file": file, "old": old, "new": new}]})
    seeded = Path(__file__).resolve().parent.parent / "seeded"
    for d in sorted(seeded.glob(f"{prop}-*")):
        if (d / "patch.diff").is_file():
            out.append({"name": f"S:{d.name}", "kind": "M", "rule": None, "patch": str(d / "patch.diff")})
    for name, file, old, new, props in TWINS:
        if props is None or prop in props:
            edits = [{"file": f, "old": o, "new": n} for f, o, n in old] if file == "MULTI" else [{"file": file, "old": old, "new": new}]
            out.append({"name": f"T:{name}", "kind": "T", "edits": edits})
    return out


def run(prop: str, seed: int = 0, quiet: bool = False, repo: str = "/repo", jobs: int = 16):
    cat = catalogue(prop)
    if not cat:
        return {"entries": 0}
    import random

    random.Random(seed).shuffle(cat)
    with ProcessPoolExecutor(max_workers=min(jobs, len(cat))) as ex:
        results = list(ex.map(_one, [(prop, e, repo) for e in cat]))
    byname = {e["name"]: e for e in cat}
    m_total = m_flagged = t_total = t_silent = 0
    problems = []
    for r in results:
        e = byname[r["name"]]
        if e["kind"] == "M":
            m_total += 1
            want = e.get("rule")
            if r["status"] == 1 and (want is None or want in r["rules"]):
                m_flagged += 1
            else:
                problems.append(f"mutant {r['name']} not reported as expected (status={r['status']}, rules={r['rules']}, errors={r['errors']})")
        else:
            t_total += 1
            if r["status"] == 0:
                t_silent += 1
            else:
                problems.append(f"twin {r['name']} not silent (status={r['status']}, rules={r['rules']}, errors={r['errors']})")
    summary = {"entries": len(cat), "mutants_applied": m_total, "mutants_flagged": m_flagged, "twins_applied": t_total,
               "twins_silent": t_silent, "problems": problems,
               "results": [{k: r[k] for k in ("name", "kind", "status", "rules")} for r in sorted(results, key=lambda r: r["name"])]}
    if not quiet:
        print(f"[{prop}] selftest: mutants {m_flagged}/{m_total} flagged, twins {t_silent}/{t_total} silent")
        for p in problems:
            print(f"[{prop}] selftest note: {p}")
    return summary
