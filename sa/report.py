"""Rule framework, reporting contract, evidence writer (DESIGN.md §1.2).

Exit codes: 0 = every rule instance holds (known findings printed as KNOWN-FINDING),
1 = at least one violation that known_findings.json does not list,
2 = ANALYSIS-ERROR (anchor vanished, unsupported idiom, instance floor missed, own traceback).
"""
from __future__ import annotations

import json
import os
import sys
import time
import traceback
from dataclasses import dataclass, field
from pathlib import Path

VERIF = Path(__file__).resolve().parent.parent


class AnalysisError(Exception):
    """The analysis no longer understands its subject. Never a silent pass."""


@dataclass
class Instance:
    rule: str
    key: str  # construct key: qualified function + normalised description, never a line number
    ok: bool
    expected: str
    observed: str
    where: str = ""  # file:line, informational only
    note: str = ""
    nontrivial: bool = True


@dataclass
class RuleDef:
    rid: str
    prop: str
    title: str
    fn: object
    min_instances: int
    tier: str = "quick"  # "quick" rules run in both tiers; "thorough" only in thorough


RULES: dict[str, RuleDef] = {}


def rule(rid: str, prop: str, title: str, min_instances: int = 1, tier: str = "quick"):
    def deco(fn):
        if rid in RULES:
            raise RuntimeError(f"duplicate rule id {rid}")
        RULES[rid] = RuleDef(rid, prop, title, fn, min_instances, tier)
        return fn

    return deco


class RuleCtx:
    """Handed to a rule function; collects instances."""

    def __init__(self, env, rdef: RuleDef):
        self.env = env
        self.rdef = rdef
        self.instances: list[Instance] = []
        self.notes: list[str] = []

    # -- recording -------------------------------------------------------------
    def check(self, key: str, ok: bool, expected, observed, where: str = "", note: str = "", nontrivial: bool = True):
        self.instances.append(
            Instance(self.rdef.rid, key, bool(ok), str(expected), str(observed), where, note, nontrivial)
        )
        return bool(ok)

    def note(self, text: str):
        self.notes.append(text)

    def need(self, cond, what: str):
        """Anchor / idiom requirement: failing it is an analysis error, not a verdict."""
        if not cond:
            raise AnalysisError(f"{self.rdef.rid}: {what}")
        return cond


@dataclass
class Env:
    repo: Path
    tier: str
    seed: int
    cache: dict = field(default_factory=dict)

    def get(self, name, builder):
        if name not in self.cache:
            self.cache[name] = builder()
        return self.cache[name]


def load_known() -> list[dict]:
    p = VERIF / "known_findings.json"
    if not p.exists():
        return []
    data = json.loads(p.read_text())
    return data.get("findings", [])


def finding_matches(entry: dict, prop: str, inst: Instance) -> bool:
    return (
        entry.get("status") == "known"
        and entry.get("property") == prop
        and entry.get("rule") == inst.rule
        and entry.get("key") == inst.key
        and entry.get("observed") == inst.observed
    )


def run_property(prop: str, repo: Path, tier: str, seed: int, only_rule: str | None = None,
                 only_key: str | None = None, write_evidence: bool = True, quiet: bool = False,
                 thorough_selftest: bool = False) -> int:
    t0 = time.time()
    env = Env(repo=repo, tier=tier, seed=seed)
    rules = [r for r in RULES.values() if r.prop == prop and (tier == "thorough" or r.tier == "quick")]
    if only_rule:
        rules = [r for r in rules if r.rid == only_rule]
    if not rules:
        print(f"ANALYSIS-ERROR property={prop} no rules registered")
        return 2
    known = load_known()
    all_instances: list[Instance] = []
    per_rule = []
    errors = []
    for r in sorted(rules, key=lambda r: [int(x) if x.isdigit() else x for x in r.rid[1:].replace(".", " ").split()]):
        ctx = RuleCtx(env, r)
        try:
            r.fn(ctx)
            if len(ctx.instances) < r.min_instances and not only_key:
                raise AnalysisError(
                    f"{r.rid}: only {len(ctx.instances)} instances evaluated, floor is {r.min_instances} "
                    f"(a rule that matches nothing must not pass vacuously)"
                )
        except AnalysisError as e:
            errors.append(str(e))
        except Exception as e:  # own traceback: exit 2, never 1
            tb = traceback.format_exc(limit=6)
            errors.append(f"{r.rid}: internal error {type(e).__name__}: {e}\n{tb}")
        insts = ctx.instances
        if only_key:
            insts = [i for i in insts if i.key == only_key]
        all_instances.extend(insts)
        per_rule.append(
            {
                "rule": r.rid,
                "title": r.title,
                "instances": len(insts),
                "nontrivial": len({i.key for i in insts if i.nontrivial}),
                "failed": len([i for i in insts if not i.ok]),
                "floor": r.min_instances,
                "notes": ctx.notes[:20],
                "samples": [
                    {"key": i.key, "expected": i.expected, "observed": i.observed, "where": i.where, "ok": i.ok}
                    for i in insts[:4]
                ],
            }
        )

    violations = []
    known_hits = []
    for inst in all_instances:
        if inst.ok:
            continue
        hit = next((k for k in known if finding_matches(k, prop, inst)), None)
        if hit:
            known_hits.append((inst, hit))
        else:
            violations.append(inst)

    status = 0
    out = []
    for inst, hit in known_hits:
        out.append(
            f"KNOWN-FINDING: property={prop} {inst.rule} {inst.key} observed={inst.observed} "
            f"expected={inst.expected} witness={hit.get('witness', '')}"
        )
    vdir = VERIF / "evidence" / "violations"
    if violations:
        status = 1
        vdir.mkdir(parents=True, exist_ok=True)
        for n, inst in enumerate(violations):
            rp = vdir / f"{prop}-{n}.json"
            rp.write_text(
                json.dumps(
                    {
                        "property": prop,
                        "rule": inst.rule,
                        "key": inst.key,
                        "expected": inst.expected,
                        "observed": inst.observed,
                        "where": inst.where,
                        "note": inst.note,
                    },
                    indent=1,
                )
            )
            out.append(f"VIOLATION property={prop} replay={rp}")
            out.append(
                f"  {inst.where or '?'} {inst.rule} {inst.key}: expected {inst.expected}; extracted {inst.observed}"
                + (f" ({inst.note})" if inst.note else "")
            )
    if errors:
        if status == 0:
            status = 2  # a found violation stays a violation (exit 1) even if another rule could not be evaluated
        for e in errors:
            out.append(f"ANALYSIS-ERROR property={prop} {e}")
    if not quiet:
        for line in out:
            print(line)
        n_ok = len([i for i in all_instances if i.ok])
        print(
            f"[{prop}] tier={tier} rules={len(per_rule)} instances={len(all_instances)} ok={n_ok} "
            f"known={len(known_hits)} violations={len(violations)} errors={len(errors)} "
            f"wall={time.time() - t0:.2f}s"
        )

    env.cache["last_result"] = {"status": status, "violations": violations, "known": known_hits, "errors": errors, "instances": all_instances}
    global LAST
    LAST = env.cache["last_result"]
    if thorough_selftest and status != 2:
        try:
            from sa import selftest

            env.cache["selfcheck"] = selftest.run(prop, seed, quiet=quiet)
        except Exception as e:  # self-validation never changes the verdict of the tree
            env.cache["selfcheck"] = {"error": f"{type(e).__name__}: {e}"}
            if not quiet:
                print(f"[{prop}] selftest could not run: {type(e).__name__}: {e}")

    if write_evidence:
        ev = build_evidence(prop, tier, seed, per_rule, all_instances, known_hits, violations, errors, time.time() - t0, env)
        edir = VERIF / "evidence"
        edir.mkdir(exist_ok=True)
        (edir / f"{prop}.json").write_text(json.dumps(ev, indent=1))
    return status


LAST: dict = {}
PROP_EXPLANATION: dict[str, str] = {}
PROP_ASSUMPTIONS: dict[str, list[str]] = {}


def build_evidence(prop, tier, seed, per_rule, insts, known_hits, violations, errors, wall, env):
    nontrivial = len({(i.rule, i.key) for i in insts if i.nontrivial})
    samples = []
    for pr in per_rule:
        for s in pr["samples"][:2]:
            samples.append({"rule": pr["rule"], **s})
    cov = {
        "explanation": PROP_EXPLANATION.get(prop, "")
        + " Decided statically on the current source under "
        + str(env.repo)
        + ": no repository code is executed; every rule extracts a table/graph/path set from the AST, "
        "the grammar model or a regex AST and compares it with a frozen oracle.",
        "evaluations": len(insts),
        "distinct_nontrivial": nontrivial,
        "rule": "one evaluation = one rule instance (a decision-table cell, a dataflow obligation at a call site, a grammar "
        "alternative, a regex atom, an attribute, a path); non-trivial = the extractor produced a non-empty "
        "table/graph for it and it was compared with the oracle; distinct = distinct (rule, construct key)",
        "samples": samples[:40],
        "rules": per_rule,
        "known_findings_reported": [
            {"rule": i.rule, "key": i.key, "observed": i.observed} for i, _ in known_hits
        ],
        "analysis_errors": errors,
        "exhaustive": prop == "C04",
        "selfcheck": env.cache.get("selfcheck"),
    }
    return {
        "property_id": prop,
        "tier": tier,
        "seed": seed,
        "level": "other",
        "coverage": cov,
        "assumptions": PROP_ASSUMPTIONS.get(prop, [])
        + [
            "oracle tables under /verif/oracles (C11, RzIL builder sorts, Hexagon/QEMU operand letters) are correct",
            "node-level faithfulness composes (syntax-directed translation)",
            "CPython ast / re._parser and Lark's documented tree shaping",
        ],
        "wall_s": round(wall, 3),
        "violations": len(violations),
    }
