"""TEMPLATE domain: string-valued symbolic expressions -> canonical RzIL term text with named holes.

`canon(expr, holemap, idx)` renders e.g. the return value of BitOp.il_exec on the RSHIFT/signed path as
``SHIFTRA(<a>, <b>)``: literal text is kept (whitespace-normalised), every non-literal sub-expression becomes a hole
named by `holemap` (a function from the hole's source expression to a role name).  Comparisons are therefore on opcode,
arity and hole order/identity, not on source text.
"""
from __future__ import annotations

import ast
import re
from dataclasses import dataclass

from .report import AnalysisError
from .symex import U, expand_ifexp, fold


@dataclass
class Hole:
    expr: ast.AST


class NotConst(Exception):
    pass


def const_eval(e, idx):
    """Evaluate an expression over literals and module-level constants (PluginInfo names). Raises NotConst."""
    if isinstance(e, ast.Constant):
        return e.value
    if isinstance(e, ast.Name):
        v = idx.const_str(e.id) if idx is not None else None
        if v is None and (idx is None or e.id not in idx.module_consts):
            raise NotConst
        return v
    if isinstance(e, (ast.List, ast.Tuple)):
        return [const_eval(x, idx) for x in e.elts]
    if isinstance(e, ast.BinOp) and isinstance(e.op, ast.Add):
        return const_eval(e.left, idx) + const_eval(e.right, idx)
    if isinstance(e, ast.IfExp):
        return const_eval(e.body, idx) if const_eval(e.test, idx) else const_eval(e.orelse, idx)
    if isinstance(e, ast.JoinedStr):
        out = ""
        for v in e.values:
            if isinstance(v, ast.Constant):
                out += str(v.value)
            elif isinstance(v, ast.FormattedValue) and v.format_spec is None:
                out += str(const_eval(v.value, idx))
            else:
                raise NotConst
        return out
    if isinstance(e, ast.Call) and isinstance(e.func, ast.Attribute):
        m = e.func.attr
        recv = const_eval(e.func.value, idx)
        args = [const_eval(a, idx) for a in e.args]
        if isinstance(recv, str) and m in ("join", "lower", "upper", "strip", "replace") and not e.keywords:
            return getattr(recv, m)(*args)
    raise NotConst


def to_parts(expr, idx=None) -> list:
    """Flatten a string-building expression into literal strings and Holes (IfExp must be expanded/foldable)."""
    try:
        v = const_eval(expr, idx)
        if isinstance(v, str):
            return [v]
    except NotConst:
        pass
    if isinstance(expr, ast.JoinedStr):
        out = []
        for v in expr.values:
            if isinstance(v, ast.Constant):
                out.append(str(v.value))
            elif isinstance(v, ast.FormattedValue):
                if v.format_spec is not None or v.conversion != -1:
                    out.append(Hole(v))
                else:
                    out.extend(to_parts(v.value, idx))
            else:
                out.append(Hole(v))
        return out
    if isinstance(expr, ast.BinOp) and isinstance(expr.op, ast.Add):
        return to_parts(expr.left, idx) + to_parts(expr.right, idx)
    if isinstance(expr, ast.IfExp):
        try:
            t = const_eval(expr.test, idx)
            return to_parts(expr.body if t else expr.orelse, idx)
        except NotConst:
            raise AnalysisError(f"template: unexpanded conditional {U(expr)}")
    return [Hole(expr)]


def canon(expr, holemap=None, idx=None) -> str:
    parts = to_parts(expr, idx)
    out = ""
    for p in parts:
        if isinstance(p, Hole):
            name = holemap(p.expr) if holemap else None
            if name is None:
                name = U(p.expr)
            out += f"<{name}>"
        else:
            out += p
    return normalise(out)


def normalise(s: str) -> str:
    s = re.sub(r"\s+", " ", s.strip())
    s = re.sub(r"\s*([(),])\s*", r"\1", s)
    s = s.replace(",", ", ")
    return s


def variants(expr, idx=None):
    """[(extra_guards, expr)] with every non-constant IfExp split."""
    out = []
    for guards, e in expand_ifexp(expr):
        gs = []
        dead = False
        for g, pol in guards:
            try:
                v = bool(const_eval(g, idx))
                if v != pol:
                    dead = True
                    break
            except NotConst:
                f = fold(g)
                if f is not None:
                    if f != pol:
                        dead = True
                        break
                else:
                    gs.append((g, pol))
        if not dead:
            out.append((gs, e))
    return out


# --------------------------------------------------------------------------- term parsing
def balanced(s: str) -> bool:
    depth = 0
    in_str = None
    for ch in s:
        if in_str:
            if ch == in_str:
                in_str = None
            continue
        if ch in "\"'":
            in_str = ch
            continue
        if ch == "(":
            depth += 1
        elif ch == ")":
            depth -= 1
            if depth < 0:
                return False
    return depth == 0 and in_str is None


def parse_term(s: str):
    """'ADD(<a>, CAST(32, x, <b>))' -> ('ADD', [('<a>', None), ('CAST', [...])]). Atoms are (text, None)."""
    s = s.strip()
    pos = 0

    def term():
        nonlocal pos
        start = pos
        depth_br = 0
        while pos < len(s):
            ch = s[pos]
            if ch == "<":
                depth_br += 1
            elif ch == ">" and depth_br:
                depth_br -= 1
            elif depth_br:
                pass
            elif ch in "\"'":
                q = ch
                pos += 1
                while pos < len(s) and s[pos] != q:
                    pos += 1
            elif ch in "(,)":
                break
            pos += 1
        head = s[start:pos].strip()
        if pos < len(s) and s[pos] == "(":
            pos += 1
            args = []
            if pos < len(s) and s[pos] == ")":
                pos += 1
                return (head, args)
            while True:
                args.append(term())
                if pos >= len(s):
                    raise AnalysisError(f"unbalanced term {s!r}")
                if s[pos] == ",":
                    pos += 1
                    continue
                if s[pos] == ")":
                    pos += 1
                    break
            # trailing text after ')' (e.g. ';') is appended to head of a wrapper
            return (head, args)
        return (head, None)

    t = term()
    rest = s[pos:].strip()
    if rest:
        return ("@seq", [t, (rest, None)])
    return t


def term_ops(t) -> list[str]:
    """All operator names in a parsed term, pre-order."""
    out = []

    def rec(x):
        head, args = x
        if args is not None:
            out.append(head)
            for a in args:
                rec(a)

    rec(t)
    return out
