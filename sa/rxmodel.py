"""E-RX: regex AST analysis via re._parser (DESIGN.md A.5)."""
from __future__ import annotations

import re
import re._parser as sp
from dataclasses import dataclass

from .report import AnalysisError


@dataclass
class Atom:
    kind: str  # literal | class | repeat | group | at | branch | other
    text: str = ""
    group: int | None = None
    sub: list | None = None
    greedy: bool = True
    min: int = 1
    max: int = 1
    inner: object = None


def parse(pattern: str, flags: int = 0) -> list[Atom]:
    try:
        tree = sp.parse(pattern, flags)
    except Exception as e:
        raise AnalysisError(f"regex does not parse: {pattern!r}: {e}")
    return _atoms(list(tree))


def _atoms(seq) -> list[Atom]:
    out: list[Atom] = []
    for op, arg in seq:
        if op is sp.LITERAL:
            if out and out[-1].kind == "literal":
                out[-1].text += chr(arg)
            else:
                out.append(Atom("literal", chr(arg)))
        elif op is sp.SUBPATTERN:
            gid, _, _, sub = arg
            out.append(Atom("group", group=gid, sub=_atoms(list(sub))))
        elif op in (sp.MAX_REPEAT, sp.MIN_REPEAT):
            lo, hi, sub = arg
            inner = _atoms(list(sub))
            out.append(Atom("repeat", greedy=op is sp.MAX_REPEAT, min=lo, max=hi, inner=inner))
        elif op is sp.IN:
            out.append(Atom("class", text=str(arg), inner=arg))
        elif op is sp.ANY:
            out.append(Atom("class", text="ANY", inner="ANY"))
        elif op is sp.AT:
            out.append(Atom("at", text=str(arg)))
        elif op is sp.BRANCH:
            out.append(Atom("branch", sub=[_atoms(list(b)) for b in arg[1]]))
        elif op is sp.NOT_LITERAL:
            out.append(Atom("class", text=f"NOT {chr(arg)}", inner=[(sp.NEGATE, None), (sp.LITERAL, arg)]))
        else:
            out.append(Atom("other", text=str(op)))
    return out


def describe(atoms: list[Atom]) -> str:
    parts = []
    for a in atoms:
        if a.kind == "literal":
            parts.append(repr(a.text))
        elif a.kind == "group":
            parts.append(f"G{a.group}({describe(a.sub)})")
        elif a.kind == "repeat":
            parts.append(f"{describe(a.inner)}{{{a.min},{'inf' if a.max == sp.MAXREPEAT else a.max}}}{'' if a.greedy else '?'}")
        elif a.kind == "class":
            parts.append("ANY" if a.text == "ANY" else "CLASS")
        elif a.kind == "at":
            parts.append(a.text.replace("AT_", "@"))
        else:
            parts.append(a.kind)
    return " ".join(parts)


def class_matches(cls_atom: Atom, ch: str, flags: int = 0) -> bool:
    """Does the one-character class match `ch`? (decided with the stdlib on a single character)."""
    if cls_atom.text == "ANY":
        return ch != "\n" or bool(flags & re.DOTALL)
    items = cls_atom.inner
    neg = False
    hit = False
    for op, arg in items:
        if op is sp.NEGATE:
            neg = True
        elif op is sp.LITERAL:
            hit |= ord(ch) == arg
        elif op is sp.RANGE:
            hit |= arg[0] <= ord(ch) <= arg[1]
        elif op is sp.CATEGORY:
            name = str(arg)
            pat = {"CATEGORY_WORD": r"\w", "CATEGORY_DIGIT": r"\d", "CATEGORY_SPACE": r"\s", "CATEGORY_NOT_WORD": r"\W", "CATEGORY_NOT_DIGIT": r"\D", "CATEGORY_NOT_SPACE": r"\S"}.get(name)
            if pat is None:
                raise AnalysisError(f"unsupported regex category {name}")
            hit |= bool(re.fullmatch(pat, ch, flags & re.ASCII))
    return hit != neg


def uncaptured_nonliterals(atoms: list[Atom], inside_group=False) -> list[str]:
    """Non-literal atoms that consume text outside every capture group."""
    out = []
    for a in atoms:
        if a.kind in ("literal", "at"):
            continue
        if a.kind == "group":
            if a.group is None:
                out += uncaptured_nonliterals(a.sub, inside_group)
            continue
        if a.kind == "repeat":
            if all(x.kind == "group" and x.group is not None for x in a.inner):
                continue
            out.append(describe([a]))
            continue
        out.append(describe([a]))
    return out
