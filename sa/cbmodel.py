"""Abstract execution of RZILTransformer grammar callbacks (KIND + conversion-history domains).

A callback is interpreted by sa.absint with
 * `items[k]` = opaque operands labelled by provenance (`items[0]`), operator tokens concrete (`Tok`),
 * the conversion helpers summarised: promotion_cast(x) -> Promo(x); cast_operands(a,b,immutable_a) ->
   Common(a,b).0/.1 or (a, Conv(type(a), b)); init_a_cast(t, x) -> Conv(t, x)   (their bodies are checked against these
   summaries by their own rules),
 * IR node constructors summarised as abstract nodes that remember their constructor arguments by parameter name,
 * add_op -> identity (+event), chk_hybrid_dep(e, order) -> e marked `flushed=order`, resolve_hybrid(h) -> Hyb(h),
 * simplify_* -> fork (folded / not folded).
The label of every abstract value is its history term, so rules compare strings such as
`Common(Promo(items[0]),Promo(items[2])).0`.
"""
from __future__ import annotations

import ast

from .absint import AObj, BoundMethod, ClassRef, Interp, Opaque, OpaqueMethod, Raised, Tok, to_text, EnumV, FlagV, Sym
from .report import AnalysisError


def type_text(t):
    if isinstance(t, AObj) and t.cls == "ValueType":
        s, w = t.fields.get("_signed"), t.fields.get("_bit_width")
        g = t.fields.get("group")
        extra = ""
        if isinstance(g, FlagV) and (g.members - {"PURE"}):
            extra = "," + "+".join(sorted(g.members - {"PURE"}))
        return f"({'s' if s is True else 'u' if s is False else to_text(s)},{to_text(w)}{extra})"
    return to_text(t)


class Runner:
    SUMMARISED = {"promotion_cast", "cast_operands", "init_a_cast", "add_op", "chk_hybrid_dep", "resolve_hybrid",
                  "simplify_unary_expr", "simplify_arithmetic_expr", "simplify_compare_expr", "simplify_conditional_expr"}

    def __init__(self, idx, summarised=None, node_bases=("Pure", "Effect"), sym_compare=None, keep_real=()):
        self.idx = idx
        self.summarised = set(self.SUMMARISED if summarised is None else summarised) - set(keep_real)
        self.node_classes = set()
        for b in node_bases:
            self.node_classes |= set(idx.subclasses(b))
        self.sym_compare = sym_compare
        self.pure_like = set(idx.subclasses("Pure"))
        self.fold = True  # simplify_* summaries fork into folded / not folded
        self.flush_forks = False  # chk_hybrid_dep: fork into "no pending deps -> e" / "pending deps -> Sequence(deps + [e])"
        self.nodes = []
        self.stubs = {}  # (object label, method name) -> value | callable(args) : summaries of operand methods for one run

    # ------------------------------------------------------------------ abstract values
    def pure(self, label, vt=None, cls="Pure", **fields):
        f = dict(fields)
        if vt is not None:
            f["value_type"] = vt
        return AObj(cls, f, label=label, origin=label, opaque=True)

    def mk_self(self, **over):
        ext = AObj("HexagonTransformerExtension", {}, label="ext", opaque=True)
        holder = AObj("ILOpsHolder", {"hybrid_effect_dict": {}, "hybrid_op_count": 0}, label="holder", opaque=True)
        f = {"ext": ext, "il_ops_holder": holder, "parameters": {}, "imm_set_effect_list": [],
             "sub_routines": Opaque("self.sub_routines"), "macros": Opaque("self.macros"),
             "return_type": Opaque("self.return_type"), "code_format": Opaque("self.code_format"), "arch": Opaque("arch")}
        # any other attribute the constructor sets holds an arbitrary history of this transformer (unknown content):
        # a callback that consults it (a cache, a counter) forks on what it finds there
        try:
            init = self.idx.func("RZILTransformer.__init__")
        except Exception:
            init = None
        if init is not None:
            for n in ast.walk(init.node):
                tgts = n.targets if isinstance(n, ast.Assign) else [n.target] if isinstance(n, (ast.AnnAssign, ast.AugAssign)) else []
                for t in tgts:
                    if isinstance(t, ast.Attribute) and isinstance(t.value, ast.Name) and t.value.id == "self" and t.attr not in f:
                        f[t.attr] = Opaque(f"self.{t.attr}")
        f.update(over)
        return AObj("RZILTransformer", f, label="self")

    # ------------------------------------------------------------------ hook
    def hook(self, interp, callee, args, kwargs, text):
        if isinstance(callee, BoundMethod) and callee.obj is not None and callee.obj.cls == "RZILTransformer":
            n = callee.finfo.name
            if n in self.summarised:
                return getattr(self, "s_" + n)(interp, args, kwargs)
            return NotImplemented
        if isinstance(callee, ClassRef) and callee.name in self.node_classes:
            return self.node(interp, callee.name, args, kwargs)
        if isinstance(callee, OpaqueMethod):
            # setters of abstract nodes (bodies: Assignment.set_src/set_dest, Pure.set_value_type, GCCStmtDeclExpr.update_stmt)
            o, a = callee.obj, callee.attr
            if (o.label, a) in self.stubs:
                v = self.stubs[(o.label, a)]
                interp.events.append(("call", callee.text, args, kwargs))
                return v(args) if callable(v) else v
            if a == "get_op_list" and not args and "__ctor__" in o.fields:
                # summary of Effect.get_op_list for abstract nodes: the leaf operands reachable through the constructor arguments
                interp.events.append(("call", callee.text, args, kwargs))
                return self.node_op_list(o)
            setters = {"set_src": "src", "set_dest": "dest", "set_value_type": "value_type", "update_stmt": "stmt"}
            if a in setters and len(args) == 1:
                interp.events.append(("setter", o, a, args[0]))
                o.fields[setters[a]] = args[0]
                return None
            if a in ("get_name", "pure_var", "effect_var", "get_isa_name") and not args:
                interp.events.append(("call", callee.text, args, kwargs))
                return Opaque(f"{callee.text}()")
        return NotImplemented

    def node(self, interp, cname, args, kwargs):
        init = self.idx.resolve_method(cname, "__init__")
        params = [a.arg for a in init.node.args.args][1:] if init else []
        fields = {}
        for p, v in zip(params, args):
            fields[p] = v
        fields.update(kwargs)
        # defaults (e.g. order) are irrelevant for the summaries
        def lab(v):
            if isinstance(v, list):
                return "[" + ", ".join(lab(x) for x in v) + "]"
            if isinstance(v, AObj):
                return v.label or v.cls
            return to_text(v)
        label = f"{cname}(" + ", ".join(f"{k}={lab(v)}" for k, v in fields.items() if k != "name") + ")"
        obj = AObj(cname, fields, label=label, origin="node", opaque=True)
        obj.fields["__ctor__"] = dict(fields)
        self.nodes.append(obj)
        interp.events.append(("node", cname, obj))
        return obj

    def s_add_op(self, interp, args, kwargs):
        interp.events.append(("add_op", args[0]))
        return args[0]

    def need_pure(self, x):
        """the real helpers read `.value_type`: anything that is not a Pure makes them raise AttributeError."""
        if isinstance(x, AObj) and (x.cls in self.pure_like or "value_type" in x.fields):
            return
        if isinstance(x, Opaque):
            return
        raise Raised("AttributeError", f"{self.lab(x)} has no value_type")

    def s_promotion_cast(self, interp, args, kwargs):
        x = args[0]
        self.need_pure(x)
        return self.pure(f"Promo({self.lab(x)})", of=[x])

    def s_init_a_cast(self, interp, args, kwargs):
        t = args[0] if args else kwargs.get("target_type")
        x = args[1] if len(args) > 1 else kwargs.get("pure")
        self.need_pure(x)
        return self.pure(f"Conv({type_text(t)},{self.lab(x)})", vt=t if isinstance(t, AObj) else None, of=[x])

    def s_cast_operands(self, interp, args, kwargs):
        imm = kwargs.get("immutable_a", args[0] if args else None)
        a, b = kwargs.get("a"), kwargs.get("b")
        if a is None or b is None or not isinstance(imm, bool):
            raise AnalysisError(f"cast_operands called with unsupported argument shape: {args} {list(kwargs)}")
        self.need_pure(a)
        self.need_pure(b)
        ta = a.fields.get("value_type") if isinstance(a, AObj) else None
        tb = b.fields.get("value_type") if isinstance(b, AObj) else None
        if ta is not None and ta is tb:
            return (a, b)  # one and the same type object: provably equal types, nothing to convert
        if imm:
            return (a, self.pure(f"Conv(type({self.lab(a)}),{self.lab(b)})", of=[b]))
        c = f"Common({self.lab(a)},{self.lab(b)})"
        return (self.pure(c + ".0", of=[a]), self.pure(c + ".1", of=[b]))

    def s_chk_hybrid_dep(self, interp, args, kwargs):
        e = args[0]
        order = args[1] if len(args) > 1 else kwargs.get("order")
        o = "HYB_THEN_SEQ" if order is None else (order.member if isinstance(order, EnumV) else to_text(order))
        interp.events.append(("flush", e, o))
        if isinstance(e, AObj):
            e.fields["flushed"] = o
        if self.flush_forks and isinstance(e, AObj) and interp.chooser.choose("pending effects reference the consumer"):
            deps = AObj("Sequence", {}, label="pending-deps", opaque=True)
            effs = [deps, e] if o != "SEQ_THEN_HYB" else [e, deps]
            w = AObj("Sequence", {"effects": effs, "effect_ops": effs, "__ctor__": {"effects": effs}, "flushed": o, "wraps": e}, label=f"Flushed({self.lab(e)})", opaque=True)
            return w
        return e

    def s_resolve_hybrid(self, interp, args, kwargs):
        h = args[0]
        interp.events.append(("resolve_hybrid", h))
        return self.pure(f"Hyb({self.lab(h)})", hybrid=h)

    def _fold(self, interp, name):
        if self.fold and interp.chooser.choose(f"{name} folds"):
            return self.pure("folded", cls="Number")
        return None

    def s_simplify_unary_expr(self, interp, args, kwargs):
        return self._fold(interp, "simplify_unary_expr")

    def s_simplify_arithmetic_expr(self, interp, args, kwargs):
        return self._fold(interp, "simplify_arithmetic_expr")

    def s_simplify_compare_expr(self, interp, args, kwargs):
        return self._fold(interp, "simplify_compare_expr")

    def s_simplify_conditional_expr(self, interp, args, kwargs):
        return self._fold(interp, "simplify_conditional_expr")

    def node_op_list(self, obj, seen=None):
        seen = set() if seen is None else seen
        out = []

        def rec(v):
            if isinstance(v, AObj):
                if id(v) in seen:
                    return
                seen.add(id(v))
                if "__ctor__" in v.fields:
                    for x in v.fields["__ctor__"].values():
                        rec(x)
                elif "of" in v.fields:
                    for x in v.fields["of"]:
                        rec(x)
                elif v.cls in self.pure_like:
                    ops = v.fields.get("ops")
                    if isinstance(ops, list) and ops:
                        # an operand that is itself built from operands (Effect.get_op_list lists its leaves)
                        for x in ops:
                            rec(x)
                    else:
                        out.append(v)
            elif isinstance(v, (list, tuple)):
                for x in v:
                    rec(x)
            elif isinstance(v, str):
                out.append(v)

        rec(obj)
        return out

    @staticmethod
    def lab(x):
        if isinstance(x, AObj):
            return x.label or x.cls
        return to_text(x)

    # ------------------------------------------------------------------ run
    def run(self, method, make_items, self_over=None, max_runs=256, args_list=False, kwargs=None, may_subclass=False):
        """make_items() -> the `items` list (or, with args_list=True, the full positional argument list)."""
        fi = self.idx.func(f"RZILTransformer.{method}")

        def once(interp):
            self.nodes = []
            s = self.mk_self(**(self_over() if self_over else {}))
            self.self_obj = s
            a = make_items()
            return interp.call_function(fi, list(a) if args_list else [a], kwargs() if kwargs else None, self_obj=s)

        interp = Interp(self.idx, sym_compare=self.sym_compare, call_hook=self.hook, may_subclass=may_subclass)
        return fi, interp.explore(once, max_runs=max_runs)
