"""E-AI (valuation mode): abstract interpreter for small repo functions over finite abstract domains.

The interpreter walks the function's AST (the repository code itself is never imported or executed) with
 * concrete literals (str/int/bool/None, lists, tuples, dicts) for table keys and enum spellings,
 * `Sym` - symbolic scalars that support only comparison/copy; the rule supplies the ordering for the
   case being enumerated (PREDICATE domain: sign x width-order cases),
 * `AObj` - abstract heap objects with identity (aliasing and in-place stores are tracked; each carries an origin),
 * `Opaque` - the result of something outside the model (an operand's il_read(), a hole in a template),
 * `Tmpl` - strings with holes (TEMPLATE domain),
 * `EnumV`/`FlagV` - members of the repo's Enum/Flag classes read from the class bodies.
Unknown conditions fork (both branches are explored by re-execution under a decision prefix); anything the
interpreter does not understand raises AnalysisError (exit 2) - never a silent pass.  No solver is involved:
every guard is either decided by the finite valuation or enumerated.
"""
from __future__ import annotations

import ast
from dataclasses import dataclass, field

from .report import AnalysisError
from .symex import U


class Unsupported(AnalysisError):
    pass


class Sym:
    """Symbolic scalar: compare/copy only."""

    def __init__(self, name):
        self.name = name

    def __repr__(self):
        return f"${self.name}"


class Opaque:
    def __init__(self, text, cls=None):
        self.text = text
        self.cls = cls  # optional in-repo class name for isinstance()

    def __repr__(self):
        return f"<{self.text}>"


class OpaqueMethod(Opaque):
    """`obj.attr` where obj is an opaque abstract object: calling it is an event the rule's hook may summarise."""

    def __init__(self, obj, attr):
        super().__init__(f"{obj.label}.{attr}")
        self.obj, self.attr = obj, attr


class Tmpl:
    def __init__(self, parts):
        flat = []
        for p in parts:
            if isinstance(p, Tmpl):
                flat.extend(p.parts)
            elif isinstance(p, str) and flat and isinstance(flat[-1], str):
                flat[-1] += p
            else:
                flat.append(p)
        self.parts = flat

    def text(self):
        return "".join(p if isinstance(p, str) else f"<{getattr(p, 'text', getattr(p, 'name', p))}>" for p in self.parts)

    def __repr__(self):
        return f"T'{self.text()}'"


def to_text(v):
    if isinstance(v, Tmpl):
        return v.text()
    if isinstance(v, Opaque):
        return f"<{v.text}>"
    if isinstance(v, Sym):
        return f"<{v.name}>"
    if isinstance(v, EnumV):
        return str(v.value)
    if isinstance(v, bool):
        return "True" if v else "False"
    if isinstance(v, AObj):
        return f"<{v.label or v.cls}>"
    return str(v)


class Tok(str):
    """A lark Token: a str with .type and .value."""

    def __new__(cls, type_, value):
        o = str.__new__(cls, value)
        o.type = type_
        o.value = str(value)
        return o


class AObj:
    def __init__(self, cls, fields=None, label=None, origin=None, opaque=False):
        self.cls = cls
        self.fields = dict(fields or {})
        self.label = label
        self.origin = origin or label
        self.opaque = opaque

    def __repr__(self):
        return f"AObj({self.cls}:{self.label or ''})"


@dataclass(frozen=True)
class EnumV:
    cls: str
    member: str
    value: object


@dataclass(frozen=True)
class FlagV:
    cls: str
    members: frozenset

    def __bool__(self):
        return bool(self.members)


class ClassRef:
    def __init__(self, name):
        self.name = name


class BoundMethod:
    def __init__(self, obj, finfo):
        self.obj, self.finfo = obj, finfo


class Closure:
    def __init__(self, node, env):
        self.node, self.env = node, env


class Raised(Exception):
    def __init__(self, exc_cls, msg=""):
        self.exc_cls, self.msg = exc_cls, msg


class _Return(Exception):
    def __init__(self, v):
        self.v = v


class _Break(Exception):
    pass


class _Continue(Exception):
    pass


class Chooser:
    def __init__(self, prefix):
        self.prefix = list(prefix)
        self.trace = []

    def choose(self, text):
        i = len(self.trace)
        if i < len(self.prefix):
            val = self.prefix[i][1]
        else:
            val = True
        self.trace.append((text, val))
        return val


@dataclass
class Outcome:
    kind: str  # return | raise
    value: object
    decisions: list
    events: list
    interp: object = None


class Interp:
    def __init__(self, idx, sym_compare=None, max_depth=8, opaque_attr_ok=True, isinstance_hook=None, call_hook=None, may_subclass=False):
        self.idx = idx
        self.sym_compare = sym_compare  # (a, opname, b) -> bool | None
        self.max_depth = max_depth
        self.events = []
        self.chooser = None
        self.depth = 0
        self.isinstance_hook = isinstance_hook
        self.call_hook = call_hook  # (interp, callee_text, recv, args, kwargs) -> value | NotImplemented
        self.cur_cls = None
        # may_subclass: an opaque object declared as class K may be an instance of any strict subclass of K
        self.may_subclass = may_subclass

    # ------------------------------------------------------------------ driver
    def explore(self, fn, max_runs=512):
        """fn(interp) performs one abstract run (builds its objects, calls self.call_function...). Returns outcomes."""
        outcomes = []
        stack = [[]]
        runs = 0
        while stack:
            prefix = stack.pop()
            self.chooser = Chooser(prefix)
            self.events = []
            self.depth = 0
            runs += 1
            if runs > max_runs:
                raise Unsupported("too many abstract paths")
            try:
                v = fn(self)
                out = Outcome("return", v, list(self.chooser.trace), list(self.events))
            except Raised as r:
                out = Outcome("raise", r.exc_cls, list(self.chooser.trace), list(self.events))
            outcomes.append(out)
            tr = self.chooser.trace
            for i in range(len(prefix), len(tr)):
                stack.append(tr[:i] + [(tr[i][0], not tr[i][1])])
        return outcomes

    # ------------------------------------------------------------------ calling
    def call_function(self, finfo, args, kwargs=None, self_obj=None):
        kwargs = dict(kwargs or {})
        node = finfo.node
        self.depth += 1
        if self.depth > self.max_depth:
            raise Unsupported(f"inlining depth exceeded at {finfo.qual}")
        env = {}
        params = [a.arg for a in node.args.args]
        defaults = node.args.defaults
        dvals = {}
        for p, d in zip(params[len(params) - len(defaults):], defaults):
            dvals[p] = d
        pos = list(args)
        is_static = any(isinstance(d, ast.Name) and d.id == "staticmethod" for d in node.decorator_list)
        if self_obj is not None and not is_static:
            pos = [self_obj] + pos
        if len(pos) > len(params) and not node.args.vararg:
            raise Unsupported(f"too many arguments for {finfo.qual}")
        for p, v in zip(params, pos):
            env[p] = v
        if node.args.vararg:
            env[node.args.vararg.arg] = list(pos[len(params):])
        for p in params[len(pos):]:
            if p in kwargs:
                env[p] = kwargs.pop(p)
            elif p in dvals:
                env[p] = self.expr(dvals[p], {}, finfo.cls)
            else:
                raise Unsupported(f"missing argument {p} for {finfo.qual}")
        for a, d in zip(node.args.kwonlyargs, node.args.kw_defaults):
            if a.arg in kwargs:
                env[a.arg] = kwargs.pop(a.arg)
            elif d is not None:
                env[a.arg] = self.expr(d, {}, finfo.cls)
        if node.args.kwarg:
            env[node.args.kwarg.arg] = kwargs
            kwargs = {}
        if kwargs:
            raise Unsupported(f"unexpected keyword arguments {list(kwargs)} for {finfo.qual}")
        saved = self.cur_cls
        self.cur_cls = finfo.cls
        try:
            self.block(node.body, env, finfo.cls)
            res = None
        except _Return as r:
            res = r.v
        finally:
            self.cur_cls = saved
            self.depth -= 1
        return res

    def construct(self, cname, args, kwargs, label=None):
        if self.idx.is_enum(cname):
            if len(args) != 1:
                raise Unsupported(f"enum construction {cname}{args}")
            return self.enum_by_value(cname, args[0])
        obj = AObj(cname, label=label, origin="fresh")
        init = self.idx.resolve_method(cname, "__init__")
        if init:
            self.call_function(init, args, kwargs, self_obj=obj)
        elif args or kwargs:
            raise Unsupported(f"{cname} has no __init__ but got arguments")
        return obj

    def enum_by_value(self, cname, v):
        if isinstance(v, EnumV) and v.cls == cname:
            return v
        if isinstance(v, (Opaque, Sym, Tmpl)):
            return Opaque(f"{cname}({to_text(v)})", cls=cname)
        tbl = self.idx.enum_table(cname)
        for m, val in tbl.items():
            if (isinstance(val, str) and isinstance(v, str) and str(val) == str(v)) or (val == v and type(val) is type(v)):
                return EnumV(cname, m, val)
        raise Raised("ValueError", f"{v!r} is not a valid {cname}")

    # ------------------------------------------------------------------ truthiness / comparison
    def truth(self, v, text):
        if isinstance(v, (bool, int, str, float, list, tuple, dict, set, frozenset)) or v is None:
            return bool(v)
        if isinstance(v, _re.Match):
            return True
        if isinstance(v, FlagV):
            return bool(v.members)
        if isinstance(v, (AObj, EnumV, ClassRef, BoundMethod, Closure)):
            if isinstance(v, EnumV):
                return bool(v.value) if v.value is not None else True
            return True
        if isinstance(v, Tmpl):
            if any(isinstance(p, str) and p for p in v.parts):
                return True
        return self.chooser.choose(text)

    def compare(self, a, op, b, text):
        opn = type(op).__name__
        if isinstance(a, Sym) or isinstance(b, Sym):
            if self.sym_compare:
                r = self.sym_compare(a, opn, b)
                if r is not None:
                    return r
            if a is b and opn in ("Eq", "LtE", "GtE", "Is"):
                return True
            if a is b and opn in ("NotEq", "Lt", "Gt", "IsNot"):
                return False
            return self.chooser.choose(text)
        if isinstance(a, (Opaque, Tmpl)) or isinstance(b, (Opaque, Tmpl)):
            if isinstance(a, Tmpl) and isinstance(b, Tmpl) and opn in ("Eq", "NotEq") and a.text() == b.text():
                return opn == "Eq"
            return self.chooser.choose(text)
        if opn in ("Is", "IsNot"):
            same = a is b or (a is None and b is None) or (isinstance(a, (EnumV, bool)) and a == b)
            return same if opn == "Is" else not same
        if opn in ("In", "NotIn"):
            if isinstance(b, (list, tuple, set, frozenset, dict, str)):
                if isinstance(b, str) and not isinstance(a, str):
                    raise Unsupported(f"'in' on str with {a!r}")
                res = any(self._eq(a, x) for x in b) if not isinstance(b, (str, dict)) else (a in b)
                return res if opn == "In" else not res
            if isinstance(b, range):
                res = isinstance(a, int) and a in b
                return res if opn == "In" else not res
            if isinstance(b, FlagV) and isinstance(a, FlagV):
                # enum.Flag containment: a in b  <=>  a & b == a  (the empty flag is contained in every flag)
                res = a.members <= b.members
                return res if opn == "In" else not res
            if isinstance(b, EnumV) and isinstance(b.value, str) and isinstance(a, str):
                # member of a str-valued enum (StrEnum): substring test on its value
                res = a in b.value
                return res if opn == "In" else not res
            raise Unsupported(f"membership in {b!r}")
        if opn in ("Eq", "NotEq"):
            if isinstance(a, AObj) and isinstance(b, AObj):
                eq = self.idx.resolve_method(a.cls, "__eq__")
                if eq:
                    r = self.call_function(eq, [b], self_obj=a)
                    r = self.truth(r, text)
                    return r if opn == "Eq" else not r
            r = self._eq(a, b)
            return r if opn == "Eq" else not r
        if isinstance(a, AObj) and isinstance(b, AObj):
            dunder = {"Lt": "__lt__", "LtE": "__le__", "Gt": "__gt__", "GtE": "__ge__"}[opn]
            m = self.idx.resolve_method(a.cls, dunder)
            if m:
                return self.truth(self.call_function(m, [b], self_obj=a), text)
        try:
            if opn == "Lt":
                return a < b
            if opn == "LtE":
                return a <= b
            if opn == "Gt":
                return a > b
            if opn == "GtE":
                return a >= b
        except TypeError:
            raise Raised("TypeError", f"{a!r} {opn} {b!r}")
        raise Unsupported(f"comparison {opn}")

    def _eq(self, a, b):
        if isinstance(a, EnumV) and isinstance(b, EnumV):
            return a == b
        if isinstance(a, EnumV) and isinstance(a.value, str) and isinstance(b, str):
            return a.value == b  # StrEnum
        if isinstance(b, EnumV) and isinstance(b.value, str) and isinstance(a, str):
            return b.value == a
        if isinstance(a, AObj) or isinstance(b, AObj):
            return a is b
        if isinstance(a, FlagV) and isinstance(b, FlagV):
            return a == b
        if isinstance(a, str) and isinstance(b, str):
            return str(a) == str(b)
        return a == b and type(a) is type(b) or (isinstance(a, (int, float)) and isinstance(b, (int, float)) and a == b)

    # ------------------------------------------------------------------ statements
    def block(self, stmts, env, cls):
        for s in stmts:
            self.stmt(s, env, cls)

    def stmt(self, s, env, cls):
        if isinstance(s, ast.Expr):
            if not isinstance(s.value, ast.Constant):
                self.expr(s.value, env, cls)
        elif isinstance(s, ast.Assign):
            v = self.expr(s.value, env, cls)
            for t in s.targets:
                self.assign(t, v, env, cls)
        elif isinstance(s, ast.AnnAssign):
            if s.value is not None:
                self.assign(s.target, self.expr(s.value, env, cls), env, cls)
        elif isinstance(s, ast.AugAssign):
            cur = self.expr(self._load(s.target), env, cls)
            v = self.binop(cur, s.op, self.expr(s.value, env, cls), U(s))
            self.assign(s.target, v, env, cls, aug=True)
        elif isinstance(s, ast.Return):
            raise _Return(self.expr(s.value, env, cls) if s.value is not None else None)
        elif isinstance(s, ast.Raise):
            exc = s.exc
            name = "Exception"
            if isinstance(exc, ast.Call):
                name = U(exc.func)
            elif isinstance(exc, ast.Name):
                v = env.get(exc.id)
                name = v.exc_cls if isinstance(v, Raised) else exc.id
            raise Raised(name, U(exc) if exc is not None else "")
        elif isinstance(s, ast.If):
            if self.truth(self.expr(s.test, env, cls), U(s.test)):
                self.block(s.body, env, cls)
            else:
                self.block(s.orelse, env, cls)
        elif isinstance(s, ast.Assert):
            if not self.truth(self.expr(s.test, env, cls), U(s.test)):
                raise Raised("AssertionError", U(s.test))
        elif isinstance(s, ast.Pass):
            pass
        elif isinstance(s, ast.For):
            it = self.expr(s.iter, env, cls)
            if isinstance(it, dict):
                it = list(it.keys())
            if type(it) is Opaque:
                # a collection of unknown content: zero, one or two elements of unknown identity (bounded unrolling)
                try:
                    n = 0
                    while n < 2 and self.chooser.choose(f"{U(s.iter)} has element #{n}"):
                        self.assign(s.target, Opaque(f"{it.text}#{n}"), env, cls)
                        n += 1
                        try:
                            self.block(s.body, env, cls)
                        except _Continue:
                            continue
                    self.block(s.orelse, env, cls)
                except _Break:
                    pass
                return
            if isinstance(it, (Opaque, Sym, Tmpl)) or not hasattr(it, "__iter__"):
                raise Unsupported(f"iteration over {it!r} in {U(s.iter)}")
            try:
                live = it if isinstance(it, list) else list(it)  # Python iterates a list live (mutation during iteration matters)
                i = 0
                while i < len(live):
                    x = live[i]
                    i += 1
                    if i > 4096:
                        raise Unsupported("unbounded for loop")
                    self.assign(s.target, x, env, cls)
                    try:
                        self.block(s.body, env, cls)
                    except _Continue:
                        continue
                self.block(s.orelse, env, cls)
            except _Break:
                pass
        elif isinstance(s, ast.While):
            n = 0
            try:
                while True:
                    before = len(self.chooser.trace)
                    if not self.truth(self.expr(s.test, env, cls), U(s.test)):
                        break
                    unknown = len(self.chooser.trace) > before
                    n += 1
                    if unknown and n > 2:
                        break  # bounded unrolling for conditions the domain cannot decide
                    if n > 64:
                        raise Unsupported("unbounded while loop")
                    try:
                        self.block(s.body, env, cls)
                    except _Continue:
                        continue
            except _Break:
                pass
        elif isinstance(s, ast.Break):
            raise _Break()
        elif isinstance(s, ast.Continue):
            raise _Continue()
        elif isinstance(s, ast.Match):
            subj = self.expr(s.subject, env, cls)
            for case in s.cases:
                if self.match_pattern(case.pattern, subj, env, cls):
                    if case.guard is None or self.truth(self.expr(case.guard, env, cls), U(case.guard)):
                        self.block(case.body, env, cls)
                        break
        elif isinstance(s, ast.FunctionDef):
            env[s.name] = Closure(s, env)
        elif isinstance(s, ast.Try):
            try:
                self.block(s.body, env, cls)
                self.block(s.orelse, env, cls)
            except Raised as r:
                for h in s.handlers:
                    hn = U(h.type) if h.type is not None else "BaseException"
                    if hn in ("Exception", "BaseException", r.exc_cls) or r.exc_cls in hn:
                        if h.name:
                            env[h.name] = r
                        self.block(h.body, env, cls)
                        break
                else:
                    raise
            finally:
                if s.finalbody:
                    self.block(s.finalbody, env, cls)
        elif isinstance(s, ast.With):
            # context managers of the code under analysis are files and pools: entering yields the object itself
            for it in s.items:
                v = self.expr(it.context_expr, env, cls)
                if it.optional_vars is not None:
                    self.assign(it.optional_vars, v, env, cls)
            self.block(s.body, env, cls)
        elif isinstance(s, (ast.Import, ast.ImportFrom, ast.Global, ast.Nonlocal)):
            pass
        else:
            raise Unsupported(f"statement {type(s).__name__} at line {getattr(s, 'lineno', '?')}")

    @staticmethod
    def _load(t):
        import copy

        n = copy.copy(t)
        n.ctx = ast.Load()
        return n

    def match_pattern(self, pat, subj, env, cls):
        if isinstance(pat, ast.MatchValue):
            return self.compare(subj, ast.Eq(), self.expr(pat.value, env, cls), f"{to_text(subj)} == {U(pat.value)}")
        if isinstance(pat, ast.MatchSingleton):
            return subj is pat.value
        if isinstance(pat, ast.MatchOr):
            return any(self.match_pattern(p, subj, env, cls) for p in pat.patterns)
        if isinstance(pat, ast.MatchAs):
            ok = True if pat.pattern is None else self.match_pattern(pat.pattern, subj, env, cls)
            if ok and pat.name:
                env[pat.name] = subj
            return ok
        raise Unsupported(f"match pattern {type(pat).__name__}")

    def assign(self, t, v, env, cls, aug=False):
        if isinstance(t, ast.Name):
            env[t.id] = v
        elif isinstance(t, (ast.Tuple, ast.List)):
            if isinstance(v, (list, tuple)):
                if len(v) != len(t.elts):
                    raise Raised("ValueError", "unpack")
                for a, b in zip(t.elts, v):
                    self.assign(a, b, env, cls)
            elif isinstance(v, Opaque):
                for i, a in enumerate(t.elts):
                    self.assign(a, Opaque(f"{v.text}[{i}]"), env, cls)
            else:
                raise Unsupported(f"unpack of {v!r}")
        elif isinstance(t, ast.Attribute):
            obj = self.expr(t.value, env, cls)
            if isinstance(obj, AObj):
                # property setter?
                setter = self._property(obj.cls, t.attr, "setter")
                self.events.append(("store", obj, t.attr, v))
                if setter:
                    self.call_function(setter, [v], self_obj=obj)
                else:
                    obj.fields[t.attr] = v
            elif isinstance(obj, Opaque):
                self.events.append(("store", obj, t.attr, v))
            elif obj is None or isinstance(obj, (str, int, float, bool, list, tuple, dict, set)):
                raise Raised("AttributeError", f"cannot set {t.attr} on {type(obj).__name__}")
            else:
                raise Unsupported(f"attribute store on {obj!r}")
        elif isinstance(t, ast.Subscript):
            obj = self.expr(t.value, env, cls)
            k = self.expr(t.slice, env, cls)
            if isinstance(obj, (list, dict)):
                self.events.append(("setitem", obj, k, v))
                if isinstance(obj, list) and isinstance(t.slice, ast.Slice):
                    raise Unsupported("slice store")
                obj[k] = v
            elif isinstance(obj, Opaque):
                # a store into a container of unknown contents: it stays unknown (recorded for the rules that ask who writes where)
                self.events.append(("setitem", obj, k, v))
            else:
                raise Unsupported(f"subscript store on {obj!r}")
        else:
            raise Unsupported(f"assignment target {type(t).__name__}")

    def _property(self, cname, attr, kind):
        """getter/setter FunctionInfo if `attr` is a @property of the class."""
        for c in self.idx.mro(cname):
            ci = self.idx.classes[c]
            for item in ci.node.body:
                if isinstance(item, ast.FunctionDef) and item.name == attr:
                    for d in item.decorator_list:
                        if kind == "getter" and isinstance(d, ast.Name) and d.id == "property":
                            return _FI(c, item, ci)
                        if kind == "setter" and isinstance(d, ast.Attribute) and d.attr == "setter":
                            return _FI(c, item, ci)
        return None

    # ------------------------------------------------------------------ expressions
    def expr(self, e, env, cls):
        m = getattr(self, "e_" + type(e).__name__, None)
        if m is None:
            raise Unsupported(f"expression {type(e).__name__}: {U(e)}")
        return m(e, env, cls)

    def e_Constant(self, e, env, cls):
        return e.value

    def e_Name(self, e, env, cls):
        if e.id in env:
            return env[e.id]
        if e.id in self.idx.classes:
            return ClassRef(e.id)
        if e.id in self.idx.module_funcs:
            return self.idx.func(e.id)
        if e.id in self.idx.module_consts:
            return self.expr(self.idx.module_consts[e.id], {}, None)
        if e.id in BUILTINS:
            return BUILTINS[e.id]
        if e.id in ("Token", "Tree"):
            return ClassRef(e.id)
        if e.id == "re":
            return ReModule()
        raise Unsupported(f"unknown name {e.id}")

    def e_Tuple(self, e, env, cls):
        return tuple(self._elts(e.elts, env, cls))

    def e_List(self, e, env, cls):
        return list(self._elts(e.elts, env, cls))

    def e_Set(self, e, env, cls):
        return list(self._elts(e.elts, env, cls))

    def _elts(self, elts, env, cls):
        out = []
        for x in elts:
            if isinstance(x, ast.Starred):
                out.extend(self.expr(x.value, env, cls))
            else:
                out.append(self.expr(x, env, cls))
        return out

    def e_Dict(self, e, env, cls):
        return {self.expr(k, env, cls): self.expr(v, env, cls) for k, v in zip(e.keys, e.values)}

    def e_JoinedStr(self, e, env, cls):
        parts = []
        for v in e.values:
            if isinstance(v, ast.Constant):
                parts.append(str(v.value))
            else:
                val = self.expr(v.value, env, cls)
                if v.format_spec is not None:
                    spec = self.expr(v.format_spec, env, cls)
                    if isinstance(val, int) and isinstance(spec, str):
                        parts.append(format(val, spec))
                    else:
                        parts.append(Opaque(f"{to_text(val)}:{to_text(spec)}"))
                else:
                    parts.append(self.strify(val))
        t = Tmpl(parts)
        if all(isinstance(p, str) for p in t.parts):
            return "".join(t.parts)
        return t

    def strify(self, val):
        if isinstance(val, (str, Tmpl, Opaque, Sym)):
            return val
        if isinstance(val, AObj):
            m = self.idx.resolve_method(val.cls, "__str__")
            if m and not val.opaque:
                return self.strify(self.apply(BoundMethod(val, m), [], {}, f"str({val.label or val.cls})"))
            return Opaque(f"str({val.label or val.cls})")
        if isinstance(val, EnumV):
            return str(val.value) if isinstance(val.value, str) else f"{val.cls}.{val.member}"
        return to_text(val)

    def e_FormattedValue(self, e, env, cls):
        return self.strify(self.expr(e.value, env, cls))

    def e_IfExp(self, e, env, cls):
        if self.truth(self.expr(e.test, env, cls), U(e.test)):
            return self.expr(e.body, env, cls)
        return self.expr(e.orelse, env, cls)

    def e_BoolOp(self, e, env, cls):
        v = None
        for x in e.values:
            v = self.expr(x, env, cls)
            t = self.truth(v, U(x))
            if isinstance(e.op, ast.And) and not t:
                return v
            if isinstance(e.op, ast.Or) and t:
                return v
        return v

    def e_UnaryOp(self, e, env, cls):
        v = self.expr(e.operand, env, cls)
        if isinstance(e.op, ast.Not):
            return not self.truth(v, U(e.operand))
        if isinstance(e.op, ast.Invert) and isinstance(v, FlagV):
            allm = set(self.idx.classes[v.cls].class_attrs) if v.cls in self.idx.classes else set()
            return FlagV(v.cls, frozenset(allm - set(v.members)))
        if isinstance(v, (int, float)) and not isinstance(v, bool):
            if isinstance(e.op, ast.USub):
                return -v
            if isinstance(e.op, ast.UAdd):
                return +v
            if isinstance(e.op, ast.Invert):
                return ~v
        if isinstance(v, (Opaque, Sym)):
            return Opaque(f"{U(e.op) if False else type(e.op).__name__}({to_text(v)})")
        raise Unsupported(f"unary {type(e.op).__name__} on {v!r}")

    def e_Compare(self, e, env, cls):
        left = self.expr(e.left, env, cls)
        for op, c in zip(e.ops, e.comparators):
            right = self.expr(c, env, cls)
            if not self.compare(left, op, right, U(e)):
                return False
            left = right
        return True

    def e_BinOp(self, e, env, cls):
        return self.binop(self.expr(e.left, env, cls), e.op, self.expr(e.right, env, cls), U(e))

    def binop(self, a, op, b, text):
        opn = type(op).__name__
        if isinstance(a, FlagV) and isinstance(b, FlagV):
            if opn == "BitAnd":
                return FlagV(a.cls, a.members & b.members)
            if opn == "BitOr":
                return FlagV(a.cls, a.members | b.members)
        if isinstance(a, (Opaque,)) and isinstance(b, FlagV) or isinstance(b, Opaque) and isinstance(a, FlagV):
            return Opaque(f"({to_text(a)} {opn} {to_text(b)})")
        if opn == "Add":
            if (isinstance(a, (str, Tmpl)) and isinstance(b, (str, Tmpl, Opaque, Sym))) or (isinstance(b, (str, Tmpl)) and isinstance(a, (str, Tmpl, Opaque, Sym))) \
                    or (isinstance(a, Opaque) and isinstance(b, Opaque) and False):
                if isinstance(a, str) and isinstance(b, str):
                    return a + b
                return Tmpl([a, b])
            if isinstance(a, list) and isinstance(b, list):
                return a + b
            if isinstance(a, tuple) and isinstance(b, tuple):
                return a + b
        # set algebra (abstract sets are insertion-ordered lists when their elements are not hashable; dict views are lists)
        if opn in ("BitAnd", "BitOr", "Sub", "BitXor") and isinstance(a, (set, frozenset, list)) and isinstance(b, (set, frozenset, list)) \
                and (isinstance(a, (set, frozenset)) or isinstance(b, (set, frozenset)) or text.count(".keys()") or "{" in text):
            la, lb = list(a), list(b)
            inb = lambda x: any(self._eq(x, y) for y in lb)
            ina = lambda x: any(self._eq(x, y) for y in la)
            if opn == "BitAnd":
                res = [x for x in la if inb(x)]
            elif opn == "Sub":
                res = [x for x in la if not inb(x)]
            elif opn == "BitOr":
                res = la + [y for y in lb if not ina(y)]
            else:
                res = [x for x in la if not inb(x)] + [y for y in lb if not ina(y)]
            try:
                return set(res)
            except TypeError:
                return res
        if opn == "Mult" and isinstance(a, str) and isinstance(b, int):
            return a * b
        if opn == "Mult" and isinstance(a, str) and isinstance(b, (Opaque, Sym)):
            return Opaque(f"{a!r}*{to_text(b)}")
        if isinstance(a, (int, float)) and isinstance(b, (int, float)) and not (isinstance(a, bool) and isinstance(b, bool) and opn in ("BitAnd", "BitOr", "BitXor")):
            # (bool is an int in arithmetic: 1 + (not signed); and / or / xor of two bools stay bools and are handled as flags elsewhere)
            import operator as o

            f = {"Add": o.add, "Sub": o.sub, "Mult": o.mul, "Div": o.truediv, "FloorDiv": o.floordiv, "Mod": o.mod,
                 "BitAnd": o.and_, "BitOr": o.or_, "BitXor": o.xor, "LShift": o.lshift, "RShift": o.rshift, "Pow": o.pow}.get(opn)
            if f:
                try:
                    return f(a, b)
                except ZeroDivisionError:
                    raise Raised("ZeroDivisionError")
        if isinstance(a, (Sym, Opaque)) or isinstance(b, (Sym, Opaque)):
            self.events.append(("arith", opn, a, b))
            return Opaque(f"({to_text(a)} {opn} {to_text(b)})")
        raise Unsupported(f"binary {opn} on {a!r}, {b!r} in {text}")

    def e_Attribute(self, e, env, cls):
        obj = self.expr(e.value, env, cls)
        return self.getattr(obj, e.attr, U(e))

    def getattr(self, obj, attr, text=""):
        if isinstance(obj, AObj):
            getter = self._property(obj.cls, attr, "getter")
            if getter and not obj.opaque:
                return self.call_function(getter, [], self_obj=obj)
            if attr in obj.fields:
                return obj.fields[attr]
            if obj.opaque:
                return OpaqueMethod(obj, attr)
            m = self.idx.resolve_method(obj.cls, attr)
            if m:
                return BoundMethod(obj, m)
            for c in self.idx.mro(obj.cls):
                ca = self.idx.classes[c].class_attrs
                if attr in ca:
                    return self.expr(ca[attr], {}, c)
            raise Raised("AttributeError", f"{obj.cls}.{attr}")
        if isinstance(obj, ClassRef):
            if obj.name in self.idx.classes:
                ci = self.idx.classes[obj.name]
                if self.idx.is_enum(obj.name):
                    ext = self.idx.external_bases(obj.name)
                    tbl = self.idx.enum_table(obj.name)
                    if attr in tbl:
                        if ext & {"Flag", "IntFlag"}:
                            return FlagV(obj.name, frozenset([attr]))
                        return EnumV(obj.name, attr, tbl[attr])
                    if attr in ci.class_attrs and ext & {"Flag", "IntFlag"}:
                        return FlagV(obj.name, frozenset([attr]))
                m = self.idx.resolve_method(obj.name, attr)
                if m:
                    return BoundMethod(None, m)
                for c in self.idx.mro(obj.name):
                    ca = self.idx.classes[c].class_attrs
                    if attr in ca:
                        return self.expr(ca[attr], {}, c)
            raise Unsupported(f"class attribute {obj.name}.{attr}")
        if isinstance(obj, EnumV):
            if attr == "value":
                return obj.value
            if attr == "name":
                return obj.member
            # a method the enum class defines itself (e.g. AssignmentType.is_shift()): bound to the member
            if obj.cls in self.idx.classes:
                m = self.idx.resolve_method(obj.cls, attr)
                if m is not None:
                    return BoundMethod(obj, m)
            if isinstance(obj.value, str):
                return StrMethod(obj.value, attr)
        if isinstance(obj, Tok) and attr in ("type", "value"):
            return getattr(obj, attr)
        if isinstance(obj, str):
            if not hasattr(str, attr):
                raise Raised("AttributeError", f"str.{attr}")
            return StrMethod(obj, attr)
        if isinstance(obj, Tmpl):
            return StrMethod(obj, attr)
        if isinstance(obj, (list, dict, tuple, set)):
            if not hasattr(type(obj), attr):
                raise Raised("AttributeError", f"{type(obj).__name__}.{attr}")
            return ContainerMethod(obj, attr)
        if obj is None or isinstance(obj, (bool, int, float)):
            raise Raised("AttributeError", f"{type(obj).__name__}.{attr}")
        if isinstance(obj, Opaque):
            return Opaque(f"{obj.text}.{attr}")
        if isinstance(obj, Sym):
            return Opaque(f"{obj.name}.{attr}")
        if isinstance(obj, Raised):
            return Opaque(f"exc.{attr}")
        if isinstance(obj, ReModule):
            return Builtin(f"re.{attr}", _re_call(attr))
        if isinstance(obj, _re.Match):
            return Builtin(f"match.{attr}", lambda i, a, k, t, _o=obj, _n=attr: _wrap_py(getattr(_o, _n)(*a)))
        if isinstance(obj, _re.Pattern):
            if attr in ("pattern", "flags"):
                return getattr(obj, attr)

            def pat_call(i, a, k, t, _o=obj, _n=attr):
                if _n in ("search", "match", "fullmatch", "findall", "sub", "split") and all(isinstance(x, (str, int)) for x in a):
                    return _wrap_py(getattr(_o, _n)(*a, **k))
                if _n in ("search", "match", "fullmatch"):
                    i.events.append(("re", _n, [_o.pattern] + list(a)))
                    return Opaque(f"re.{_n}({_o.pattern!r}, {', '.join(to_text(x) for x in a)})") if i.chooser.choose(t) else None
                raise Unsupported(f"pattern.{_n} on abstract arguments")
            return Builtin(f"pattern.{attr}", pat_call)
        raise Unsupported(f"attribute {attr} of {obj!r} in {text}")

    def e_Subscript(self, e, env, cls):
        obj = self.expr(e.value, env, cls)
        if isinstance(e.slice, ast.Slice):
            lo = self.expr(e.slice.lower, env, cls) if e.slice.lower else None
            hi = self.expr(e.slice.upper, env, cls) if e.slice.upper else None
            if isinstance(obj, (list, tuple, str)) and all(isinstance(x, (int, type(None))) for x in (lo, hi)):
                return obj[lo:hi]
            return Opaque(f"{to_text(obj)}[{lo}:{hi}]")
        k = self.expr(e.slice, env, cls)
        if isinstance(obj, (list, tuple, str)):
            if isinstance(k, int):
                try:
                    return obj[k]
                except IndexError:
                    raise Raised("IndexError")
            raise Unsupported(f"index {k!r}")
        if isinstance(obj, dict):
            kk = k.value if isinstance(k, EnumV) and isinstance(k.value, str) and k not in obj else k
            if kk in obj:
                return obj[kk]
            raise Raised("KeyError", str(k))
        if isinstance(obj, (Opaque, Tmpl, Sym)):
            return Opaque(f"{to_text(obj)}[{to_text(k)}]")
        if isinstance(obj, _re.Match):
            return obj[k]
        raise Unsupported(f"subscript on {obj!r}")

    def e_ListComp(self, e, env, cls):
        return self._comp(e, env, cls)

    def e_GeneratorExp(self, e, env, cls):
        return self._comp(e, env, cls)

    def e_SetComp(self, e, env, cls):
        r = self._comp(e, env, cls)
        if isinstance(r, list):
            out = []
            for x in r:
                if not any(self._eq(x, y) for y in out):
                    out.append(x)
            return out
        return r

    def _comp(self, e, env, cls):
        out = []

        def rec(i, env2):
            if i == len(e.generators):
                out.append(self.expr(e.elt, env2, cls))
                return
            g = e.generators[i]
            it = self.expr(g.iter, env2, cls)
            if isinstance(it, dict):
                it = list(it.keys())
            if isinstance(it, (Opaque, Sym, Tmpl)):
                raise _OpaqueIter(it)
            for x in list(it):
                env3 = dict(env2)
                self.assign(g.target, x, env3, cls)
                if all(self.truth(self.expr(c, env3, cls), U(c)) for c in g.ifs):
                    rec(i + 1, env3)

        try:
            rec(0, env)
        except _OpaqueIter as oi:
            return Opaque(f"[{U(e.elt)} for {to_text(oi.it)}]")
        return out

    def e_Lambda(self, e, env, cls):
        fn = ast.FunctionDef(name="<lambda>", args=e.args, body=[ast.Return(value=e.body)], decorator_list=[], lineno=e.lineno)
        return Closure(fn, env)

    def e_Starred(self, e, env, cls):
        raise Unsupported("starred expression")

    def e_Call(self, e, env, cls):
        # super().__init__ / K.__init__(self, ...)
        f = e.func
        args = []
        for a in e.args:
            if isinstance(a, ast.Starred):
                v = self.expr(a.value, env, cls)
                if not isinstance(v, (list, tuple)):
                    raise Unsupported("star-args of non-list")
                args.extend(v)
            else:
                args.append(self.expr(a, env, cls))
        kwargs = {}
        for k in e.keywords:
            if k.arg is None:
                v = self.expr(k.value, env, cls)
                if not isinstance(v, dict):
                    raise Unsupported("**kwargs of non-dict")
                kwargs.update(v)
            else:
                kwargs[k.arg] = self.expr(k.value, env, cls)
        if isinstance(f, ast.Attribute) and isinstance(f.value, ast.Call) and isinstance(f.value.func, ast.Name) and f.value.func.id == "super":
            selfobj = env.get("self")
            mro = self.idx.mro(cls)
            for c in mro[1:]:
                if f.attr in self.idx.classes[c].methods:
                    return self.call_function(self.idx.funcs[f"{c}.{f.attr}"], args, kwargs, self_obj=selfobj)
            return None  # external base (lark.Transformer.__init__ ...)
        callee = self.expr(f, env, cls)
        return self.apply(callee, args, kwargs, U(e))

    def apply(self, callee, args, kwargs, text):
        if self.call_hook is not None:
            r = self.call_hook(self, callee, args, kwargs, text)
            if r is not NotImplemented:
                return r
        if isinstance(callee, BoundMethod):
            if callee.obj is None:
                # K.method(self, ...) explicit base call or staticmethod
                is_static = any(isinstance(d, ast.Name) and d.id == "staticmethod" for d in callee.finfo.node.decorator_list)
                if is_static:
                    return self.call_function(callee.finfo, args, kwargs)
                return self.call_function(callee.finfo, args[1:], kwargs, self_obj=args[0])
            return self.call_function(callee.finfo, args, kwargs, self_obj=callee.obj)
        if isinstance(callee, ClassRef):
            if callee.name in self.idx.classes:
                return self.construct(callee.name, args, kwargs)
            if callee.name == "Token":
                if isinstance(args[0], str) and isinstance(args[1], str):
                    return Tok(str(args[0]), str(args[1]))
                return AObj("Token", {"type": args[0], "value": args[1]}, label=f"Token({to_text(args[0])},{to_text(args[1])})")
            raise Unsupported(f"construct {callee.name}")
        if isinstance(callee, Closure):
            fi = _FI(None, callee.node, None)
            saved_env = callee.env
            # closures see their defining env
            node = callee.node
            env2 = dict(saved_env)
            params = [a.arg for a in node.args.args]
            for p, v in zip(params, args):
                env2[p] = v
            try:
                self.block(node.body, env2, self.cur_cls)
            except _Return as r:
                return r.v
            return None
        if hasattr(callee, "qual") and hasattr(callee, "node"):
            return self.call_function(callee, args, kwargs)
        if isinstance(callee, (StrMethod, ContainerMethod, Builtin)):
            return callee.call(self, args, kwargs, text)
        if isinstance(callee, Opaque):
            self.events.append(("call", callee.text, args, kwargs))
            return Opaque(f"{callee.text}({', '.join(to_text(a) for a in args)})")
        raise Unsupported(f"call of {callee!r} in {text}")


import re as _re


class ReModule:
    """The stdlib `re` module applied to concrete strings of a finite table (no repo code involved)."""


def _wrap_py(v):
    if isinstance(v, tuple):
        return tuple(v)
    return v


def _re_call(name):
    def f(i, a, k, t):
        if name in ("ASCII", "IGNORECASE"):
            raise Unsupported("re flag as call")
        if name == "compile" and a and isinstance(a[0], str) and all(isinstance(x, (str, int)) for x in a):
            return _re.compile(*a, **k)
        if all(isinstance(x, (str, int)) for x in a) and name in ("search", "match", "findall", "sub", "fullmatch"):
            return _wrap_py(getattr(_re, name)(*a, **k))
        if name in ("search", "match", "fullmatch"):
            i.events.append(("re", name, a))
            if i.chooser.choose(t):
                return Opaque(f"re.{name}({', '.join(to_text(x) for x in a)})")
            return None
        if name == "findall":
            return Opaque(f"re.findall({', '.join(to_text(x) for x in a)})")
        raise Unsupported(f"re.{name} on abstract arguments")

    return f


class _OpaqueIter(Exception):
    def __init__(self, it):
        self.it = it


class _FI:
    def __init__(self, cls, node, ci):
        self.cls, self.node, self.qual, self.name = cls, node, f"{cls}.{node.name}", node.name
        self.path = ci.path if ci else None
        self.module = ci.module if ci else None


class StrMethod:
    def __init__(self, s, name):
        self.s, self.name = s, name

    def call(self, interp, args, kwargs, text):
        s = self.s
        if isinstance(s, str) and all(isinstance(a, (str, int)) or a is None for a in args):
            if self.name in ("startswith", "endswith") and args and isinstance(args[0], tuple):
                return getattr(s, self.name)(*args)
            if self.name in ("lower", "upper", "strip", "replace", "startswith", "endswith", "split", "format", "isdigit", "isalpha", "isalnum", "isupper", "islower", "isspace", "title", "capitalize", "zfill", "rsplit", "partition", "rpartition", "removeprefix", "removesuffix", "lstrip", "rstrip", "count", "find", "rfind", "index", "splitlines", "expandtabs", "casefold", "swapcase", "ljust", "rjust", "center", "isidentifier", "isnumeric", "isdecimal", "istitle", "isascii", "isprintable"):
                return getattr(s, self.name)(*args)
        if self.name == "format" and isinstance(s, str):
            # "...{}...{0}...{name}".format(...) with abstract arguments: a template with holes
            import string as _string

            parts = []
            auto = 0
            for lit, field, spec, conv in _string.Formatter().parse(s):
                if lit:
                    parts.append(lit)
                if field is None:
                    continue
                if spec or conv:
                    raise Unsupported(f"str.format with format spec in {s!r}")
                if field == "":
                    val = args[auto]
                    auto += 1
                elif field.isdigit():
                    val = args[int(field)]
                elif field in kwargs:
                    val = kwargs[field]
                else:
                    raise Unsupported(f"str.format field {field!r} in {s!r}")
                parts.append(interp.strify(val))
            t = Tmpl(parts)
            return "".join(t.parts) if all(isinstance(p_, str) for p_ in t.parts) else t
        if self.name == "join" and isinstance(s, str):
            (seq,) = args
            if isinstance(seq, Opaque):
                return Opaque(f"{s!r}.join({seq.text})")
            parts = []
            for i, x in enumerate(seq):
                if i:
                    parts.append(s)
                parts.append(interp.strify(x))
            t = Tmpl(parts)
            return "".join(t.parts) if all(isinstance(p, str) for p in t.parts) else t
        if self.name in ("lower", "upper", "strip", "replace"):
            return Opaque(f"{to_text(s)}.{self.name}({', '.join(repr(a) for a in args)})")
        if self.name in ("startswith", "endswith"):
            return interp.chooser.choose(text)
        raise Unsupported(f"str method {self.name} on {s!r}")


class ContainerMethod:
    def __init__(self, c, name):
        self.c, self.name = c, name

    def call(self, interp, args, kwargs, text):
        c = self.c
        interp.events.append(("container", self.name, c, args))
        if isinstance(c, set) and self.name in ("add", "discard", "remove", "clear", "pop", "update"):
            try:
                return getattr(c, self.name)(*args)
            except KeyError:
                raise Raised("KeyError")
        if self.name in ("add", "discard") and isinstance(c, list):
            if self.name == "add" and not any(x is args[0] for x in c):
                c.append(args[0])
            if self.name == "discard":
                c[:] = [x for x in c if x is not args[0]]
            return None
        if self.name in ("append", "extend", "insert", "remove", "pop", "clear", "update", "get", "keys", "values", "items", "index", "copy", "setdefault"):
            try:
                r = getattr(c, self.name)(*args)
            except (ValueError, KeyError, IndexError) as ex:
                raise Raised(type(ex).__name__)
            if self.name in ("keys", "values", "items"):
                return list(r)
            return r
        raise Unsupported(f"container method {self.name}")


class Builtin:
    def __init__(self, name, fn):
        self.name, self.fn = name, fn

    def call(self, interp, args, kwargs, text):
        return self.fn(interp, args, kwargs, text)


def _b_len(i, a, k, t):
    if isinstance(a[0], (list, tuple, str, dict, set)):
        return len(a[0])
    return Opaque(f"len({to_text(a[0])})")


def _b_isinstance(i, a, k, t):
    obj, kl = a
    kls = kl if isinstance(kl, (tuple, list)) else (kl,)
    names = []
    for x in kls:
        if isinstance(x, ClassRef):
            names.append(x.name)
        elif isinstance(x, Builtin):
            names.append(x.name)
        else:
            raise Unsupported(f"isinstance class {x!r}")
    if i.isinstance_hook is not None:
        r = i.isinstance_hook(obj, names)
        if r is not None:
            return r
    if isinstance(obj, AObj):
        if obj.cls in i.idx.classes:
            mro = i.idx.mro(obj.cls)
            if any(n in mro for n in names):
                return True
            if obj.opaque and i.may_subclass and any(n in i.idx.classes and obj.cls in i.idx.mro(n) for n in names):
                return i.chooser.choose(t)
            return False
        return obj.cls in names
    if isinstance(obj, Opaque):
        if obj.cls is not None and obj.cls in i.idx.classes:
            mro = i.idx.mro(obj.cls)
            return any(n in mro for n in names)
        return i.chooser.choose(t)
    if isinstance(obj, (str, Tmpl)):
        return "str" in names
    if isinstance(obj, bool):
        return "bool" in names or "int" in names
    if isinstance(obj, int):
        return "int" in names
    if isinstance(obj, list):
        return "list" in names
    if isinstance(obj, tuple):
        return "tuple" in names
    if isinstance(obj, dict):
        return "dict" in names
    if obj is None:
        return False
    if isinstance(obj, EnumV):
        return obj.cls in names or ("str" in names and isinstance(obj.value, str))
    if isinstance(obj, Sym):
        return i.chooser.choose(t)
    raise Unsupported(f"isinstance on {obj!r}")


def _b_hasattr(i, a, k, t):
    obj, name = a
    if isinstance(obj, AObj) and not obj.opaque:
        if name in obj.fields:
            return True
        if obj.cls in i.idx.classes:
            if i.idx.resolve_method(obj.cls, name):
                return True
            return any(name in i.idx.classes[c].class_attrs for c in i.idx.mro(obj.cls))
        return False
    if isinstance(obj, Tok) and name in ("type", "value"):
        return True
    if isinstance(obj, (str, int, list, tuple, dict)) or obj is None:
        return hasattr(obj, name)
    if isinstance(obj, AObj):
        if name in obj.fields:
            return True
        if name == "__iter__":
            return False
    return i.chooser.choose(t)


def _b_str(i, a, k, t):
    return i.strify(a[0]) if a else ""


def _b_int(i, a, k, t):
    if isinstance(a[0], (int, str)) and all(isinstance(x, int) for x in a[1:]):
        try:
            return int(*a)
        except ValueError:
            raise Raised("ValueError")
    return Opaque(f"int({', '.join(to_text(x) for x in a)})")


def _b_minmax(name):
    def f(i, a, k, t):
        vals = a[0] if len(a) == 1 else a
        if all(isinstance(x, (int, float)) for x in vals):
            return (min if name == "min" else max)(vals)
        vals = list(vals)
        best = vals[0]
        for x in vals[1:]:
            if name == "max":
                if i.compare(x, ast.Gt(), best, f"{to_text(x)} > {to_text(best)}"):
                    best = x
            else:
                if i.compare(x, ast.Lt(), best, f"{to_text(x)} < {to_text(best)}"):
                    best = x
        return best

    return f


def _b_deepcopy(i, a, k, t):
    memo = {}

    def cp(v):
        if isinstance(v, AObj):
            if id(v) in memo:
                return memo[id(v)]
            # a class that defines its own __deepcopy__ / __copy__ decides what a copy is (it may hand back the object itself)
            hook = None
            try:
                hook = i.idx.resolve_method(v.cls, "__deepcopy__" if t.startswith("deepcopy") or "deepcopy" in t else "__copy__") or i.idx.resolve_method(v.cls, "__deepcopy__")
            except Exception:
                hook = None
            if hook is not None and not v.opaque:
                res = i.call_function(hook, [{}] if len(hook.node.args.args) > 1 else [], self_obj=v)
                memo[id(v)] = res
                return res
            n = AObj(v.cls, {}, label=f"copy({v.label})" if v.label else None, origin=f"copy-of-{v.origin}", opaque=v.opaque)
            memo[id(v)] = n
            n.fields = {kk: cp(vv) for kk, vv in v.fields.items()}
            return n
        if isinstance(v, list):
            return [cp(x) for x in v]
        if isinstance(v, dict):
            return {kk: cp(vv) for kk, vv in v.items()}
        if isinstance(v, tuple):
            return tuple(cp(x) for x in v)
        return v

    return cp(a[0])


def _b_range(i, a, k, t):
    if all(isinstance(x, int) for x in a):
        return range(*a)
    raise Unsupported("range of non-int")


def _b_any(i, a, k, t):
    if isinstance(a[0], Opaque):
        return i.chooser.choose(t)
    return any(i.truth(x, t) for x in a[0])


def _b_all(i, a, k, t):
    if isinstance(a[0], Opaque):
        return i.chooser.choose(t)
    return all(i.truth(x, t) for x in a[0])


def _b_list(i, a, k, t):
    if not a:
        return []
    if isinstance(a[0], Opaque):
        return Opaque(f"list({a[0].text})")
    return list(a[0])


def _b_dict(i, a, k, t):
    return dict(*a, **k)


def _b_enumerate(i, a, k, t):
    return list(enumerate(a[0]))


def _b_zip(i, a, k, t):
    return list(zip(*a))


def _b_sorted(i, a, k, t):
    if isinstance(a[0], Opaque):
        return Opaque(f"sorted({to_text(a[0])})")
    vals = list(a[0])
    rev = k.get("reverse", False) if k else False
    if k and "key" in k:
        try:
            keys = [i.apply(k["key"], [v], {}, t) for v in vals]
        except Unsupported:
            keys = None
        if keys is not None and isinstance(rev, bool) and (all(isinstance(x, (int, bool)) for x in keys) or all(isinstance(x, str) for x in keys)):
            order = sorted(range(len(vals)), key=lambda n: keys[n], reverse=rev)
            return [vals[n] for n in order]
        i.events.append(("sorted-with-key", vals))
        return vals
    if all(isinstance(x, (str, int)) for x in vals) and isinstance(rev, bool):
        return sorted(vals, reverse=rev)
    return vals


def _b_ceil(i, a, k, t):
    import math

    if isinstance(a[0], (int, float)):
        return math.ceil(a[0])
    return Opaque(f"ceil({to_text(a[0])})")


def _b_hex(i, a, k, t):
    return hex(a[0]) if isinstance(a[0], int) else Opaque(f"hex({to_text(a[0])})")


def _b_dir(i, a, k, t):
    obj = a[0]
    if isinstance(obj, AObj) and obj.cls in i.idx.classes:
        names = set(obj.fields)
        for c in i.idx.mro(obj.cls):
            names |= set(i.idx.classes[c].methods) | set(i.idx.classes[c].class_attrs)
        return sorted(names)
    if isinstance(obj, str):
        return dir(obj)
    if isinstance(obj, Opaque):
        if obj.cls is not None and obj.cls in i.idx.classes:
            names = set()
            for c in i.idx.mro(obj.cls):
                names |= set(i.idx.classes[c].methods) | set(i.idx.classes[c].class_attrs)
            return sorted(names)
        return Opaque(f"dir({obj.text})")  # membership tests on it fork
    raise Unsupported(f"dir({obj!r})")


def _b_set(i, a, k, t):
    try:
        return set(a[0]) if a else set()
    except TypeError:
        return list(dict.fromkeys(a[0]))


def _b_getattr(i, a, k, t):
    obj, name = a[0], a[1]
    if not isinstance(name, str):
        raise Unsupported("getattr with a non-literal name")
    try:
        return i.getattr(obj, name, t)
    except Raised:
        if len(a) > 2:
            return a[2]
        raise


BUILTINS = {
    "getattr": Builtin("getattr", _b_getattr),
    "len": Builtin("len", _b_len),
    "isinstance": Builtin("isinstance", _b_isinstance),
    "hasattr": Builtin("hasattr", _b_hasattr),
    "str": Builtin("str", _b_str),
    "int": Builtin("int", _b_int),
    "min": Builtin("min", _b_minmax("min")),
    "max": Builtin("max", _b_minmax("max")),
    "deepcopy": Builtin("deepcopy", _b_deepcopy),
    "copy": Builtin("copy", _b_deepcopy),
    "range": Builtin("range", _b_range),
    "any": Builtin("any", _b_any),
    "all": Builtin("all", _b_all),
    "list": Builtin("list", _b_list),
    "tuple": Builtin("tuple", lambda i, a, k, t: tuple(a[0]) if a else ()),
    "dict": Builtin("dict", _b_dict),
    "set": Builtin("set", _b_set),
    "enumerate": Builtin("enumerate", _b_enumerate),
    "zip": Builtin("zip", _b_zip),
    "sorted": Builtin("sorted", _b_sorted),
    "open": Builtin("open", lambda i, a, k, t: AObj("File", {}, label=t, opaque=True)),
    "reversed": Builtin("reversed", lambda i, a, k, t: list(reversed(a[0])) if isinstance(a[0], (list, tuple)) else Opaque(f"reversed({to_text(a[0])})")),
    "ceil": Builtin("ceil", _b_ceil),
    "hex": Builtin("hex", _b_hex),
    "abs": Builtin("abs", lambda i, a, k, t: abs(a[0]) if isinstance(a[0], (int, float)) and not isinstance(a[0], bool) else Opaque(f"abs({to_text(a[0])})")),
    "oct": Builtin("oct", lambda i, a, k, t: oct(a[0]) if isinstance(a[0], int) else Opaque(f"oct({to_text(a[0])})")),
    "bin": Builtin("bin", lambda i, a, k, t: bin(a[0]) if isinstance(a[0], int) else Opaque(f"bin({to_text(a[0])})")),
    "divmod": Builtin("divmod", lambda i, a, k, t: divmod(a[0], a[1]) if all(isinstance(x, int) for x in a[:2]) and a[1] != 0 else Opaque("divmod(...)")),
    "pow": Builtin("pow", lambda i, a, k, t: pow(*a) if all(isinstance(x, int) for x in a) and (len(a) < 2 or 0 <= a[1] < 4096) else Opaque("pow(...)")),
    "round": Builtin("round", lambda i, a, k, t: round(*a) if all(isinstance(x, (int, float)) for x in a) else Opaque("round(...)")),
    "sum": Builtin("sum", lambda i, a, k, t: sum(a[0]) if isinstance(a[0], (list, tuple)) and all(isinstance(x, (int, float)) for x in a[0]) else Opaque("sum(...)")),
    "repr": Builtin("repr", lambda i, a, k, t: repr(a[0]) if isinstance(a[0], (int, str, float, bool)) or a[0] is None else Opaque(f"repr({to_text(a[0])})")),
    "chr": Builtin("chr", lambda i, a, k, t: chr(a[0]) if isinstance(a[0], int) else Opaque("chr(...)")),
    "ord": Builtin("ord", lambda i, a, k, t: ord(a[0]) if isinstance(a[0], str) and len(a[0]) == 1 else Opaque("ord(...)")),
    "dir": Builtin("dir", _b_dir),
    "bool": Builtin("bool", lambda i, a, k, t: i.truth(a[0], t) if a else False),
    "True": True,
    "False": False,
    "None": None,
    "ValueError": ClassRef("ValueError"),
    "NotImplementedError": ClassRef("NotImplementedError"),
    "Exception": ClassRef("Exception"),
    "print": Builtin("print", lambda i, a, k, t: None),
    "log": Builtin("log", lambda i, a, k, t: None),
}
