"""E-ST: attribute read/write/mutation summaries per (class, attribute) over the resolved call graph."""
from __future__ import annotations

import ast
from dataclasses import dataclass

from .pyindex import MUTATORS, FuncInfo, Index
from .symex import U


@dataclass
class Effect:
    cls: str
    attr: str
    kind: str  # read | rebind | mutate
    node: ast.AST
    fn: FuncInfo
    how: str = ""


def local_bindings(fi: FuncInfo) -> dict[str, list[ast.expr]]:
    out: dict[str, list[ast.expr]] = {}
    for n in ast.walk(fi.node):
        if isinstance(n, ast.Assign):
            for t in n.targets:
                if isinstance(t, ast.Name):
                    out.setdefault(t.id, []).append(n.value)
        elif isinstance(n, ast.AnnAssign) and isinstance(n.target, ast.Name) and n.value is not None:
            out.setdefault(n.target.id, []).append(n.value)
        elif isinstance(n, (ast.For, ast.comprehension)) and isinstance(n.target, ast.Name) and isinstance(n.iter, (ast.Tuple, ast.List)):
            # for d in (self.a, self.b): d.clear()  -- the loop variable aliases each listed element in turn
            for el in n.iter.elts:
                out.setdefault(n.target.id, []).append(el)
    return out


def receiver_classes(idx: Index, fi: FuncInfo, e: ast.AST, binds=None, depth=0) -> set[str]:
    if binds is None:
        binds = local_bindings(fi)
    if isinstance(e, ast.Name):
        if e.id == "self" and fi.cls:
            return {fi.cls}
        if depth < 3 and e.id in binds:
            res = set()
            for v in binds[e.id]:
                res |= receiver_classes(idx, fi, v, binds, depth + 1)
            return res
        # annotated parameters
        for a in fi.node.args.args:
            if a.arg == e.id and a.annotation is not None:
                return {n.id for n in ast.walk(a.annotation) if isinstance(n, ast.Name) and n.id in idx.classes}
        return set()
    if isinstance(e, ast.Attribute):
        base = receiver_classes(idx, fi, e.value, binds, depth)
        res = set()
        for b in base:
            res |= idx.attr_class(b, e.attr)
        return res
    if isinstance(e, ast.Call) and isinstance(e.func, ast.Name) and e.func.id in idx.classes:
        return {e.func.id}
    return set()


def effects_of(idx: Index, fi: FuncInfo) -> list[Effect]:
    out = []
    binds = local_bindings(fi)

    def owners(recv):
        return receiver_classes(idx, fi, recv, binds)

    for n in ast.walk(fi.node):
        if isinstance(n, ast.Attribute):
            for c in owners(n.value):
                if isinstance(n.ctx, ast.Store):
                    out.append(Effect(c, n.attr, "rebind", n, fi))
                elif isinstance(n.ctx, ast.Load):
                    out.append(Effect(c, n.attr, "read", n, fi))
        if isinstance(n, ast.AugAssign) and isinstance(n.target, ast.Attribute):
            for c in owners(n.target.value):
                out.append(Effect(c, n.target.attr, "mutate", n, fi, "augmented assignment"))
        if isinstance(n, ast.Call) and isinstance(n.func, ast.Attribute) and n.func.attr in MUTATORS and isinstance(n.func.value, ast.Attribute):
            tgt = n.func.value
            for c in owners(tgt.value):
                # only a mutation if the attribute is not itself an in-repo object with such a method
                if not any(idx.resolve_method(k, n.func.attr) for k in idx.attr_class(c, tgt.attr)):
                    out.append(Effect(c, tgt.attr, "mutate", n, fi, f".{n.func.attr}()"))
        if isinstance(n, (ast.Assign, ast.AugAssign, ast.Delete)):
            tgts = n.targets if isinstance(n, (ast.Assign, ast.Delete)) else [n.target]
            for t in tgts:
                if isinstance(t, ast.Subscript) and isinstance(t.value, ast.Attribute):
                    for c in owners(t.value.value):
                        out.append(Effect(c, t.value.attr, "mutate", n, fi, "item store"))
        # local alias of a container attribute that is then mutated:  d = self.x ; d[k] = v / d.append(..)
    for name, vals in binds.items():
        for v in vals:
            if isinstance(v, ast.Attribute):
                cs = owners(v.value)
                if not cs:
                    continue
                for n in ast.walk(fi.node):
                    hit = None
                    if isinstance(n, ast.Call) and isinstance(n.func, ast.Attribute) and n.func.attr in MUTATORS and isinstance(n.func.value, ast.Name) and n.func.value.id == name:
                        hit = f".{n.func.attr}() via alias {name}"
                    if isinstance(n, (ast.Assign, ast.AugAssign)):
                        for t in (n.targets if isinstance(n, ast.Assign) else [n.target]):
                            if isinstance(t, ast.Subscript) and isinstance(t.value, ast.Name) and t.value.id == name:
                                hit = f"{name}[...] store via alias"
                    if hit:
                        for c in cs:
                            if not any(idx.resolve_method(k, "x") for k in ()):
                                out.append(Effect(c, v.attr, "mutate", n, fi, hit))
    return out


def summarise(idx: Index, funcs) -> dict[tuple[str, str], dict[str, list[Effect]]]:
    table: dict[tuple[str, str], dict[str, list[Effect]]] = {}
    for fi in funcs:
        for e in effects_of(idx, fi):
            table.setdefault((e.cls, e.attr), {}).setdefault(e.kind, []).append(e)
    return table
