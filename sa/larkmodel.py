"""E-GR: model of Resources/Hexagon/grammar.lark (DESIGN.md A.4).

The grammar *file* is loaded with lark.Lark(text, start="fbody", parser="earley") - this runs Lark's grammar loader on
a data file, not any repository code - and read through `.rules` / `.terminals`.  The model reproduces Lark's documented
tree shaping: anonymous tokens are filtered out (unless `!rule`), `_rules` are spliced into their parent, `?rule` with
exactly one kept child is replaced by that child (unless the alternative has an `-> alias`: ParseTreeBuilder applies ExpandSingleChild only when `not rule.alias`), `[x]` leaves a None placeholder, `-> alias` renames the callback.
"""
from __future__ import annotations

from dataclasses import dataclass, field
from pathlib import Path

from .report import AnalysisError


@dataclass
class Child:
    kind: str  # term | rule | none | splice
    name: str


@dataclass
class Alt:
    origin: str
    order: int
    symbols: list  # [(name, is_term, filter_out)]
    alias: str | None
    expand1: bool
    keep_all: bool
    empty_indices: tuple
    children: list = field(default_factory=list)  # kept children (Child)

    @property
    def callback(self) -> str:
        return self.alias or self.origin

    def skeleton(self) -> str:
        """terminal skeleton, e.g. 'IF LPAR . RPAR . ELSE .' (nonterminals as '.')"""
        return " ".join(n if t else "." for n, t, _ in self.symbols)

    def text(self) -> str:
        return f"{self.origin}#{self.order}: " + " ".join(n for n, _, _ in self.symbols)


class GrammarModel:
    def __init__(self, repo: Path, text: str | None = None):
        import lark

        self.path = Path(repo) / "Resources" / "Hexagon" / "grammar.lark"
        if text is None:
            if not self.path.is_file():
                raise AnalysisError(f"anchor missing: {self.path}")
            text = self.path.read_text()
        self.text = text
        try:
            L = lark.Lark(text, start="fbody", parser="earley")
        except Exception as e:
            raise AnalysisError(f"grammar does not load: {type(e).__name__}: {e}")
        self.rules: dict[str, list[Alt]] = {}
        for r in L.rules:
            syms = [(s.name, s.is_term, bool(getattr(s, "filter_out", False))) for s in r.expansion]
            a = Alt(r.origin.name, r.order, syms, r.alias, bool(r.options.expand1) and not r.alias, bool(r.options.keep_all_tokens),
                    tuple(r.options.empty_indices or ()))
            self.rules.setdefault(a.origin, []).append(a)
        for alts in self.rules.values():
            alts.sort(key=lambda a: a.order)
        self.terminals = {}
        for t in L.terminals:
            kind = "str" if type(t.pattern).__name__ == "PatternStr" else "re"
            self.terminals[t.name] = {"kind": kind, "value": t.pattern.value, "flags": sorted(t.pattern.flags), "priority": t.priority}
        self.ignore = list(getattr(L, "ignore_tokens", []) or [])
        for alts in self.rules.values():
            for a in alts:
                a.children = self._children(a)
        self._counts = self._splice_counts()
        self.lines = text.splitlines()

    # ------------------------------------------------------------------ shaping
    def _children(self, a: Alt) -> list[Child]:
        n = len(a.symbols)
        if a.empty_indices:
            if list(a.empty_indices).count(False) != n:
                raise AnalysisError(f"unexpected empty_indices for {a.text()}")
            s = "".join(str(int(b)) for b in a.empty_indices)
            nones = [len(ones) for ones in s.split("0")]
        else:
            nones = [0] * (n + 1)
        out = []
        pending = 0
        for i, (name, is_term, filt) in enumerate(a.symbols):
            pending += nones[i]
            if a.keep_all or not (is_term and filt):
                out.extend(Child("none", "None") for _ in range(pending))
                pending = 0
                if not is_term and name.startswith("_"):
                    out.append(Child("splice", name))
                else:
                    out.append(Child("term" if is_term else "rule", name))
        pending += nones[n]
        out.extend(Child("none", "None") for _ in range(pending))
        return out

    def _splice_counts(self) -> dict[str, set]:
        """possible numbers of children a spliced `_rule` contributes ('many' when unbounded)."""
        counts = {r: set() for r in self.rules if r.startswith("_")}
        changed = True
        it = 0
        while changed and it < 50:
            changed = False
            it += 1
            for r in counts:
                for a in self.rules[r]:
                    opts = {0}
                    for c in a.children:
                        if c.kind == "splice":
                            sub = counts.get(c.name, set()) or set()
                            if not sub:
                                opts = set()
                                break
                            opts = {self._add(x, y) for x in opts for y in sub}
                        else:
                            opts = {self._add(x, 1) for x in opts}
                    new = counts[r] | opts
                    if new != counts[r]:
                        counts[r] = new
                        changed = True
        return counts

    @staticmethod
    def _add(x, y):
        if x == "many" or y == "many":
            return "many"
        return "many" if x + y > 6 else x + y

    def child_count(self, a: Alt) -> set:
        opts = {0}
        for c in a.children:
            if c.kind == "splice":
                opts = {self._add(x, y) for x in opts for y in self._counts.get(c.name, {"many"})}
            else:
                opts = {self._add(x, 1) for x in opts}
        return opts

    def shape(self, a: Alt, callbacks: set[str]):
        """('inline', child) | ('call', name) | ('tree', name) | ('splice',)"""
        if a.origin.startswith("_"):
            return ("splice",)
        if a.expand1 and self.child_count(a) == {1}:
            return ("inline", a.children[0])
        if a.expand1 and 1 in self.child_count(a):
            return ("inline-or-" + ("call" if a.callback in callbacks else "tree"), a.callback)
        if a.callback in callbacks:
            return ("call", a.callback)
        return ("tree", a.callback)

    # ------------------------------------------------------------------ queries
    def literal(self, term: str):
        t = self.terminals.get(term)
        if t and t["kind"] == "str":
            return t["value"]
        if t and t["kind"] == "re":
            # a keyword spelled as a whole word: word(?!\w) or word\b matches exactly the strings `word` (followed by a non-word
            # character), so its literal is `word`
            import re as _re

            m = _re.fullmatch(r"([A-Za-z_]\w*)(\(\?!\\w\)|\(\?!\[A-Za-z0-9_\]\)|\\b)", t["value"])
            if m:
                return m.group(1)
            # an operator spelled with zero-width context, e.g. (?<!\+)\+(?!\+): the consumed text is the literal between the assertions
            try:
                import re._parser as sp

                items = list(sp.parse(t["value"]))
            except Exception:
                return None
            def zero_width(it):
                op, av = it
                if op in (sp.ASSERT, sp.ASSERT_NOT, sp.AT):
                    return True
                if op is sp.SUBPATTERN:
                    return all(zero_width(x) for x in av[3])
                if op is sp.BRANCH:
                    return all(all(zero_width(x) for x in br) for br in av[1])
                return False
            while items and zero_width(items[0]):
                items.pop(0)
            while items and zero_width(items[-1]):
                items.pop()
            if items and all(op is sp.LITERAL for op, _ in items):
                return "".join(chr(v) for _, v in items)
        return None

    def reachable(self, start="fbody") -> set[str]:
        seen, work = set(), [start]
        while work:
            r = work.pop()
            if r in seen or r not in self.rules:
                continue
            seen.add(r)
            for a in self.rules[r]:
                for n, is_term, _ in a.symbols:
                    if not is_term:
                        work.append(n)
        return seen

    def line_of(self, rule: str) -> int:
        for i, l in enumerate(self.lines, 1):
            s = l.lstrip("?!")
            if s.startswith(rule + ":") or s.startswith(rule + ".") and ":" in s:
                return i
        return 0

    def where(self, rule: str) -> str:
        return f"Resources/Hexagon/grammar.lark:{self.line_of(rule)}"

    def expand_splices(self, children, limit=8):
        """Enumerate concrete child lists with `_rule` splices expanded (bounded)."""
        results = [[]]
        for c in children:
            if c.kind != "splice":
                results = [r + [c] for r in results]
                continue
            subs = self._splice_expansions(c.name, 0)
            results = [r + s for r in results for s in subs][:64]
        return results

    def _splice_expansions(self, rule, depth):
        out = []
        for a in self.rules.get(rule, []):
            if depth > 1 and any(c.kind == "splice" for c in a.children):
                continue
            cur = [[]]
            for c in a.children:
                if c.kind == "splice":
                    subs = self._splice_expansions(c.name, depth + 1)
                    cur = [x + s for x in cur for s in subs][:32]
                else:
                    cur = [x + [c] for x in cur]
            out.extend(cur)
        return out[:32]


def get_grammar(env) -> GrammarModel:
    return env.get("grammar", lambda: GrammarModel(env.repo))


def transformer_callbacks(idx, cls="RZILTransformer") -> set[str]:
    out = set()
    for c in idx.mro(cls):
        out |= {m for m in idx.classes[c].methods if not m.startswith("__")}
    return out
