#!/bin/sh
# runs every confirmed seed against the check of its own property (and optionally all); prints one line per seed
cd /verif
PAT="${1:-*}"
for d in seeded/$PAT/; do
  case "$d" in seeded/obsolete/*) continue;; esac
  s=$(basename $d); prop=${s%%-*}
  if ! git -C /repo apply --check "/verif/$d/patch.diff" 2>/dev/null; then echo "$s: PATCH DOES NOT APPLY to current /repo"; continue; fi
  git -C /repo apply "/verif/$d/patch.diff"
  out=$(./check $prop --no-evidence 2>&1)
  rc=$?
  rules=$(echo "$out" | grep -A1 "^VIOLATION" | grep -o " R[0-9][0-9]\.[0-9]*" | sort -u | tr '\n' ' ')
  git -C /repo checkout -- .
  echo "$s: rc=$rc rules=$rules"
done
