#!/bin/sh
# [ROUND=3] tools/confirm_seed2.sh <ID>   -- round 2 (default) or later: confirms /tmp/seed/out2_<ID>/<i> in a scratch worktree at /repo's HEAD
# (/tmp/seed/wtx, created on demand) and copies confirmed seeds to /verif/seeded/<ID>-r2-<i>/.
# A patch made against an older commit is tried with --3way; the stored patch.diff is always relative to HEAD.
ID="$1"; R="${ROUND:-2}"; WT=/tmp/seed/wtx_$ID; OUT=/tmp/seed/out${R}_$ID
[ -d "$WT" ] || git -C /repo worktree add -q --detach "$WT" HEAD
cd "$WT" || exit 1
git checkout -q --detach "$(git -C /repo rev-parse HEAD)"; git checkout -q -- . ; git clean -fdq
for d in "$OUT"/*/; do
  i=$(basename "$d")
  [ -f "$d/patch.diff" ] || continue
  cp "$d/demo.py" "$WT/demo_seed.py"
  PYTHONPATH=$WT /venv/bin/python demo_seed.py >/tmp/seed/confirm${R}_${ID}_$i.clean.log 2>&1; rc_clean=$?
  # --3way first: it locates the hunk through the recorded blob, a plain apply may fuzz it into a sibling function
  if git apply --3way "$d/patch.diff" >/dev/null 2>&1; then git reset -q
  else
    git reset -q --hard
    if ! git apply "$d/patch.diff" 2>/dev/null; then echo "$ID-r$R-$i: PATCH DOES NOT APPLY"; git checkout -q -- .; continue; fi
  fi
  git diff -- . ':!demo_seed.py' > /tmp/seed/confirm${R}_${ID}_$i.diff
  PYTHONPATH=$WT /venv/bin/python demo_seed.py >/tmp/seed/confirm${R}_${ID}_$i.mut.log 2>&1; rc_mut=$?
  suite=$(PYTHONPATH=$WT /venv/bin/python -m pytest -q -p no:cacheprovider --timeout=900 2>&1 | grep -E "passed|failed" | tail -1)
  git checkout -q -- . ; rm -f demo_seed.py
  ok=no
  case "$suite" in *failed*) ;; *"131 passed, 1 skipped"*) [ "$rc_clean" = 0 ] && [ "$rc_mut" != 0 ] && ok=yes;; esac
  echo "$ID-r$R-$i: demo clean rc=$rc_clean mutated rc=$rc_mut suite='$suite' confirmed=$ok"
  if [ "$ok" = yes ]; then
    T=/verif/seeded/$ID-r$R-$i
    mkdir -p $T
    cp /tmp/seed/confirm${R}_${ID}_$i.diff $T/patch.diff; cp "$d/demo.py" $T/
    /venv/bin/python - "$d/meta.json" $T/meta.json "$suite" "$R" <<'PY'
import json,sys
m=json.load(open(sys.argv[1]))
m["round"]=int(sys.argv[4])
m["confirmed"]={"ran":["demo.py on clean worktree -> exit 0","git apply patch.diff; demo.py -> non-zero exit","pytest -q -p no:cacheprovider --timeout=900 with the patch applied"],"suite_result":sys.argv[3]}
json.dump(m,open(sys.argv[2],"w"),indent=1)
PY
  fi
done
