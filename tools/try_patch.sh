#!/bin/sh
# usage: tools/try_patch.sh <patch.diff> <PROP> [more props...]  -- applies to /repo, runs checks, reverts
P="$1"; shift
git -C /repo apply "$P" || { echo "PATCH DOES NOT APPLY"; exit 3; }
for id in "$@"; do
  /verif/check "$id" --no-evidence 2>&1 | grep -v conda | tail -6
  echo "rc[$id]=$?"
done
git -C /repo checkout -- .
git -C /repo status --short | head -3
