#!/usr/bin/env python3
"""Applies every hand-written mutant to a scratch copy and runs the check of its property. Prints those that are missed."""
import sys, io, contextlib, shutil, py_compile
from pathlib import Path
from concurrent.futures import ProcessPoolExecutor
HERE = Path(__file__).resolve().parent.parent
sys.path.insert(0, str(HERE))
from sa import main, report, selftest
from selftest.mutants import MUTANTS
def one(m):
    prop, name, rule, file, old, new = m
    main.load_rules() if not report.RULES else None
    root = selftest.make_scratch(Path("/repo"))
    try:
        try:
            selftest.apply_edit(root, file, old, new)
        except Exception as e:
            return prop, name, "APPLY-FAIL", [str(e)[:120]]
        if file.endswith(".py"):
            try:
                import ast as _ast
                _ast.parse((root / file).read_text())
            except Exception as e:
                return prop, name, "SYNTAX", [str(e)[:120]]
        buf = io.StringIO()
        with contextlib.redirect_stdout(buf):
            st = report.run_property(prop, root, "quick", 0, write_evidence=False, quiet=True)
        last = report.LAST
        rules = sorted({v.rule for v in last.get("violations", [])})
        if st == 1 and (rule is None or rule in rules):
            return prop, name, "CAUGHT", rules
        return prop, name, f"MISSED(status={st})", rules + [e[:200] for e in last.get("errors", [])][:2]
    finally:
        shutil.rmtree(root, ignore_errors=True)
if __name__ == "__main__":
    sel = sys.argv[1:]
    ms = [m for m in MUTANTS if not sel or m[0] in sel or m[1] in sel]
    caught = 0
    with ProcessPoolExecutor(max_workers=16) as ex:
        for prop, name, verdict, info in ex.map(one, ms):
            if verdict == "CAUGHT":
                caught += 1
            else:
                print(f"{verdict:18s} {prop} {name} {info}")
    print(f"caught {caught}/{len(ms)}")
