#!/bin/sh
# tools/confirm_seed.sh <ID>   -- confirms /tmp/seed/out_<ID>/<i> in the scratch worktree /tmp/seed/wt_<ID>
# and copies confirmed seeds to /verif/seeded/<ID>-<i>/ (patch.diff, demo.py, meta.json incl. what was run)
ID="$1"; WT=/tmp/seed/wt_$ID; OUT=/tmp/seed/out_$ID
cd "$WT" || exit 1
git checkout -q -- . ; git clean -fdq
for d in "$OUT"/*/; do
  i=$(basename "$d")
  [ -f "$d/patch.diff" ] || continue
  cp "$d/demo.py" "$WT/demo_seed.py"
  PYTHONPATH=$WT /venv/bin/python demo_seed.py >/tmp/seed/confirm_${ID}_$i.clean.log 2>&1; rc_clean=$?
  if ! git apply "$d/patch.diff"; then echo "$ID-$i: PATCH DOES NOT APPLY"; continue; fi
  PYTHONPATH=$WT /venv/bin/python demo_seed.py >/tmp/seed/confirm_${ID}_$i.mut.log 2>&1; rc_mut=$?
  suite=$(PYTHONPATH=$WT /venv/bin/python -m pytest -q -p no:cacheprovider --timeout=900 2>&1 | grep -E "passed|failed" | tail -1)
  git checkout -q -- . ; rm -f demo_seed.py
  ok=no
  case "$suite" in *"131 passed, 1 skipped"*) [ "$rc_clean" = 0 ] && [ "$rc_mut" != 0 ] && case "$suite" in *failed*) ;; *) ok=yes;; esac;; esac
  echo "$ID-$i: demo clean rc=$rc_clean mutated rc=$rc_mut suite='$suite' confirmed=$ok"
  if [ "$ok" = yes ]; then
    mkdir -p /verif/seeded/$ID-$i
    cp "$d/patch.diff" "$d/demo.py" /verif/seeded/$ID-$i/
    /venv/bin/python - "$d/meta.json" /verif/seeded/$ID-$i/meta.json "$suite" <<'PY'
import json,sys
m=json.load(open(sys.argv[1]))
m["confirmed"]={"ran":["demo.py on clean worktree -> exit 0","git apply patch.diff; demo.py -> non-zero exit","pytest -q -p no:cacheprovider --timeout=900 with the patch applied"],"suite_result":sys.argv[3]}
json.dump(m,open(sys.argv[2],"w"),indent=1)
PY
  fi
done
