#!/usr/bin/env python3
"""Regenerates MANIFEST.json from the table below (claimed properties = those with rules registered)."""
import json, sys, subprocess
from pathlib import Path
HERE = Path(__file__).resolve().parent.parent
sys.path.insert(0, str(HERE))
from sa import main, report
main.load_rules()
claimed = sorted({r.prop for r in report.RULES.values()})

TECH = {
 "C02": "opcode-table extraction from il_exec templates (abstract interpretation over enum x guard valuations) vs C11/RzIL oracle; conversion-history dataflow at constructor sites",
 "C03": "truth table of Cast.il_exec; decision table of init_a_cast; conversion obligations per context (path-sensitive dataflow)",
 "C04": "predicate abstraction of c11_cast/promoted_type over sign x width-order (exhaustive); ownership of stored-to objects; purity",
 "C05": "grammar-role -> constructor -> IL-hole dataflow; order preservation of sequence builders; compound-assignment table",
 "C06": "hybrid order tables; must-wrap (chk_hybrid_dep) rule; grammar x callback flush analysis",
 "C07": "operand tables (letters, widths, classes, flags, templates) vs Hexagon/QEMU/Rizin oracle; sibling agreement",
 "C08": "argument/return protocol agreement; temp-name injectivity across transformers; resource lint",
 "C09": "literal-type table; folder vs run-time twin agreement; use-count guard on operand removal",
 "C10": "sort checking of emission templates by cases over node classes; boolness-predicate agreement",
 "C11": "template induction (balance, statement shape); name generator; block order; metadata regex soundness; name-collision lint",
 "C12": "counter-protocol abstract interpretation ({0,>=1}); must-use of initialisers; who-may-call into il_read",
 "C13": "reset completeness; construct <=> flag must-call / who-may-call; get_meta table",
 "C14": "write-set vs reset-set with read-use analysis; entry-point typestate with exception edges; shared-object mutation",
 "C15": "abstract interpretation of the transformer over all grammar productions (kind fixpoint), discard-site analysis",
 "C16": "non-interference of code_format; partition coverage of the emit loops",
 "C17": "derived precedence/associativity table vs C11; alternative-order and priority rules on the Lark grammar model",
 "C18": "task purity; ordered keyed aggregation; catch-all isolation (AST rules on Parser.py)",
 "C19": "regex-AST losslessness and split uniqueness; loader error discipline; resource lint",
 "C20": "pipeline wiring dataflow; stripper regex losslessness; artefact consistency lints",
}
NOTE = ("Trusted: oracle tables under /verif/oracles and in the rule modules (C11 clauses, RzIL builder sorts, Hexagon/QEMU operand "
        "letters, Rizin class names), Lark's documented tree shaping and ambiguity preference, CPython ast / re._parser, and that "
        "node-level faithfulness composes (syntax-directed translation). Decides the structural clauses listed in DESIGN.md §2 for "
        "this property, not run-time values.")
checks = []
for p in claimed:
    checks.append({
        "property_id": p,
        "quick_cmd": f"./check {p}",
        "thorough_cmd": f"./check {p} --tier thorough",
        "evidence_file": f"/verif/evidence/{p}.json",
        "replay_cmd_template": f"./check {p} --replay {{path}}",
        "engine": "sa",
        "level_claimed": {"category": "other",
                          "text": ("Static analysis of the repository source: every rule extracts a decision table, dataflow obligation, "
                                   "grammar/regex model or state summary from the current tree and compares it with a frozen oracle; "
                                   "exhaustive over the finite table where the clause is finite" + (" (C04: the whole property, 12+6+4 cases)" if p == "C04" else "")
                                   + ". Clause list and what is not decided: DESIGN.md §2 " + p + "."),
                          "design_ref": f"DESIGN.md §2 {p}"},
        "level_note": NOTE,
        "technique": TECH.get(p, "static analysis"),
    })
na = [{"property_id": "C01", "reason": "value equivalence of ~2250 programs over 2^32..2^128 states; every structural necessary condition is decided under C02-C16, and a composite restricted to accepted bundled behaviours would need the accepted set, which only running the compiler gives (static analysis cannot apply)"}]
for i in range(2, 21):
    p = f"C{i:02d}"
    if p not in claimed:
        na.append({"property_id": p, "reason": "static check for this property not built yet (design in DESIGN.md §2); not claimed until its rules exist"})
man = {
 "version": 1,
 "setup_cmd": "/venv/bin/python -c \"import lark, ast, re; print('ok')\"",
 "hooks": {"guard": "RZILC_VERIF", "enable": "none needed: the checks are static analyses of /repo's working tree and add no code to it",
           "baseline_off_cmd": "cd /repo && /venv/bin/python -m pytest -ra -q -p no:cacheprovider --timeout=900 --continue-on-collection-errors",
           "source_commits": [], "add_only": True},
 "engines": [{"name": "sa", "path": "/verif/sa", "serves_properties": claimed,
              "kind_free_text": "repository-specific static analysis: ast index + resolved call graph, path-sensitive symbolic walker, abstract interpreter over finite domains (templates, predicates, kinds, counters), Lark grammar model, regex AST model"}],
 "checks": checks,
 "notes": "All checks are static (family: static analysis). Exit 0/1/2 contract and known-findings handling: DESIGN.md §1.2; genuine defects repaired in /repo are listed as 'fixed' in /verif/known_findings.json.",
 "not_applicable": na,
}
(HERE / "MANIFEST.json").write_text(json.dumps(man, indent=1) + "\n")
print("claimed:", claimed)
