#!/venv/bin/python
"""tools/dump_corpus.py <repo dir> <out.json> -- developer aid (NOT a check): compiles every bundled instruction with the tree at
<repo dir> and dumps name -> emitted text / exception class, to compare the bundled output before and after a repair."""
import json, sys, os, io, contextlib
root, out = sys.argv[1], sys.argv[2]
os.chdir(root); sys.path.insert(0, root)
from rzilcompiler.Compiler import Compiler
from rzilcompiler.ArchEnum import ArchEnum
buf = io.StringIO()
with contextlib.redirect_stderr(buf):
    c = Compiler(ArchEnum.HEXAGON)
    c.preprocessor.load_insn_behavior()
    c.parse_shortcode()
res = {}
for name, parsed in c.parsed_insns.items():
    if parsed.exception:
        res[name] = "PARSE:" + str(parsed.exception.name)
        continue
    try:
        r = c.transform_insn(name, parsed)
        res[name] = {"rzil": r.rzil, "meta": r.meta}
    except Exception as e:
        res[name] = "TRANSFORM:" + type(e).__name__ + ":" + str(e)[:80]
json.dump(res, open(out, "w"), indent=0, sort_keys=True)
print(len(res), sum(1 for v in res.values() if isinstance(v, dict)))
