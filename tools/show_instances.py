#!/venv/bin/python
"""tools/show_instances.py PROP RULE...  -- prints the instances the given rules evaluate on /repo (key | observed)"""
import sys
from pathlib import Path
sys.path.insert(0, str(Path(__file__).resolve().parent.parent))
from sa import main, report
main.load_rules()
prop, rules = sys.argv[1], set(sys.argv[2:])
report.run_property(prop, Path("/repo"), "quick", 0, write_evidence=False, quiet=True)
for i in report.LAST["instances"]:
    if not rules or i.rule in rules:
        print(("ok  " if i.ok else "FAIL"), i.rule, i.key, "|", i.observed[:160])
