#!/usr/bin/env python3
"""tools/add_known.py PROP RULE KEYPREFIX WHAT WITNESS -- record the CURRENT violations of RULE whose key starts with KEYPREFIX as known findings.
Only for findings confirmed against the real compiler by hand (see DESIGN.md §3); never run by a check."""
import json, sys
from pathlib import Path
HERE = Path(__file__).resolve().parent.parent
sys.path.insert(0, str(HERE))
from sa import main, report
prop, rid, prefix, what, witness = sys.argv[1:6]
main.load_rules()
report.run_property(prop, Path("/repo"), "quick", 0, write_evidence=False, quiet=True)
p = HERE / "known_findings.json"
d = json.loads(p.read_text())
n = 0
for v in report.LAST["violations"]:
    if v.rule == rid and v.key.startswith(prefix):
        d["findings"].append({"status": "known", "property": prop, "rule": rid, "key": v.key, "observed": v.observed, "what": what, "witness": witness})
        n += 1
p.write_text(json.dumps(d, indent=1))
print("added", n)
