#!/bin/sh
# tools/rebase_seed.sh <seed-dir-name>   -- re-applies /verif/seeded/<name>/patch.diff with a 3-way merge onto /repo's HEAD
# in a scratch worktree (/tmp/seed/wtr), re-confirms it (demo passes on HEAD, fails with the patch, suite unchanged) and
# replaces patch.diff by the diff against HEAD (the previous one is kept as patch.orig.diff if none exists yet).
S="$1"; D=/verif/seeded/$S; WT=/tmp/seed/wtr_$S
[ -d "$WT" ] || git -C /repo worktree add -q --detach "$WT" HEAD
cd "$WT" || exit 1
git checkout -q --detach "$(git -C /repo rev-parse HEAD)"; git reset -q --hard; git clean -fdq
cp "$D/demo.py" demo_seed.py
PYTHONPATH=$WT /venv/bin/python demo_seed.py >/tmp/seed/rebase_$S.clean.log 2>&1; rc_clean=$?
if git apply --3way "$D/patch.diff" >/tmp/seed/rebase_$S.apply.log 2>&1; then git reset -q; else echo "$S: 3-way merge failed (manual rebase needed)"; git reset -q --hard; cd /; git -C /repo worktree remove --force "$WT"; exit 2; fi
git diff -- . ':!demo_seed.py' > /tmp/seed/rebase_$S.diff
PYTHONPATH=$WT /venv/bin/python demo_seed.py >/tmp/seed/rebase_$S.mut.log 2>&1; rc_mut=$?
suite=$(PYTHONPATH=$WT /venv/bin/python -m pytest -q -p no:cacheprovider --timeout=900 2>&1 | grep -E "passed|failed" | tail -1)
echo "$S: demo clean rc=$rc_clean mutated rc=$rc_mut suite='$suite'"
case "$suite" in *failed*) ok=no;; *"131 passed, 1 skipped"*) [ "$rc_clean" = 0 ] && [ "$rc_mut" != 0 ] && ok=yes || ok=no;; *) ok=no;; esac
if [ "$ok" = yes ]; then
  [ -f "$D/patch.orig.diff" ] || cp "$D/patch.diff" "$D/patch.orig.diff"
  cp /tmp/seed/rebase_$S.diff "$D/patch.diff"; echo "$S: rebased"
else echo "$S: NOT confirmed after rebase"; fi
cd /; git -C /repo worktree remove --force "$WT"
