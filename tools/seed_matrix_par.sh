#!/bin/sh
# parallel variant of seed_matrix.sh: every seed is applied to its own scratch copy of /repo's HEAD (never to /repo itself) and the
# check of its own property runs with --repo <copy>.  usage: tools/seed_matrix_par.sh [glob] [jobs]
cd /verif
PAT="${1:-*}"; J="${2:-6}"
ls -d seeded/$PAT/ | grep -v '^seeded/obsolete' | xargs -P "$J" -I{} sh -c '
  d="{}"; s=$(basename "$d"); prop=${s%%-*}
  t=$(mktemp -d /tmp/smx.XXXXXX)
  git -C /repo archive HEAD | tar -x -C "$t"
  if ! (cd "$t" && git apply "/verif/$d/patch.diff" 2>/dev/null); then echo "$s: PATCH DOES NOT APPLY to HEAD"; rm -rf "$t"; exit 0; fi
  out=$(/verif/check $prop --no-evidence --repo "$t" 2>&1); rc=$?
  rules=$(echo "$out" | grep -A1 "^VIOLATION" | grep -o " R[0-9][0-9]\.[0-9]*" | sort -u | tr "\n" " ")
  rm -rf "$t"
  echo "$s: rc=$rc rules=$rules"
'
