#!/usr/bin/env python3
"""Applies every twin of selftest/twins.py to a scratch copy and runs the checks (16 jobs). Prints which checks are not silent."""
import sys, io, contextlib, shutil
from pathlib import Path
from concurrent.futures import ProcessPoolExecutor
HERE = Path(__file__).resolve().parent.parent
sys.path.insert(0, str(HERE))
from sa import main, report, selftest
from selftest.twins import TWINS
ALL = [f"C{i:02d}" for i in range(2, 21)]
def one(tw):
    name, file, old, new, props = tw
    main.load_rules() if not report.RULES else None
    root = selftest.make_scratch(Path("/repo"))
    try:
        try:
            for f, o, n in (old if file == "MULTI" else [(file, old, new)]):
                selftest.apply_edit(root, f, o, n)
        except Exception as e:
            return name, [("APPLY", str(e)[:120])]
        bad = []
        for p in (props or ALL):
            buf = io.StringIO()
            with contextlib.redirect_stdout(buf):
                st = report.run_property(p, root, "quick", 0, write_evidence=False, quiet=True)
            if st != 0:
                last = report.LAST
                msgs = [f"{v.rule} {v.key[:70]} | {v.observed[:80]}" for v in last.get("violations", [])][:3] + [e[:160] for e in last.get("errors", [])][:2]
                bad.append((p, st, msgs))
        return name, bad
    finally:
        shutil.rmtree(root, ignore_errors=True)
if __name__ == "__main__":
    sel = sys.argv[1:]
    tw = [t for t in TWINS if not sel or t[0] in sel]
    with ProcessPoolExecutor(max_workers=16) as ex:
        for name, bad in ex.map(one, tw):
            print(("SILENT  " if not bad else "NOISY   ") + name)
            for b in bad:
                print("     ", b)
